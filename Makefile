# /verif build: everything from files on disk, offline.
#   make setup   - regenerate coq/Gen from /repo, full .vo build, extract + build every model runner
#   make proofs  - just the Coq development
#   make clean
REPO ?= /repo
J ?= 16

.PHONY: setup gen proofs models clean hygiene manifest

setup: gen proofs models

gen:
	python3 tools/extract_consts.py $(REPO) || true

proofs: gen
	python3 -c "import sys; sys.path.insert(0,'lib'); import vlib; vlib.coq_makefile()"
	cd coq && timeout 7200 $(MAKE) -f Makefile.coq -k -j$(J) COQC=$(CURDIR)/tools/coqc_limited.sh || echo "WARNING: part of the Coq development did not build; the checks that depend on it will report it"

models:
	python3 -c "import sys,glob,os; sys.path.insert(0,'lib'); import vlib; [print(a, vlib.build_model(a)) for a in sorted(os.path.basename(p)[8:-2] for p in glob.glob('coq/Extract/Extract_*.v'))]"

manifest:
	python3 tools/gen_manifest.py

hygiene:
	! grep -rnE '\b(Admitted|admit|Axiom|Parameter|Conjecture|bypass_check)\b|Unset Guard' coq --include='*.v'

clean:
	rm -rf build coq/Makefile.coq coq/Makefile.coq.conf coq/_CoqProject coq/.Makefile.coq.d
	find coq -name '*.vo' -o -name '*.vok' -o -name '*.vos' -o -name '*.glob' -o -name '.*.aux' | xargs rm -f
