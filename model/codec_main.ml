(* case lines:
     hexify <hexbytes>            -> ok <hex of written bytes incl NUL> | fault
     unhexify <hexbytes(no NUL)> <len>  -> ok none | ok <hexbytes> | fault
   with a "spec" prefix the independent spec is evaluated instead of the model. *)
let show_res f = function
  | Ok a -> "ok " ^ f a
  | Fault -> "fault" | AssertFail -> "assert" | OutOfFuel -> "fuel"
let () = iter_lines (fun line ->
  match split_ws line with
  | ["hexify"; b] -> print_endline (show_res hex_of_bytes (hexify_m hexchars (bytes_of_hex b)))
  | ["spec"; "hexify"; b] -> print_endline ("ok " ^ hex_of_bytes (hex_spec (bytes_of_hex b) @ [N0]))
  | ["unhexify"; s; len] ->
    let inp = bytes_of_hex s @ [N0] in
    print_endline (show_res (function None -> "none" | Some o -> hex_of_bytes o)
                     (unhexify_m hexchars inp (nat_of_int (int_of_string len))))
  | ["unhexraw"; s; len] ->
    (* no terminator: a read at or beyond the end of the block is a Fault *)
    print_endline (show_res (function None -> "none" | Some o -> hex_of_bytes o)
                     (unhexify_m hexchars (bytes_of_hex s) (nat_of_int (int_of_string len))))
  | ["spec"; "unhexraw"; s; len]
  | ["spec"; "unhexify"; s; len] ->
    print_endline ("ok " ^ (match unhex_spec (bytes_of_hex s) (nat_of_int (int_of_string len)) with
        None -> "none" | Some o -> hex_of_bytes o))
  | _ -> print_endline "bad-case")
