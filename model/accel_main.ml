(* case lines (operands are 128-bit registers as 32 hex digits, memory order):
     features                                   -> ok model
     op <name> <imm> <a> <b> <c>                one instruction / intrinsic -> ok <register>
        names: or xor add32 slli16 srli16 slli32 srli32 slli64 srli64 bslli bsrli shuf32 shuflo shufhi
               movess unpacklo unpackhi pshufb alignr blend16 rnds2 msg1 msg2
        (unused operands and an unused immediate are ignored)
     xform-sse2|xform-shani <state words as bytes, big endian> <block>   one transform -> ok <state>
   With a "spec" prefix an xform line is answered by the FIPS 180-4 compression function
   (and, as "portable", by the model of the portable C transform). *)
let rec words_of_bytes = function
  | a :: b :: c :: d :: r -> be32dec4 a b c d :: words_of_bytes r
  | _ -> []
let bytes_of_words ws = Stdlib.List.concat_map be32enc ws
let vx s = v_of_bytes (bytes_of_hex s)
let xv v = hex_of_bytes (bytes_of_v v)
let ok s = print_endline ("ok " ^ s)
let op name imm a b c =
  let i = n_of_int imm in
  match name with
  | "or" -> Some (mm_or_si128 a b) | "xor" -> Some (mm_xor_si128 a b) | "add32" -> Some (mm_add_epi32 a b)
  | "slli16" -> Some (mm_slli_epi16 a i) | "srli16" -> Some (mm_srli_epi16 a i)
  | "slli32" -> Some (mm_slli_epi32 a i) | "srli32" -> Some (mm_srli_epi32 a i)
  | "slli64" -> Some (mm_slli_epi64 a i) | "srli64" -> Some (mm_srli_epi64 a i)
  | "bslli" -> Some (mm_slli_si128 a i) | "bsrli" -> Some (mm_srli_si128 a i)
  | "shuf32" -> Some (mm_shuffle_epi32 a i)
  | "shuflo" -> Some (mm_shufflelo_epi16 a i) | "shufhi" -> Some (mm_shufflehi_epi16 a i)
  | "movess" -> Some (mm_move_ss a b)
  | "unpacklo" -> Some (mm_unpacklo_epi64 a b) | "unpackhi" -> Some (mm_unpackhi_epi64 a b)
  | "pshufb" -> Some (mm_shuffle_epi8 a b) | "alignr" -> Some (mm_alignr_epi8 a b i)
  | "blend16" -> Some (mm_blend_epi16 a b i)
  | "rnds2" -> Some (sha256rnds2 a b c) | "msg1" -> Some (sha256msg1 a b) | "msg2" -> Some (sha256msg2 a b)
  | _ -> None
let xform f st b = ok (hex_of_bytes (bytes_of_words (f (words_of_bytes (bytes_of_hex st)) (bytes_of_hex b))))
let () = iter_lines (fun line ->
  match split_ws line with
  | ["features"] -> ok "model"
  | ["op"; name; imm; a; b; c] ->
    (match op name (int_of_string imm) (vx a) (vx b) (vx c) with
     | Some r -> ok (xv r) | None -> print_endline "bad-case")
  | ["xform-sse2"; st; b] -> xform sha256_transform_sse2 st b
  | ["xform-shani"; st; b] -> xform sha256_transform_shani st b
  | ["spec"; ("xform-sse2" | "xform-shani"); st; b] -> xform f256_compress st b
  | ["portable"; ("xform-sse2" | "xform-shani"); st; b] -> xform sha256_transform st b
  | _ -> print_endline "bad-case")
