(* Model runner for datastruct/ptrheap.c and timerqueue.c; case lines and result lines exactly as
   harness/drv_heap.c (see the comment there).  The key store, the position table written by the
   record-cookie callback and the live flags belong to the *caller* of the heap, so they live here
   (as they live in the C driver), not in the extracted model. *)
let show_z z = string_of_int (int_of_z z)
let keys : (int, int) Hashtbl.t = Hashtbl.create 1024
let rcs : (int, int) Hashtbl.t = Hashtbl.create 1024
let live : (int, bool) Hashtbl.t = Hashtbl.create 1024
let is_live id = try Hashtbl.find live id with Not_found -> false
let cmp (x : n) (y : n) : z =
  let a = Hashtbl.find keys (int_of_n x) and b = Hashtbl.find keys (int_of_n y) in
  if a > b then z_of_int 5 else if a < b then z_of_int (-3) else Z0

let mk_oracle (t : string) : oracle * bool =
  let l = String.length t in
  let persist = l > 0 && t.[l - 1] = '+' in
  let k = int_of_string (if persist then String.sub t 0 (l - 1) else t) in
  if k = 0 then ({ ans = []; dflt = true }, false)
  else if persist then ({ ans = List.init (k - 1) (fun _ -> true); dflt = false }, true)
  else ({ ans = List.init (k - 1) (fun _ -> true) @ [false]; dflt = true }, true)

let show_ev = function
  | AMalloc (sz, ok) -> Printf.sprintf "m%d%s" (int_of_n sz) (if ok then "+" else "-")
  | ARealloc (old, sz, ok) ->
    Printf.sprintf "r%d>%d%s" (match old with None -> 0 | Some o -> int_of_n o) (int_of_n sz) (if ok then "+" else "-")
  | AFree sz -> Printf.sprintf "f%d" (int_of_n sz)
let show_evs evs = String.concat "," (List.map show_ev evs)
let nreq evs = List.length (List.filter (function AFree _ -> false | _ -> true) evs)
let show_notes ns = String.concat "," (List.map (fun (id, pos) -> Printf.sprintf "%d@%d" (int_of_n id) (int_of_nat pos)) ns)
let apply_notes ns = List.iter (fun (id, pos) -> Hashtbl.replace rcs (int_of_n id) (int_of_nat pos)) ns

exception Stop of string   (* Fault / AssertFail / OutOfFuel in the model *)
let ok_or = function Ok a -> a | Fault -> raise (Stop "fault") | AssertFail -> raise (Stop "assert") | OutOfFuel -> raise (Stop "fuel")

let parse_idkey s = (* "<id>=<key>" *)
  match String.split_on_char '=' s with [a; b] -> (int_of_string a, int_of_string b) | _ -> failwith "idkey"
let split2 c s = let i = String.index s c in (String.sub s 0 i, String.sub s (i + 1) (String.length s - i - 1))

let run_heap toks =
  Hashtbl.reset keys; Hashtbl.reset rcs; Hashtbl.reset live;
  let fail_t, ops = match toks with f :: r -> (f, r) | [] -> ("0", []) in
  let o0, failmode = mk_oracle fail_t in
  let o = ref o0 and h : heap option ref = ref None and started = ref false and withcb = ref false in
  let allev = ref [] in
  let out = Buffer.create 256 in
  let first = ref true in
  let emit status notes evs =
    if not !first then Buffer.add_char out ' ';
    first := false;
    allev := !allev @ evs;
    let m = match !h with
      | None -> "-"
      | Some hh -> (match ok_or (ph_getmin hh) with None -> "-" | Some x -> string_of_int (int_of_n x)) in
    Buffer.add_string out (Printf.sprintf "%s:%s:%s" status (show_notes notes) m);
    if failmode then Buffer.add_string out (":" ^ show_evs evs) in
  (try
    List.iter (fun t ->
      let op = t.[0] and rest = String.sub t 1 (String.length t - 1) in
      match op with
      | 'C' | 'c' | 'I' | 'i' ->
        if !started then emit "skip" [] [] else begin
          started := true; withcb := (op = 'C' || op = 'I');
          let pairs = if (op = 'C' || op = 'c') && rest <> "" then List.map parse_idkey (String.split_on_char ',' rest) else [] in
          List.iter (fun (id, k) -> Hashtbl.replace keys id k) pairs;
          let ptrs = List.map (fun (id, _) -> n_of_int id) pairs in
          let (((oh, ns), o1), ev) = ok_or (ph_create cmp !withcb ptrs !o) in
          o := o1; apply_notes ns;
          (match oh with
           | Some hh -> h := Some hh; List.iter (fun (id, _) -> Hashtbl.replace live id true) pairs; emit "ok" ns ev
           | None -> emit "fail" ns ev)
        end
      | _ ->
        match !h with
        | None -> emit "skip" [] []
        | Some hh ->
          (match op with
           | 'A' ->
             let (id, k) = parse_idkey rest in
             if is_live id then emit "skip" [] [] else begin
               Hashtbl.replace keys id k;
               let ((((ok, h1), ns), o1), ev) = ok_or (ph_add cmp !withcb hh (n_of_int id) !o) in
               o := o1; h := Some h1; apply_notes ns;
               if ok then (Hashtbl.replace live id true; emit "ok" ns ev) else emit "fail" ns ev
             end
           | 'M' ->
             (match ok_or (ph_getmin hh) with
              | None -> emit "skip" [] []
              | Some m ->
                let (((h1, ns), o1), ev) = ok_or (ph_deletemin cmp !withcb hh !o) in
                o := o1; h := Some h1; apply_notes ns; Hashtbl.replace live (int_of_n m) false; emit "ok" ns ev)
           | 'D' ->
             let id = int_of_string rest in
             if not !withcb || not (is_live id) then emit "skip" [] [] else begin
               let (((h1, ns), o1), ev) = ok_or (ph_delete cmp true hh (nat_of_int (Hashtbl.find rcs id)) !o) in
               o := o1; h := Some h1; apply_notes ns; Hashtbl.replace live id false; emit "ok" ns ev
             end
           | 'U' ->
             let (a, d) = split2 '+' rest in
             let id = int_of_string a in
             if not !withcb || not (is_live id) then emit "skip" [] [] else begin
               Hashtbl.replace keys id (Hashtbl.find keys id + int_of_string d);
               let (h1, ns) = ok_or (ph_increase cmp true hh (nat_of_int (Hashtbl.find rcs id))) in
               h := Some h1; apply_notes ns; emit "ok" ns []
             end
           | 'L' ->
             let (a, d) = split2 '-' rest in
             let id = int_of_string a in
             if not !withcb || not (is_live id) then emit "skip" [] [] else begin
               Hashtbl.replace keys id (Hashtbl.find keys id - int_of_string d);
               let (h1, ns) = ok_or (ph_decrease cmp true hh (nat_of_int (Hashtbl.find rcs id))) in
               h := Some h1; apply_notes ns; emit "ok" ns []
             end
           | 'T' ->
             let d = int_of_string (String.sub rest 1 (String.length rest - 1)) in
             (match ok_or (ph_getmin hh) with
              | None -> emit "skip" [] []
              | Some m ->
                let id = int_of_n m in
                Hashtbl.replace keys id (Hashtbl.find keys id + d);
                let (h1, ns) = ok_or (ph_increasemin cmp !withcb hh) in
                h := Some h1; apply_notes ns; emit "ok" ns [])
           | 'G' -> emit "ok" [] []
           | _ -> emit "skip" [] [])) ops;
    let ev = match !h with None -> [] | Some hh -> ph_free_ev hh in
    allev := !allev @ ev;
    if not !first then Buffer.add_char out ' ';
    Buffer.add_string out "end";
    if failmode then Buffer.add_string out (":" ^ show_evs ev);
    let livestr = match heap_run [] !allev with Some l -> string_of_int (List.length l) | None -> "badfree" in
    Buffer.add_string out (Printf.sprintf ":live=%s:reqs=%d" livestr (nreq !allev));
    print_endline (Buffer.contents out)
  with Stop why -> print_endline (Buffer.contents out ^ " MODEL-" ^ why))

(* decimal text <-> Z over the whole range of a 64-bit time_t (OCaml's int has 63 bits only) *)
let z_of_dec s =
  let neg = String.length s > 0 && s.[0] = '-' in
  let mag = if neg then String.sub s 1 (String.length s - 1) else s in
  z_of_hex ((if neg then "-" else "") ^ Printf.sprintf "%Lx" (Int64.of_string ("0u" ^ mag)))
let dec_of_z = function
  | Z0 -> "0"
  | Zpos p -> Printf.sprintf "%Lu" (Int64.of_string ("0x" ^ hex_of_n (Npos p)))
  | Zneg p -> "-" ^ Printf.sprintf "%Lu" (Int64.of_string ("0x" ^ hex_of_n (Npos p)))
let i64_of_z z = Int64.of_string (dec_of_z z)
let parse_tv s = let (a, b) = split2 '.' s in { tv_sec = z_of_dec a; tv_usec = z_of_dec b }
let show_tv tv = dec_of_z tv.tv_sec ^ "." ^ dec_of_z tv.tv_usec
let tv_lt a b = let c x y = Int64.compare (i64_of_z x) (i64_of_z y) in
  c a.tv_sec b.tv_sec < 0 || (c a.tv_sec b.tv_sec = 0 && c a.tv_usec b.tv_usec < 0)

let run_tq toks =
  Hashtbl.reset live;
  let tvs : (int, timeval) Hashtbl.t = Hashtbl.create 64 in
  let fail_t, ops = match toks with f :: r -> (f, r) | [] -> ("0", []) in
  let o0, failmode = mk_oracle fail_t in
  let o = ref o0 and q : tqueue option ref = ref None in
  let allev = ref [] in
  let out = Buffer.create 256 in
  let first = ref true in
  let emit status res evs =
    if not !first then Buffer.add_char out ' ';
    first := false;
    allev := !allev @ evs;
    let m = match !q with
      | None -> "-"
      | Some qq -> (match ok_or (tq_getmin qq) with None -> "-" | Some tv -> show_tv tv) in
    Buffer.add_string out (Printf.sprintf "%s:%s:%s" status res m);
    if failmode then Buffer.add_string out (":" ^ show_evs evs) in
  (try
    let ((oq, o1), ev) = ok_or (tq_init !o) in
    o := o1; q := oq;
    emit (if oq = None then "fail" else "ok") "" ev;
    List.iter (fun t ->
      let op = t.[0] and rest = String.sub t 1 (String.length t - 1) in
      match !q with
      | None -> emit "skip" "" []
      | Some qq ->
        (match op with
         | 'A' ->
           let (a, b) = split2 '=' rest in
           let id = int_of_string a in
           if is_live id then emit "skip" "" [] else begin
             let tv = parse_tv b in
             let (((c, q1), o1), ev) = ok_or (tq_add qq (n_of_int id) tv (n_of_int id) !o) in
             o := o1; q := Some q1;
             if c <> None then (Hashtbl.replace live id true; Hashtbl.replace tvs id tv; emit "ok" "" ev) else emit "fail" "" ev
           end
         | 'D' ->
           let id = int_of_string rest in
           if not (is_live id) then emit "skip" "" [] else begin
             let ((q1, o1), ev) = ok_or (tq_delete qq (n_of_int id) !o) in
             o := o1; q := Some q1; Hashtbl.replace live id false; emit "ok" "" ev
           end
         | 'U' ->
           let (a, b) = split2 '=' rest in
           let id = int_of_string a in
           let tv = parse_tv b in
           if not (is_live id) || tv_lt tv (Hashtbl.find tvs id) then emit "skip" "" [] else begin
             let q1 = ok_or (tq_increase qq (n_of_int id) tv) in
             q := Some q1; Hashtbl.replace tvs id tv; emit "ok" "" []
           end
         | 'P' ->
           let tv = parse_tv rest in
           let (((r, q1), o1), ev) = ok_or (tq_getptr qq tv !o) in
           o := o1; q := Some q1;
           (match r with
            | None -> emit "ok" "-" ev
            | Some p -> Hashtbl.replace live (int_of_n p) false; emit "ok" (string_of_int (int_of_n p)) ev)
         | 'G' -> emit "ok" "" []
         | _ -> emit "skip" "" [])) ops;
    let ev = match !q with
      | None -> []
      | Some qq -> snd (ok_or (tq_free (nat_of_int (List.length (elems (tq_heap qq)) + 1)) qq !o)) in
    allev := !allev @ ev;
    Buffer.add_string out " end";
    if failmode then Buffer.add_string out (":" ^ show_evs ev);
    let livestr = match heap_run [] !allev with Some l -> string_of_int (List.length l) | None -> "badfree" in
    Buffer.add_string out (Printf.sprintf ":live=%s:reqs=%d" livestr (nreq !allev));
    print_endline (Buffer.contents out)
  with Stop why -> print_endline (Buffer.contents out ^ " MODEL-" ^ why))

let () = iter_lines (fun line ->
  match split_ws line with
  | "heap" :: toks -> run_heap toks
  | "tq" :: toks -> run_tq toks
  | _ -> print_endline "bad-case")
