(* case lines (same as harness/drv_drbg.c):
     drbg <oracle> <reqs>
        oracle: comma-separated entries, "f" = the entropy source fails, else hex bytes; "-" = empty
        reqs:   comma-separated request lengths (decimal); "-" = none
        -> "<r1> <r2> ... | K=<hex> V=<hex> c=<n> i=<0|1> used=<k> ent=<e1>+<e2>..."
           ri = "0:<hex>" (returned 0, buffer content) or "-1"; used = oracle entries consumed;
           ent = entropy_read calls in order as <len> or <len>f (failed); "-" = none
     fill <buflen> <answers>      (util/entropy.c entropy_read_fill over scripted read() answers)
        answers: comma-separated, "e" = read returned -1, "z" = 0 bytes (EOF), else hex bytes
        -> "ok <hex> used=<k>" | "fail used=<k>"
     os <sessions> <reqs>         (crypto_entropy.c over the real util/entropy.c over scripted system calls)
        sessions: comma-separated, one per open(): <o|x>:<reads>:<closes>; "-" = none
           o / x = open succeeds / fails; reads: "/"-separated read() answers: hex bytes, "z" = 0 (EOF),
           "e" = -1 EIO, "i" = -1 EINTR, "-" = none; closes: string over k (0), i (-1 EINTR), e (-1 EIO), "-" = none
           an exhausted script answers -1 to everything
        -> "<r1> ... | K=<hex> V=<hex> c=<n> i=<0|1> used=<sessions consumed> sys=<s1>+<s2>..."
           si = "x" (open failed) or "o<len>r<reads consumed>c<closes consumed>", len = size of the first read
     sess <buflen> <session>      (util/entropy.c entropy_read alone)
        -> "ok <hex> sys=<s>" | "fail sys=<s>"
   With a "spec" prefix the SP 800-90A spec (over DrbgOsSpec.v for os / sess) is run instead of the model
   of the C (no ent= / sys= part). *)
let split_commas s = if s = "-" then [] else String.split_on_char ',' s
let parse_oracle s = List.map (fun e -> if e = "f" then None else Some (bytes_of_hex e)) (split_commas s)
let parse_reqs s = List.map (fun e -> n_of_int (int_of_string e)) (split_commas s)
let show_results rs = String.concat " " (List.map (function Some b -> "0:" ^ hex_of_bytes b | None -> "-1") rs)
let show_ev evs =
  let sh n ok = Some (string_of_int (int_of_nat n) ^ (if ok then "" else "f")) in
  let l = List.filter_map (function EvInstantiate (n, ok) -> sh n ok | EvReseed (n, ok, _) -> sh n ok | EvGenerate _ -> None) evs in
  if l = [] then "-" else String.concat "+" l
let zeros32 = String.make 64 '0'
let parse_read e = if e = "e" || e = "i" then RdErr else if e = "z" then RdBytes [] else RdBytes (bytes_of_hex e)
let parse_session t =
  match String.split_on_char ':' t with
  | [o; r; c] ->
    { s_open = (o = "o");
      s_reads = (if r = "-" then [] else List.map parse_read (String.split_on_char '/' r));
      s_closes = (if c = "-" then [] else
                    List.init (String.length c) (fun i -> match c.[i] with 'k' -> CloseOk | 'i' -> CloseEintr | _ -> CloseErr)) }
  | _ -> failwith "bad session"
let parse_sessions s = List.map parse_session (split_commas s)
let show_session n s =
  if not s.s_open then "x" else
  match entropy_read_w (n_of_int n) s with
  | Ok (_, (nr, nc)) -> Printf.sprintf "o%dr%dc%d" n (int_of_nat nr) (int_of_nat nc)
  | _ -> "abort"
(* the entropy acquisitions of the trace, each against the next session *)
let show_sys evs ss =
  let rec go evs ss acc = match evs with
    | [] -> List.rev acc
    | EvGenerate _ :: r -> go r ss acc
    | (EvInstantiate (n, _) | EvReseed (n, _, _)) :: r ->
      (match ss with [] -> go r [] ("x" :: acc) | s :: ss' -> go r ss' (show_session (int_of_nat n) s :: acc)) in
  let l = go evs ss [] in if l = [] then "-" else String.concat "+" l
let () = iter_lines (fun line ->
  match split_ws line with
  | ["drbg"; o; r] ->
    let o = parse_oracle o in
    (match drbg_run (parse_reqs r) o with
     | Ok (((rs, st), o'), evs) ->
       Printf.printf "%s | K=%s V=%s c=%d i=%d used=%d ent=%s\n" (show_results rs)
         (hex_of_bytes (dKey st)) (hex_of_bytes (dV st)) (int_of_n (dctr st)) (if dinst st then 1 else 0)
         (List.length o - List.length o') (show_ev evs)
     | Fault -> print_endline "fault" | AssertFail -> print_endline "assert" | OutOfFuel -> print_endline "fuel")
  | ["spec"; "drbg"; o; r] ->
    let o = parse_oracle o in
    let ((rs, st), o') = drbg_spec_run (parse_reqs r) o in
    (match st with
     | Some s -> Printf.printf "%s | K=%s V=%s c=%d i=1 used=%d\n" (show_results rs)
                   (hex_of_bytes (sK s)) (hex_of_bytes (sV s)) (int_of_n (sctr s)) (List.length o - List.length o')
     | None -> Printf.printf "%s | K=%s V=%s c=0 i=0 used=%d\n" (show_results rs) zeros32 zeros32
                 (List.length o - List.length o'))
  | ["os"; o; r] ->
    let ss = parse_sessions o in
    (match drbg_os_run (parse_reqs r) ss with
     | Ok (((rs, st), ss'), evs) ->
       Printf.printf "%s | K=%s V=%s c=%d i=%d used=%d sys=%s\n" (show_results rs)
         (hex_of_bytes (dKey st)) (hex_of_bytes (dV st)) (int_of_n (dctr st)) (if dinst st then 1 else 0)
         (List.length ss - List.length ss') (show_sys evs ss)
     | Fault -> print_endline "fault" | AssertFail -> print_endline "assert" | OutOfFuel -> print_endline "fuel")
  | ["spec"; "os"; o; r] ->
    let ss = parse_sessions o in
    let ((rs, st), o') = drbg_os_spec_run (parse_reqs r) ss in
    (match st with
     | Some s -> Printf.printf "%s | K=%s V=%s c=%d i=1 used=%d\n" (show_results rs)
                   (hex_of_bytes (sK s)) (hex_of_bytes (sV s)) (int_of_n (sctr s)) (List.length ss - List.length o')
     | None -> Printf.printf "%s | K=%s V=%s c=0 i=0 used=%d\n" (show_results rs) zeros32 zeros32
                 (List.length ss - List.length o'))
  | ["sess"; n; t] ->
    let s = parse_session t and n = int_of_string n in
    (match entropy_read_w (n_of_int n) s with
     | Ok (Some b, _) -> Printf.printf "ok %s sys=%s\n" (hex_of_bytes b) (show_session n s)
     | Ok (None, _) -> Printf.printf "fail sys=%s\n" (show_session n s)
     | Fault -> print_endline "fault" | AssertFail -> print_endline "assert" | OutOfFuel -> print_endline "fuel")
  | ["spec"; "sess"; n; t] ->
    (match spec_session (nat_of_int (int_of_string n)) (parse_session t) with
     | Some b -> Printf.printf "ok %s\n" (hex_of_bytes b)
     | None -> print_endline "fail")
  | ["fill"; n; a] ->
    let ans = List.map (fun e -> if e = "e" then RdErr else if e = "z" then RdBytes [] else RdBytes (bytes_of_hex e)) (split_commas a) in
    (match entropy_read_fill_m (n_of_int (int_of_string n)) ans with
     | Ok (Some b, rest) -> Printf.printf "ok %s used=%d\n" (hex_of_bytes b) (List.length ans - List.length rest)
     | Ok (None, rest) -> Printf.printf "fail used=%d\n" (List.length ans - List.length rest)
     | Fault -> print_endline "fault" | AssertFail -> print_endline "assert" | OutOfFuel -> print_endline "fuel")
  | _ -> print_endline "bad-case")
