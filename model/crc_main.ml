(* case lines (see harness/drv_crc.c):
     tables                          -> ok <4*256 entries>
     crc <off> <hexdata> <cuts>      -> ok <4 crc bytes> | assert | fault | fuel
     upd <off> <state> <hexdata>     -> ok <state>
     sse42 <off> <state> <hexdata>   -> ok <state> | assert | n/a
   argv[1] = none | sse42 | sse42_32 : which build of the C this run mirrors.
   "spec ..." evaluates the independent reference instead (configuration-free);
   "specok <hexdata> <crcbytes>" evaluates the property predicate crc_spec_ok. *)
let cfg = if Array.length Sys.argv > 1 then Sys.argv.(1) else "none"
let hw = (cfg <> "none")
let use64 = (cfg <> "sse42_32")
let show_res f = function
  | Ok a -> "ok " ^ f a
  | Fault -> "fault" | AssertFail -> "assert" | OutOfFuel -> "fuel"
let hex8 x = Printf.sprintf "%08x" (int_of_n x)
let hex_tables ts = String.concat "" (List.map (fun t -> String.concat "" (List.map hex8 t)) ts)
(* split data according to the cut list *)
let rec take k l = if k = 0 then ([], l) else match l with [] -> ([], []) | x :: r -> let (a, b) = take (k - 1) r in (x :: a, b)
let parts_of data cuts =
  if cuts = "-" then (if data = [] then Some [] else None) else begin
    let ls = List.map int_of_string (String.split_on_char ',' cuts) in
    let rec go d = function
      | [] -> if d = [] then Some [] else None
      | l :: r -> if l > List.length d then None else
          let (a, b) = take l d in (match go b r with Some t -> Some (a :: t) | None -> None) in
    go data ls
  end
(* CRC32C_Init runs init() first; if its assert fails every call sequence aborts there *)
let init_ok = (match crc_init_tables with Ok _ -> true | _ -> false)
let () = iter_lines (fun line ->
  match split_ws line with
  | ("crc" | "upd" | "sse42") :: _ when not init_ok -> print_endline "assert"
  | ["tables"] -> print_endline (show_res hex_tables crc_init_tables)
  | ["spec"; "tables"] -> print_endline ("ok " ^ hex_tables (List.map (fun k -> crc_table_ref (n_of_int k)) [0; 1; 2; 3]))
  | ["crc"; off; d; cuts] ->
    (match parts_of (bytes_of_hex d) cuts with
     | None -> print_endline "bad-case"
     | Some parts ->
       print_endline (show_res hex_of_bytes (crc_stream_any_config_gen use64 hw (n_of_int (int_of_string off)) parts)))
  | ["spec"; "crc"; _; d; _] -> print_endline ("ok " ^ hex_of_bytes (crc_ref (bytes_of_hex d)))
  | ["specok"; d; c] -> print_endline (if crc_spec_okb (bytes_of_hex d) (bytes_of_hex c) then "true" else "false")
  | ["upd"; off; st; d] ->
    print_endline (show_res hex8 (crc_update_any_config_gen use64 hw (n_of_int (int_of_string off)) (n_of_hex st) (bytes_of_hex d)))
  | ["spec"; "upd"; _; st; d] -> print_endline ("ok " ^ hex8 (crc_ref_update (n_of_hex st) (bytes_of_hex d)))
  | ["sse42"; off; st; d] ->
    if not hw then print_endline "n/a" else
    print_endline (show_res hex8 (crc_update_sse42_gen use64 (n_of_int (int_of_string off)) (n_of_hex st) (bytes_of_hex d)))
  | ["spec"; "sse42"; _; st; d] ->
    let data = bytes_of_hex d in
    (* documented precondition of CRC32C_Update_SSE42: len >= 8 *)
    if List.length data < 8 then print_endline "assert"
    else print_endline ("ok " ^ hex8 (crc_ref_update (n_of_hex st) data))
  | _ -> print_endline "bad-case")
