(* case lines (util/json.c):
     find <bufhex> <keyhex>                 -> ok <offset> | fault | assert | fuel
        JsonRepo.json_find_c: model of json_find(buf, buf+len, key), tables regenerated from the C text
     old find <bufhex> <keyhex>             -> same, for the code before the two repairs
     spec find <bufhex> <keyhex> <doc>      -> ok <offset> | spec-render-mismatch | spec-not-wf
        <doc> is the abstract value with its layout; the spec's render of it must be exactly
        <bufhex>, it must be well-formed, and the answer is find_spec.
     specinfo <doc>                         -> wf=<0|1> rfc=<0|1> len=<n>

   <doc>   := hex ';' value hex ';'                       (leading blanks, value, trailing bytes)
   value   := 'F' | 'Z' | 'T' | 'N' hex ';' | 'S' items ';'
            | 'A' hex ';' { 'E' hex ';' value hex ';' } ']'
            | 'O' hex ';' { 'M' hex ';' items ';' hex ';' hex ';' value hex ';' } '}'
   items   := { 'R' hh | 'X' hh | 'U' hh hh hh hh }
   hex     := { hh }   (lower-case digits) *)
let show_res f = function
  | Ok a -> "ok " ^ f a
  | Fault -> "fault" | AssertFail -> "assert" | OutOfFuel -> "fuel"

exception Bad_doc

let parse_doc (s : string) : n list * jvalue * n list =
  let i = ref 0 in
  let peek () = if !i < String.length s then s.[!i] else raise Bad_doc in
  let next () = let c = peek () in incr i; c in
  let is_hex c = (c >= '0' && c <= '9') || (c >= 'a' && c <= 'f') in
  let byte () =
    let a = next () in let b = next () in
    if is_hex a && is_hex b then byte_table.(16 * hexval a + hexval b) else raise Bad_doc in
  let hexrun () =
    let rec go acc = if is_hex (peek ()) then go (byte () :: acc) else List.rev acc in
    let r = go [] in
    if next () <> ';' then raise Bad_doc; r in
  let items () =
    let rec go acc =
      match peek () with
      | 'R' -> incr i; let c = byte () in go (Raw c :: acc)
      | 'X' -> incr i; let c = byte () in go (Esc c :: acc)
      | 'U' -> incr i; let a = byte () in let b = byte () in let c = byte () in let d = byte () in
        go (Uni (a, b, c, d) :: acc)
      | ';' -> incr i; List.rev acc
      | _ -> raise Bad_doc in
    go [] in
  let rec value () =
    match next () with
    | 'F' -> JLit LFalse
    | 'Z' -> JLit LNull
    | 'T' -> JLit LTrue
    | 'N' -> JNum (hexrun ())
    | 'S' -> JStr (items ())
    | 'A' ->
      let w = hexrun () in
      let rec elems acc =
        match next () with
        | ']' -> List.rev acc
        | 'E' -> let wb = hexrun () in let v = value () in let wa = hexrun () in
          elems (Elem (wb, v, wa) :: acc)
        | _ -> raise Bad_doc in
      JArr (w, elems [])
    | 'O' ->
      let w = hexrun () in
      let rec mems acc =
        match next () with
        | '}' -> List.rev acc
        | 'M' ->
          let wb = hexrun () in let name = items () in let wn = hexrun () in let wv = hexrun () in
          let v = value () in let wa = hexrun () in
          mems (Member (wb, name, wn, wv, v, wa) :: acc)
        | _ -> raise Bad_doc in
      JObj (w, mems [])
    | _ -> raise Bad_doc in
  let lead = hexrun () in
  let v = value () in
  let trail = hexrun () in
  if !i <> String.length s then raise Bad_doc;
  (lead, v, trail)

let run_find old b k =
  show_res (fun o -> string_of_int (int_of_nat o))
    ((if old then json_find_old else json_find_c) (bytes_of_hex b) (bytes_of_hex k))

let () = iter_lines (fun line ->
  match split_ws line with
  | ["find"; b; k] -> print_endline (run_find false b k)
  | ["old"; "find"; b; k] -> print_endline (run_find true b k)
  | ["spec"; "find"; b; k; d] ->
    (match (try Some (parse_doc d) with Bad_doc -> None) with
     | None -> print_endline "bad-doc"
     | Some (lead, v, trail) ->
       if lead @ render v @ trail <> bytes_of_hex b then print_endline "spec-render-mismatch"
       else if not (is_wsl lead && wf v) then print_endline "spec-not-wf"
       else print_endline ("ok " ^ string_of_int (int_of_nat (find_spec lead v trail (bytes_of_hex k)))))
  | ["specinfo"; d] ->
    (match (try Some (parse_doc d) with Bad_doc -> None) with
     | None -> print_endline "bad-doc"
     | Some (lead, v, trail) ->
       Printf.printf "wf=%d rfc=%d len=%d\n" (Bool.to_int (is_wsl lead && wf v)) (Bool.to_int (is_wsl lead && rfc_valid v))
         (List.length (lead @ render v @ trail)))
  | _ -> print_endline "bad-case")
