(* case lines (binary data as hex, "-" = empty); a "spec" prefix evaluates the independent spec.
     b64enc <bytes>                    -> ok <out object incl NUL>
     b64dec <chars>                    -> ok none | ok <decoded bytes>
     b64decfull <chars>                -> ok none | ok <outlen> <whole out object>
     endenc <fn> <off> <buflen> <xhex> -> ok <buffer after store> <value loaded back>
     enddec <fn> <off> <buffer>        -> ok <value hex>
     resolve <string>                  -> fail | host <h> <p> | addrs <fam> <type> <name>
     pp <fam> <type> <name>            -> null | str <string>
     ser <fam> <type> <name>           -> ok <bytes>
     deser <bytes>                     -> none | sa <fam> <type> <name>
     deserpp <bytes>                   -> none | null | str <string>         (prettyprint(deserialize bytes))
     cmp <f1> <t1> <n1> <f2> <t2> <n2> -> ok <0|1>
     dup <fam> <type> <name>           -> sa <fam> <type> <name>
     ensure <string>                   -> str <string>
     rtpp <fam> <type> <name>          -> rt <printed> same|diff|fail|null   (resolve(prettyprint sa) vs sa)
     rtser <fam> <type> <name>         -> rt same|diff|none                  (deserialize(serialize sa) vs sa)
     multi <op>,<op>,...               -> one snapshot "[k=<sa>/<printed>/<dup>/<serialised> ... cmp=<digits>]" per op;
                                          op "+<string>" resolves into the next slot (held if exactly one address),
                                          op "-<k>" releases slot k.  The addresses are values: each slot's results
                                          are those of the single-address operations, whatever else is held.
     aws <file bytes>                  -> err | ok <id> <secret>
     rp <file bytes>                   -> err | ok <passphrase>
   model faults print "fault" / "assert" / "fuel". *)
let show_res f = function
  | Ok a -> f a
  | Fault -> "fault" | AssertFail -> "assert" | OutOfFuel -> "fuel"
let nat_len l = nat_of_int (List.length l)
let ios = int_of_string
let sa_of f t nm = { sa_family = n_of_int (ios f); sa_socktype = n_of_int (ios t); sa_name = bytes_of_hex nm }
let show_sa sa = Printf.sprintf "%d %d %s" (int_of_n sa.sa_family) (int_of_n sa.sa_socktype) (hex_of_bytes sa.sa_name)
let fill = n_of_int 170
let pattern n = List.init n (fun i -> n_of_int ((i * 7 + 3) land 255))

let enc_fn = function
  | "be16" -> be16enc_m, be16dec_m, 2, true | "be32" -> be32enc_m, be32dec_m, 4, true
  | "be64" -> be64enc_m, be64dec_m, 8, true | "le16" -> le16enc_m, le16dec_m, 2, false
  | "le32" -> le32enc_m, le32dec_m, 4, false | "le64" -> le64enc_m, le64dec_m, 8, false
  | _ -> failwith "fn"

let show_resolved = function
  | RFail -> "fail"
  | RHost (h, p) -> "host " ^ hex_of_bytes h ^ " " ^ hex_of_bytes p
  | RAddrs l -> "addrs " ^ String.concat " ; " (List.map show_sa l)

let same_sa a b = match sock_addr_cmp_m a b with Ok N0 -> Ok true | Ok _ -> Ok false
  | Fault -> Fault | AssertFail -> AssertFail | OutOfFuel -> OutOfFuel

let () = iter_lines (fun line ->
  let out = match split_ws line with
  | ["b64enc"; b] ->
    let inp = bytes_of_hex b in
    let len = nat_len inp in
    show_res (fun o -> "ok " ^ hex_of_bytes o)
      (b64encode_m b64chars inp (alloc (S (b64len len)) fill) len)
  | ["spec"; "b64enc"; b] -> "ok " ^ hex_of_bytes (b64_spec (bytes_of_hex b) @ [N0])
  | ["b64dec"; s] ->
    let inp = bytes_of_hex s in
    let len = nat_len inp in
    show_res (function None -> "ok none"
                     | Some (o, n) -> "ok " ^ hex_of_bytes (firstn (nat_of_int (int_of_n n)) o))
      (b64decode_m b64chars inp len (alloc (b64declen len) fill))
  | ["spec"; "b64dec"; s] ->
    (match b64decode_spec (bytes_of_hex s) with None -> "ok none" | Some o -> "ok " ^ hex_of_bytes o)
  | ["b64decfull"; s] ->
    let inp = bytes_of_hex s in
    let len = nat_len inp in
    show_res (function None -> "ok none"
                     | Some (o, n) -> Printf.sprintf "ok %s %s" (hex_of_n n) (hex_of_bytes o))
      (b64decode_m b64chars inp len (alloc (b64declen len) fill))
  | ["endenc"; fn; off; buflen; x] ->
    let (enc, dec, _, _) = enc_fn fn in
    let off = nat_of_int (ios off) in
    show_res (fun s -> s)
      (match enc (pattern (ios buflen)) off (n_of_hex x) with
       | Ok b -> (match dec b off with
           | Ok v -> Ok (Printf.sprintf "ok %s %s" (hex_of_bytes b) (hex_of_n v))
           | Fault -> Fault | AssertFail -> AssertFail | OutOfFuel -> OutOfFuel)
       | Fault -> Fault | AssertFail -> AssertFail | OutOfFuel -> OutOfFuel)
  | ["spec"; "endenc"; fn; off; buflen; x] ->
    let (_, _, w, be) = enc_fn fn in
    let x = n_of_hex x in
    let bytes = (if be then be_bytes else le_bytes) (nat_of_int w) x in
    Printf.sprintf "ok %s %s" (hex_of_bytes (stored (pattern (ios buflen)) (nat_of_int (ios off)) bytes)) (hex_of_n x)
  | ["enddec"; fn; off; buf] ->
    let (_, dec, _, _) = enc_fn fn in
    show_res (fun v -> "ok " ^ hex_of_n v) (dec (bytes_of_hex buf) (nat_of_int (ios off)))
  | ["spec"; "enddec"; fn; off; buf] ->
    let (_, _, w, be) = enc_fn fn in
    "ok " ^ hex_of_n ((if be then be_val else le_val) (loaded (bytes_of_hex buf) (nat_of_int (ios off)) (nat_of_int w)))
  | ["resolve"; s] -> show_res show_resolved (sock_resolve_x (bytes_of_hex s @ [N0]))
  | ["pp"; f; t; nm] ->
    show_res (function None -> "null" | Some s -> "str " ^ hex_of_bytes s) (sock_addr_prettyprint_x (sa_of f t nm))
  | ["ser"; f; t; nm] -> show_res (fun b -> "ok " ^ hex_of_bytes b) (sock_addr_serialize_m (sa_of f t nm))
  | ["deser"; b] ->
    show_res (function None -> "none" | Some sa -> "sa " ^ show_sa sa) (sock_addr_deserialize_m (bytes_of_hex b))
  | ["deserpp"; b] ->
    (match sock_addr_deserialize_m (bytes_of_hex b) with
     | Ok None -> "none"
     | Ok (Some sa) ->
       show_res (function None -> "null" | Some s -> "str " ^ hex_of_bytes s) (sock_addr_prettyprint_x sa)
     | r -> show_res (fun _ -> "") r)
  | ["cmp"; f1; t1; n1; f2; t2; n2] ->
    show_res (fun r -> "ok " ^ string_of_int (int_of_n r)) (sock_addr_cmp_m (sa_of f1 t1 n1) (sa_of f2 t2 n2))
  | ["dup"; f; t; nm] -> show_res (fun sa -> "sa " ^ show_sa sa) (sock_addr_dup_m (sa_of f t nm))
  | ["ensure"; s] -> show_res (fun r -> "str " ^ hex_of_bytes r) (sock_addr_ensure_port_m (bytes_of_hex s @ [N0]))
  | ["rtpp"; f; t; nm] ->
    let sa = sa_of f t nm in
    (match sock_addr_prettyprint_x sa with
     | Ok None -> "rt - null"
     | Ok (Some s) ->
       "rt " ^ hex_of_bytes s ^ " " ^
       (match sock_resolve_x (s @ [N0]) with
        | Ok (RAddrs [sa2]) -> show_res (fun b -> if b then "same" else "diff") (same_sa sa sa2)
        | Ok _ -> "fail"
        | r -> show_res (fun _ -> "") r)
     | r -> show_res (fun _ -> "") r)
  | ["rtser"; f; t; nm] ->
    let sa = sa_of f t nm in
    (match sock_addr_serialize_m sa with
     | Ok b -> (match sock_addr_deserialize_m b with
         | Ok None -> "rt none"
         | Ok (Some sa2) -> "rt " ^ show_res (fun b -> if b then "same" else "diff") (same_sa sa sa2)
         | r -> show_res (fun _ -> "") r)
     | r -> show_res (fun _ -> "") r)
  | ["multi"; ops] ->
    let entry sa =
      show_sa sa ^ "/" ^
      show_res (function None -> "null" | Some s -> hex_of_bytes s) (sock_addr_prettyprint_x sa) ^ "/" ^
      show_res show_sa (sock_addr_dup_m sa) ^ "/" ^
      show_res hex_of_bytes (sock_addr_serialize_m sa) in
    let buf = Buffer.create 256 in
    let held = ref [] in            (* (slot, sa option), newest first *)
    let nheld = ref 0 in
    List.iter (fun op ->
      if op <> "" then begin
        let arg = String.sub op 1 (String.length op - 1) in
        (match op.[0] with
         | '+' when !nheld < 16 ->
           let r = (match sock_resolve_x (bytes_of_hex arg @ [N0]) with
               | Ok (RAddrs [sa]) -> Some (sa, entry sa) | _ -> None) in
           held := (!nheld, r) :: !held; incr nheld
         | '-' ->
           let k = (try ios arg with _ -> -1) in
           held := List.map (fun (i, r) -> if i = k then (i, None) else (i, r)) !held
         | _ -> ());
        let alive = List.filter_map (fun (i, r) -> match r with Some (sa, e) -> Some (i, sa, e) | None -> None)
            (List.rev !held) in
        Buffer.add_string buf "[";
        List.iter (fun (i, _, e) -> Buffer.add_string buf (Printf.sprintf "%d=%s " i e)) alive;
        Buffer.add_string buf "cmp=";
        List.iter (fun (i, a, _) -> List.iter (fun (j, b, _) ->
            if i < j then Buffer.add_string buf
                (show_res (fun r -> if int_of_n r <> 0 then "1" else "0") (sock_addr_cmp_m a b))) alive) alive;
        Buffer.add_string buf "]"
      end) (String.split_on_char ',' ops);
    Buffer.contents buf
  | ["aws"; f] ->
    show_res (function AwsErr -> "err" | AwsOk (a, b) -> "ok " ^ hex_of_bytes a ^ " " ^ hex_of_bytes b)
      (aws_readkeys_m aws_stack_buffer (bytes_of_hex f))
  | ["rp"; f] ->
    show_res (function None -> "err" | Some p -> "ok " ^ hex_of_bytes p)
      (readpass_file_m rp_stack_buffer (bytes_of_hex f))
  | _ -> "bad-case" in
  print_endline out)
