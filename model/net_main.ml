(* Model runner for the net area (network_read/write/accept/connect, netbuf reader/writer).
   Case lines (the same lines go to harness/drv_net.c; an optional first token "af=<k>[p]" is
   the allocation-failure mode of the C driver and is not accepted here):

     sc <op> <op> ...        scenario for the composed world (Net/NetWorld.v run_script)
        r:<id>:<fd>:<buflen>:<min> [{ ops }]   network_read; the block runs inside its callback
        w:<id>:<fd>:<len>:<min>   [{ ops }]   network_write of pattern(100+id) bytes
        a:<id>:<fd>               [{ ops }]   network_accept
        x:<id>                                 cancel request id
        k:<fd>:<r|w>:<ev>,<ev>..               feed the kernel queue (top level only):
              d<n> n more bytes of the peer stream pattern(fd)   z orderly shutdown
              n<k> room for k bytes   c connection waiting   e<ERRNO> -1 with that errno
        run                                    run the event loop until nothing is ready
        nri:<fd> nrw:<k> [{ ops }] nrc:<j> nrx nrp          buffered reader
        nwi:<fd> nww:<n> nwr:<n> nwc:<j>                     buffered writer (top level only)
        nwo:<pos>                                            the writer's next bytes are pattern(200, pos..)
        (mwi mww mwr mwc mwo: a SECOND writer, C driver only; areas/net.py projects such a log on
         each writer and asks this runner about each writer alone)
     conn <0|1> <outcomes|-> <ops|->            network_connect[_timeo] over an address list
        outcomes: S socket fails  N fcntl fails  F connect ECONNREFUSED  H connect EHOSTUNREACH
                  A pending, later SO_ERROR ECONNREFUSED   B pending (EINTR), later ETIMEDOUT
                  T pending, never answers   K pending ok   I connect returned 0, ok   J EINTR, ok
        ops: s deliver the natural event   r the same with the timer expired too   x cancel
     scx <op> ...            the same scenario with the netbuf reader / writer of the C side attached
                             to the context transport (netbuf_read_init2(-1, ctx): the branch used for
                             TLS) instead of a descriptor.  The model is transport-agnostic at this
                             level (the transport contract is C06's): scx is read as sc, and
                             areas/net.py compares the C logs of BOTH modes with this one log.
   One result line per case: the log of observations, tokens separated by blanks. *)

let errno_names = [| "EAGAIN"; "EWOULDBLOCK"; "EINTR"; "ECONNABORTED"; "ECONNRESET"; "EPIPE";
  "ECONNREFUSED"; "ETIMEDOUT"; "EMFILE"; "ENOMEM"; "EBADF"; "EIO"; "ENFILE"; "EPROTO"; "ENOBUFS";
  "EHOSTUNREACH"; "ENETUNREACH"; "EINPROGRESS"; "EPERM"; "ENOTCONN" |]
let errno_code name =
  let r = ref 0 in
  Array.iteri (fun i n -> if n = name then r := i + 1) errno_names;
  if !r = 0 then failwith ("errno " ^ name) else n_of_int !r
let errno_name (e : n) =
  let i = int_of_n e in if i >= 1 && i <= Array.length errno_names then errno_names.(i - 1) else "E?"

let pat salt p = (p * 131 + (p lsr 8) * 17 + salt * 29 + 7) land 255
let pat_bytes salt pos len = List.init len (fun i -> byte_table.(pat salt (pos + i)))

let fnv (l : n list) : string =
  let h = ref 0xcbf29ce484222325L in
  List.iter (fun b -> h := Int64.mul (Int64.logxor !h (Int64.of_int (int_of_n b))) 0x100000001b3L) l;
  Printf.sprintf "%016Lx" !h
let show (l : n list) : string =
  if List.length l <= 16 then hex_of_bytes l else "#" ^ fnv l
let lshow l = Printf.sprintf "%d:%s" (List.length l) (show l)

exception Bad

let ios s = try int_of_string s with _ -> raise Bad
let nat s = let i = ios s in if i < 0 || i > 2000000 then raise Bad else nat_of_int i

(* per-case parse state: stream positions *)
let peer_pos : (int, int) Hashtbl.t = Hashtbl.create 8
let app_pos = ref 0

let parse_ev fd s =
  if s = "" then raise Bad;
  let rest = String.sub s 1 (String.length s - 1) in
  match s.[0] with
  | 'd' -> let n = ios rest in
    if n <= 0 || n > 2000000 then raise Bad;
    let p = try Hashtbl.find peer_pos fd with Not_found -> 0 in
    Hashtbl.replace peer_pos fd (p + n); KData (pat_bytes fd p n)
  | 'z' -> KData []
  | 'n' -> KRoom (nat rest)
  | 'c' -> KConn
  | 'e' -> KErr (errno_code rest)
  | _ -> raise Bad

(* tokens -> ops; top = false inside a continuation block *)
let rec parse_ops top toks : op list * string list =
  match toks with
  | [] -> if top then ([], []) else raise Bad
  | "}" :: rest -> if top then raise Bad else ([], rest)
  | t :: rest when top && String.length t > 4 && String.sub t 0 4 = "nwo:" ->
    (* nwo:<pos>: the application's next bytes are pattern(200, pos ..) (no operation of its own) *)
    let p = ios (String.sub t 4 (String.length t - 4)) in
    if p < 0 || p > 2000000 then raise Bad;
    app_pos := p; parse_ops top rest
  | t :: rest ->
    let block rest = match rest with
      | "{" :: r -> parse_ops false r
      | _ -> ([], rest) in
    let (o, rest') =
      match String.split_on_char ':' t with
      | ["r"; id; fd; bl; mn] -> let (c, r) = block rest in (OpRead (nat id, nat fd, nat bl, nat mn, c), r)
      | ["w"; id; fd; ln; mn] -> let (c, r) = block rest in
        (OpWrite (nat id, nat fd, pat_bytes (100 + ios id) 0 (ios ln), nat mn, c), r)
      | ["a"; id; fd] -> let (c, r) = block rest in (OpAccept (nat id, nat fd, c), r)
      | ["x"; id] -> (OpCancel (nat id), rest)
      | ["k"; fd; d; evs] when top && (d = "r" || d = "w") ->
        let f = ios fd in
        (OpFeed (nat fd, d = "w", List.map (parse_ev f) (String.split_on_char ',' evs)), rest)
      | ["run"] -> (OpRun, rest)
      | ["nri"; fd] -> (OpNrInit (nat fd), rest)
      | ["nrw"; k] -> let (c, r) = block rest in (OpNrWait (nat k, c), r)
      | ["nrc"; j] -> (OpNrConsume (nat j), rest)
      | ["nrx"] -> (OpNrCancel, rest)
      | ["nrp"] -> (OpNrPeek, rest)
      | ["nwi"; fd] when top -> (OpNwInit (nat fd), rest)
      | ["nww"; n] when top -> let k = ios n in let p = !app_pos in app_pos := p + k;
        (OpNwWrite (pat_bytes 200 p k), rest)
      | ["nwr"; n] when top -> (OpNwReserve (nat n), rest)
      | ["nwc"; j] when top -> let k = ios j in let p = !app_pos in app_pos := p + k;
        (OpNwConsume (pat_bytes 200 p k), rest)
      | _ -> raise Bad in
    let (os, rest'') = parse_ops top rest' in
    (o :: os, rest'')

let show_ret = function RetN k -> string_of_int (int_of_nat k) | RetErr e -> errno_name e
let show_who = function WhoUser id -> "u" ^ string_of_int (int_of_nat id) | WhoNetbuf -> "nb"
let i = int_of_nat
let okn b = if b then "ok" else "null"

let show_log = function
  | LgStart (k, id, ok) -> Printf.sprintf "%s%d=%s" (match i k with 0 -> "r" | 1 -> "w" | _ -> "a") (i id) (okn ok)
  | LgRecv (fd, w, blk, off, len, r) -> Printf.sprintf "R%d:%s:%d:%d:%d=%s" (i fd) (show_who w) (i blk) (i off) (i len) (show_ret r)
  | LgSend (fd, w, blk, off, len, r) -> Printf.sprintf "S%d:%s:%d:%d:%d=%s" (i fd) (show_who w) (i blk) (i off) (i len) (show_ret r)
  | LgAcc (fd, id, r) -> Printf.sprintf "A%d:%d=%s" (i fd) (i id) (match r with RetN k -> "s" ^ string_of_int (i k) | RetErr e -> errno_name e)
  | LgCb (id, v, None) -> Printf.sprintf "cb%d=%d" (i id) (int_of_z v)
  | LgCb (id, v, Some b) -> Printf.sprintf "cb%d=%d:%s" (i id) (int_of_z v) (show b)
  | LgCancel id -> Printf.sprintf "x%d" (i id)
  | LgSkip -> "skip"
  | LgNrInit ok -> "nri=" ^ okn ok
  | LgWait (k, rc) -> Printf.sprintf "nrw%d=%d" (i k) (int_of_z rc)
  | LgNrCb (st, pk) -> Printf.sprintf "nrcb=%d:%s" (int_of_z st) (lshow pk)
  | LgConsume j -> Printf.sprintf "nrc%d" (i j)
  | LgNrCancel -> "nrx"
  | LgPeek pk -> "peek=" ^ lshow pk
  | LgNwInit ok -> "nwi=" ^ okn ok
  | LgNwWrite (k, rc) -> Printf.sprintf "nww%d=%d" (i k) (int_of_z rc)
  | LgNwReserve (k, ok) -> Printf.sprintf "nwr%d=%s" (i k) (okn ok)
  | LgNwConsume (j, rc) -> Printf.sprintf "nwc%d=%d" (i j) (int_of_z rc)
  | LgFail -> "fail"
  | LgPending id -> Printf.sprintf "pend%d" (i id)
  | LgWire (fd, b) -> Printf.sprintf "wire%d=%s" (i fd) (lshow b)
  | LgLeft (fd, k) -> Printf.sprintf "left%d=%d" (i fd) (i k)
  | LgNfail k -> Printf.sprintf "nfail=%d" (i k)
  | LgAssert -> "ASSERT" | LgFault -> "FAULT" | LgFuel -> "FUEL"

let nn x = nat_of_int (int_of_n x)

let run_sc toks =
  Hashtbl.reset peer_pos; app_pos := 0;
  let (ops, _) = parse_ops true toks in
  let log = run_script read_retry write_retry accept_retry (nn wBUFLEN) (nn rBUF_INIT) (nn rBUF_GROW)
      byte_table.(0xee) (nat_of_int 400000) ops in
  String.concat " " (List.map show_log log @ ["end"])

(* ---- connect *)
let outcome_of = function
  | 'S' -> OSockFail | 'N' -> OSetupFail
  | 'F' -> OConnFail eCONNREFUSED | 'H' -> OConnFail eHOSTUNREACH
  | 'A' -> OPending (eINPROGRESS, LErr eCONNREFUSED) | 'B' -> OPending (eINTR, LErr eTIMEDOUT)
  | 'T' -> OPending (eINPROGRESS, LNever)
  | 'K' -> OPending (eINPROGRESS, LOk) | 'I' -> OPending (N0, LOk) | 'J' -> OPending (eINTR, LOk)
  | _ -> raise Bad
let cop_of = function 's' -> CopStep | 'r' -> CopRace | 'x' -> CopCancel | _ -> raise Bad
let chars s = if s = "-" then [] else List.init (String.length s) (String.get s)
let show_e e = if e = N0 then "0" else errno_name e
let show_cobs = function
  | CSockFail a -> [Printf.sprintf "sockfail:a%d" (i a)]
  | CSocket (a, s) -> [Printf.sprintf "sock%d:a%d" (i s) (i a)]
  | CFcntlFail s -> [Printf.sprintf "fcntlfail%d" (i s)]
  | CConnect (s, a, r) -> [Printf.sprintf "conn%d:a%d=%s" (i s) (i a) (show_e r)]
  | CClose s -> [Printf.sprintf "close%d" (i s)]
  | CGetErr (s, e) -> [Printf.sprintf "gso%d=%s" (i s) (show_e e)]
  | CGetFail s -> [Printf.sprintf "gso%d=fail" (i s)]
  | CCallback None -> ["cb=-1"]
  | CCallback (Some s) -> [Printf.sprintf "cb=%d" (i s)]
  | _ -> []
let show_res_c f = function
  | Ok a -> f a | Fault -> ["FAULT"] | AssertFail -> ["ASSERT"] | OutOfFuel -> ["FUEL"]
let run_conn timeo outs ops =
  let sas = List.map outcome_of (chars outs) and cops = List.map cop_of (chars ops) in
  let (r0, obs0) = network_connect (timeo = "1") sas O true all_ok in
  let start = match r0 with Running _ -> "start=ok" | Finished _ -> "start=null" in
  let fin r = match r with Running _ -> "fin=running" | Finished _ -> "fin=done" in
  let opened l = List.fold_left (fun k o -> match o with CSocket _ -> k + 1 | CClose _ -> k - 1 | _ -> k) 0 l in
  let toks =
    match conn_script r0 cops with
    | Ok (obs1, r1) ->
      (* trailer: cancel whatever is still pending *)
      let tail = match conn_script r1 [CopCancel] with Ok (o, _) -> Ok o | Fault -> Fault | AssertFail -> AssertFail | OutOfFuel -> OutOfFuel in
      List.concat_map show_cobs obs0 @ [start] @ List.concat_map show_cobs obs1 @ [fin r1] @
      show_res_c (fun o -> List.concat_map show_cobs o @ [Printf.sprintf "open=%d" (opened (obs0 @ obs1 @ o)); "end"]) tail
    | r -> List.concat_map show_cobs obs0 @ [start] @ show_res_c (fun _ -> []) r in
  String.concat " " toks

let () = iter_lines (fun line ->
  let out =
    try
      match split_ws line with
      | "sc" :: toks | "scx" :: toks -> run_sc toks
      | ["conn"; timeo; outs; ops] when timeo = "0" || timeo = "1" -> run_conn timeo outs ops
      | _ -> "bad-case"
    with Bad | Failure _ | Invalid_argument _ -> "bad-case" in
  print_endline out)
