(* case line:   P | P | ...      (parses run one after another, optreset = 1 before each)
     P = api <miss|-> <stop|-> <nslots> <slot>... <argc> <arg>...
     slot = - | <hexname>:<0|1>          arg = hex ("-" = empty string)
     P = lay <stop|-> <nlines> <line>... <argc> <arg>...      a compiled GETOPT_SWITCH statement:
     line = - | M | <hexname>:<0|1>      its source lines from the GETOPT_SWITCH line (offset 0) to the
                                         line before GETOPT_DEFAULT; runs the indexing pass of the macros
   result line: R | R | ...   with R = <ev>,<ev>,...;<optind|stopped>  or  fault/assert/fuel
     ev = O:<name> | A:<name>:<arg> | M:<name> | D:<name>          (no events: "none"; a string of more than
                                         1024 bytes is shown as ~<length>.<FNV-1a-32>)
   "spec <case>" evaluates the reference parser (each parse fresh), "coded <case>" the
   reference parser with searchopt's first-prefix resolution. *)
(* strings of more than 1024 bytes are shown as ~<length>.<FNV-1a-32 of the bytes> (as harness/drv_getopt.c does) *)
let hex_of_bytes l =
  let n = List.length l in
  if n <= 1024 then hex_of_bytes l
  else Printf.sprintf "~%d.%08x" n
      (List.fold_left (fun h b -> ((h lxor (int_of_n b land 255)) * 16777619) land 0xffffffff) 2166136261 l)
let show_ev = function
  | Opt os -> "O:" ^ hex_of_bytes os
  | OptArg (os, a) -> "A:" ^ hex_of_bytes os ^ ":" ^ hex_of_bytes a
  | Missing os -> "M:" ^ hex_of_bytes os
  | Default os -> "D:" ^ hex_of_bytes os
let show_evs evs = if evs = [] then "none" else String.concat "," (List.map show_ev evs)
let show_parse evs k = show_evs evs ^ ";" ^ (match k with Some k -> string_of_int (int_of_nat k) | None -> "stopped")

type parse = { miss : nat option; stop : int option; tbl : ((n list * bool) option) list; argv : n list list;
               lay : lline list option }

let parse_slot s =
  if s = "-" then None else
    match String.split_on_char ':' s with
    | [h; a] -> Some (bytes_of_hex h, a = "1")
    | _ -> failwith "slot"
let parse_line s =
  if s = "-" then LNone else if s = "M" then LMiss else
    match String.split_on_char ':' s with
    | [h; a] -> LOpt (bytes_of_hex h, a = "1")
    | _ -> failwith "line"
let rec take n l = if n <= 0 then ([], l) else match l with [] -> failwith "short" | x :: r -> let (a, b) = take (n - 1) r in (x :: a, b)
let parse_one toks =
  match toks with
  | "api" :: miss :: stop :: ns :: rest ->
    let (slots, rest) = take (int_of_string ns) rest in
    (match rest with
     | ac :: rest ->
       let (args, rest) = take (int_of_string ac) rest in
       if rest <> [] then failwith "trailing";
       { miss = (if miss = "-" then None else Some (nat_of_int (int_of_string miss)));
         stop = (if stop = "-" then None else Some (int_of_string stop));
         tbl = List.map parse_slot slots; argv = List.map bytes_of_hex args; lay = None }
     | [] -> failwith "argc")
  | "lay" :: stop :: nl :: rest ->
    let (lines, rest) = take (int_of_string nl) rest in
    (match rest with
     | ac :: rest ->
       let (args, rest) = take (int_of_string ac) rest in
       if rest <> [] then failwith "trailing";
       let lay = List.map parse_line lines in
       { miss = miss_of lay; stop = (if stop = "-" then None else Some (int_of_string stop));
         tbl = table_of lay; argv = List.map bytes_of_hex args; lay = Some lay }
     | [] -> failwith "argc")
  | _ -> failwith "parse"
let rec split_bar toks =
  match toks with
  | [] -> [[]]
  | "|" :: r -> [] :: split_bar r
  | x :: r -> (match split_bar r with h :: t -> (x :: h) :: t | [] -> [[x]])
let rec firstn n l = if n <= 0 then [] else match l with [] -> [] | x :: r -> x :: firstn (n - 1) r

let run_model_seq ps =
  let st = ref init_state in
  List.map (fun p ->
      let s0 = set_optreset true !st in
      let fail name = st := init_state; name in
      match p.stop with
      | None ->
        (match (match p.lay with Some l -> run_switch_from s0 l p.argv | None -> run_from s0 p.tbl p.miss p.argv) with
         | Ok ((evs, k), s) -> st := s; show_parse evs (Some k)
         | Fault -> fail "fault" | AssertFail -> fail "assert" | OutOfFuel -> fail "fuel")
      | Some n ->
        (match (match p.lay with Some l -> run_switch_from_n (nat_of_int n) s0 l p.argv
                             | None -> run_from_n (nat_of_int n) s0 p.tbl p.miss p.argv) with
         | Ok ((evs, k), s) -> st := s; show_parse evs k
         | Fault -> fail "fault" | AssertFail -> fail "assert" | OutOfFuel -> fail "fuel")) ps

let run_spec_seq f ps =
  List.map (fun p ->
      let (evs, k) = f p.tbl (is_some p.miss) p.argv in
      match p.stop with
      | None -> show_parse evs (Some k)
      | Some n -> if List.length evs < n then show_parse evs (Some k) else show_parse (firstn n evs) None) ps

let () = iter_lines (fun line ->
  try
    match split_ws line with
    | "spec" :: toks -> print_endline (String.concat " | " (run_spec_seq spec (List.map parse_one (split_bar toks))))
    | "coded" :: toks -> print_endline (String.concat " | " (run_spec_seq spec_coded (List.map parse_one (split_bar toks))))
    | toks -> print_endline (String.concat " | " (run_model_seq (List.map parse_one (split_bar toks))))
  with Failure m -> print_endline ("bad-case " ^ m))
