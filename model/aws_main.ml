(* case lines (all strings hex; body "NULL" = absent, "-" = empty; t, expiry decimal):
     s3h key_id secret region method bucket path body t   -> ok content datetime auth | fail
     s3q key_id secret region method bucket path expiry t -> ok query | fail
     svc key_id secret region svc body t                  -> ok content datetime auth | fail
     ddb key_id secret region op body t                   -> ok content datetime auth | fail
   spec lines take the returned datetime (hex) in place of t and answer with the documented values:
     spec s3h ... datetime -> ok content auth ;  spec s3q ... datetime -> ok query *)
let body_of s = if s = "NULL" then None else Some (bytes_of_hex s)
let z_of_dec s = z_of_int (int_of_string s)
let h = hex_of_bytes
let show3 = function
  | Some ((c, dt), a) -> Printf.sprintf "ok %s %s %s" (h c) (h dt) (h a)
  | None -> "fail"
let show2 (c, a) = Printf.sprintf "ok %s %s" (h c) (h a)
let bx = bytes_of_hex
let () = iter_lines (fun line ->
  match split_ws line with
  | ["s3h"; k; s; r; m; bk; p; body; t] ->
    print_endline (show3 (m_s3_headers (bx k) (bx s) (bx r) (bx m) (bx bk) (bx p) (body_of body) (z_of_dec t)))
  | ["s3q"; k; s; r; m; bk; p; e; t] ->
    print_endline (match m_s3_querystr (bx k) (bx s) (bx r) (bx m) (bx bk) (bx p) (z_of_dec e) (z_of_dec t) with
        Some q -> "ok " ^ h q | None -> "fail")
  | ["svc"; k; s; r; sv; body; t] ->
    print_endline (show3 (m_svc_headers (bx k) (bx s) (bx r) (bx sv) (body_of body) (z_of_dec t)))
  | ["ddb"; k; s; r; op; body; t] ->
    print_endline (show3 (m_dynamodb_headers (bx k) (bx s) (bx r) (bx op) (body_of body) (z_of_dec t)))
  | ["spec"; "s3h"; k; s; r; m; bk; p; body; dt] ->
    print_endline (show2 (s_s3_headers (bx k) (bx s) (bx r) (bx m) (bx bk) (bx p) (body_of body) (bx dt)))
  | ["spec"; "s3q"; k; s; r; m; bk; p; e; dt] ->
    print_endline ("ok " ^ h (s_s3_querystr (bx k) (bx s) (bx r) (bx m) (bx bk) (bx p) (z_of_dec e) (bx dt)))
  | ["spec"; "svc"; k; s; r; sv; body; dt] ->
    print_endline (show2 (s_svc_headers (bx k) (bx s) (bx r) (bx sv) (body_of body) (bx dt)))
  | ["spec"; "ddb"; k; s; r; op; body; dt] ->
    print_endline (show2 (s_dynamodb_headers (bx k) (bx s) (bx r) (bx op) (body_of body) (bx dt)))
  | _ -> print_endline "bad-case")
