(* Model runner for datastruct/{elasticarray,elasticqueue,seqptrmap}.c and mpool.h.

   case line:   <kind> <mode> <op> <op> ...          kind = ea | eq | spm ; mp has "<size> <olen>" first
     mode       n        every allocation succeeds (unless larger than CAP)
                o<k>     only the k-th library allocation of the case is refused (k >= 1, hex)
                f<k>     every allocation from the k-th on is refused
     all numbers are hex; byte strings are hex with "-" for the empty string
   ea ops:  init:nrec:reclen:fill  res:nrec:reclen:fill  app:nrec:reclen:data  shr:nrec:reclen
            trunc  get:pos:reclen  size:reclen  exp:reclen  dup:reclen  free
   eq ops:  init:reclen  add:rec  del  len  get:pos  set:pos:rec  free
   spm ops: init  add:ptr  get:i  min  del:i  free          (i signed: -hex)
   mp ops:  m  f:k  fn  c:n      (c:n = n times: malloc, and free it again if it is not NULL)

   result line: "<obs> | <cap> | <allocs>", each a ';'-separated list with one entry per op.
     obs     the operation's result followed by '@' and everything a client can observe afterwards
             (last entry: live=<number of blocks still allocated after the client released everything>)
     cap     ea only: the size of the storage block after the op
     allocs  the allocation events of the op:  m<size>+/-  r<old>><new>+/-  f<size>
   "spec <case> @ <flags>" evaluates the abstract spec instead; flags = one 0/1 per op telling
   whether the allocator refused a request during that op.  For mp the text after '@' is the
   implementation's obs section and the answer is the verdict of the spec predicate. *)

let cap_bits = 24
let rec pos_bits = function XH -> 1 | XO p | XI p -> 1 + pos_bits p
let too_big = function N0 -> false | Npos p -> pos_bits p > cap_bits + 1 || int_of_pos p > (1 lsl cap_bits)

type mode = MNone | MOnly of int | MFrom of int
let parse_mode s =
  if s = "n" then MNone
  else if s.[0] = 'o' then MOnly (int_of_string ("0x" ^ String.sub s 1 (String.length s - 1)))
  else if s.[0] = 'f' then MFrom (int_of_string ("0x" ^ String.sub s 1 (String.length s - 1)))
  else failwith "mode"
let mode = ref MNone
let alloc_count = ref 0
let policy idx sz =
  (not (too_big sz)) && (match !mode with MNone -> true | MOnly k -> idx <> k | MFrom k -> idx < k)

(* find the allocator's answers for one operation: run it with the answers known so far and
   "refuse" for the rest (so that no storage is built for an undecided request), look at the next
   request it makes, decide it by the policy, repeat *)
let discover (run : oracle -> 'a res) (evs_of : 'a -> aev list) : 'a res =
  let rec go known =
    match run { ans = known; dflt = false } with
    | Ok r ->
      let reqs = requests (evs_of r) in
      let nk = List.length known in
      if List.length reqs > nk then
        go (known @ [policy (!alloc_count + nk + 1) (List.nth reqs nk)])
      else begin alloc_count := !alloc_count + nk; Ok r end
    | e -> e
  in go []

let show_ev = function
  | AMalloc (sz, ok) -> "m" ^ hex_of_n sz ^ (if ok then "+" else "-")
  | ARealloc (old, sz, ok) ->
    "r" ^ (match old with None -> "0" | Some o -> hex_of_n o) ^ ">" ^ hex_of_n sz ^ (if ok then "+" else "-")
  | AFree sz -> "f" ^ hex_of_n sz
let show_evs evs = if evs = [] then "-" else String.concat "," (List.map show_ev evs)
let show_rc ok = if ok then "rc0" else "rc-1:ENOMEM"
let colon s = String.split_on_char ':' s
let nh = n_of_hex
let flag_at flags i = i < String.length flags && flags.[i] = '1'

(* ghost heap of the case *)
let heap : n list option ref = ref (Some [])
let heap_events evs = match !heap with None -> () | Some h -> heap := heap_run h evs
let heap_client_free sz = heap_events [AFree sz]
let live_text () = match !heap with None -> "live=bad" | Some h -> "live=" ^ string_of_int (List.length h)

let finish obs caps allocs =
  print_endline (String.concat ";" (List.rev obs) ^ " | " ^ String.concat ";" (List.rev caps) ^ " | "
                 ^ String.concat ";" (List.rev allocs))
let err_name = function Fault -> "fault" | AssertFail -> "assert" | OutOfFuel -> "fuel" | Ok _ -> "ok"

(* ------------------------------ elastic array ------------------------------ *)
let parse_ea_op tok = match colon tok with
  | ["init"; a; b; c] -> OInit (nh a, nh b, nh c)
  | ["res"; a; b; c] -> OResize (nh a, nh b, nh c)
  | ["app"; a; b; d] -> OAppend (bytes_of_hex d, nh a, nh b)
  | ["shr"; a; b] -> OShrink (nh a, nh b)
  | ["trunc"] -> OTruncate
  | ["get"; a; b] -> OGet (nh a, nh b)
  | ["size"; a] -> OGetsize (nh a)
  | ["exp"; a] -> OExport (nh a)
  | ["dup"; a] -> OExportdup (nh a)
  | ["free"] -> OFree
  | _ -> failwith ("ea op " ^ tok)
let show_ea_out = function
  | XNoObj -> "noobj" | XRc ok -> show_rc ok | XUnit -> "unit" | XSize n -> "sz" ^ hex_of_n n
  | XRec b -> "rec" ^ hex_of_bytes b
  | XExport (true, b, n) -> "exp0:" ^ hex_of_bytes b ^ ":" ^ hex_of_n n
  | XExport (false, _, _) -> "exp-1:ENOMEM"
(* get:pos:reclen addresses record (pos mod number of records); None when there is no record *)
let reduce_get op cursize = match op with
  | OGet (pos, reclen) ->
    let n = N.div cursize reclen in
    if n = N0 then None else Some (OGet (N.modulo pos n, reclen))
  | _ -> Some op
let show_ea_state = function
  | None -> "@none"
  | Some e -> (match ea_contents e with
      | Ok c -> "@" ^ hex_of_n e.ea_size ^ ":" ^ hex_of_bytes c
      | r -> "@" ^ err_name r)

let run_ea ops =
  let st = ref None and obs = ref [] and caps = ref [] and allocs = ref [] and dead = ref false in
  List.iter (fun tok ->
    if !dead then () else
    let op = parse_ea_op tok in
    let cursize = match !st with Some e -> e.ea_size | None -> N0 in
    match (if !st = None then Some op else reduce_get op cursize) with
    | None -> obs := ("norec" ^ show_ea_state !st) :: !obs;
      caps := (match !st with None -> "-" | Some e -> hex_of_n e.ea_alloc) :: !caps; allocs := "-" :: !allocs
    | Some op ->
    match discover (fun o -> r_ea_step op !st o) (fun (_, ev) -> ev) with
    | Ok (((out, st1), _), ev) ->
      heap_events ev;
      (* the client releases what it was handed *)
      (match op, out, !st with
       | OExport _, XExport (true, b, _), _ -> if b <> [] then heap_client_free (n_of_int (List.length b))
       | OExportdup _, XExport (true, _, _), Some e -> heap_client_free e.ea_size
       | _ -> ());
      st := st1;
      obs := (show_ea_out out ^ show_ea_state st1) :: !obs;
      caps := (match st1 with None -> "-" | Some e -> hex_of_n e.ea_alloc) :: !caps;
      allocs := show_evs ev :: !allocs
    | r -> dead := true; obs := err_name r :: !obs) ops;
  obs := live_text () :: !obs;
  finish !obs !caps !allocs

let show_ideal = function
  | None -> "@none"
  | Some l -> "@" ^ hex_of_n (n_of_int (List.length l)) ^ ":" ^ hex_of_bytes l
let spec_ea ops flags =
  let st = ref None and obs = ref [] in
  List.iteri (fun i tok ->
    let cursize = match !st with Some l -> n_of_int (List.length l) | None -> N0 in
    match (if !st = None then Some (parse_ea_op tok) else reduce_get (parse_ea_op tok) cursize) with
    | None -> obs := ("norec" ^ show_ideal !st) :: !obs
    | Some op ->
    let (out, st1) = ea_spec_step op !st (flag_at flags i) in
    st := st1; obs := (show_ea_out out ^ show_ideal st1) :: !obs) ops;
  obs := "live=0" :: !obs;
  print_endline (String.concat ";" (List.rev !obs))

(* ------------------------------ elastic queue ------------------------------ *)
let parse_eq_op tok = match colon tok with
  | ["init"; a] -> QInit (nh a)
  | ["add"; r] -> QAdd (bytes_of_hex r)
  | ["del"] -> QDelete
  | ["len"] -> QGetlen
  | ["get"; a] -> QGet (nh a)
  | ["set"; a; r] -> QSet (nh a, bytes_of_hex r)
  | ["free"] -> QFree
  | _ -> failwith ("eq op " ^ tok)
let show_eq_out = function
  | YNoObj -> "noobj" | YRc ok -> show_rc ok | YUnit -> "unit" | YSize n -> "sz" ^ hex_of_n n
  | YRec None -> "null" | YRec (Some r) -> "rec" ^ hex_of_bytes r
let show_recs len recs = "@" ^ hex_of_n len ^ ":" ^ String.concat "," (List.map hex_of_bytes recs)
let show_eq_state = function
  | None -> "@none"
  | Some q -> (match r_eq_view q with Ok recs -> show_recs q.eq_len recs | r -> "@" ^ err_name r)
let run_eq ops =
  let st = ref None and obs = ref [] and caps = ref [] and allocs = ref [] and dead = ref false in
  List.iter (fun tok ->
    if !dead then () else
    let op = parse_eq_op tok in
    match discover (fun o -> r_eq_step op !st o) (fun (_, ev) -> ev) with
    | Ok (((out, st1), _), ev) ->
      heap_events ev; st := st1;
      obs := (show_eq_out out ^ show_eq_state st1) :: !obs;
      caps := "-" :: !caps; allocs := show_evs ev :: !allocs
    | r -> dead := true; obs := err_name r :: !obs) ops;
  obs := live_text () :: !obs;
  finish !obs !caps !allocs
let spec_eq ops flags =
  let st = ref None and obs = ref [] in
  List.iteri (fun i tok ->
    let (out, st1) = eq_spec_step (parse_eq_op tok) !st (flag_at flags i) in
    st := st1;
    let s = match st1 with None -> "@none" | Some (_, l) -> show_recs (n_of_int (List.length l)) l in
    obs := (show_eq_out out ^ s) :: !obs) ops;
  obs := "live=0" :: !obs;
  print_endline (String.concat ";" (List.rev !obs))

(* ------------------------------ sequential pointer map ------------------------------ *)
let parse_spm_op tok = match colon tok with
  | ["init"] -> SInit
  | ["add"; p] -> SAdd (nh p)
  | ["get"; i] -> SGet (z_of_hex i)
  | ["min"] -> SGetmin
  | ["del"; i] -> SDelete (z_of_hex i)
  | ["free"] -> SFree
  | _ -> failwith ("spm op " ^ tok)
let show_spm_out = function
  | ZNoObj -> "noobj" | ZRc ok -> show_rc ok | ZUnit -> "unit" | ZNum z -> "n" ^ hex_of_z z
  | ZPtr p -> "p" ^ hex_of_n p
let probe_range nadd = List.init (nadd + 3) (fun k -> k - 1)     (* -1 .. nadd+1 *)
let count_add out nadd = match out with ZNum z when int_of_z z >= 0 -> nadd + 1 | _ -> nadd
let run_spm ops =
  let st = ref None and obs = ref [] and caps = ref [] and allocs = ref [] and dead = ref false in
  let nadd = ref 0 in
  List.iter (fun tok ->
    if !dead then () else
    let op = parse_spm_op tok in
    match discover (fun o -> r_spm_step op !st o) (fun (_, ev) -> ev) with
    | Ok (((out, st1), _), ev) ->
      heap_events ev; st := st1;
      (match op with SAdd _ -> nadd := count_add out !nadd | _ -> ());
      let s = match st1 with
        | None -> "@none"
        | Some m ->
          "@" ^ hex_of_z (spm_getmin m) ^ ":" ^
          String.concat "," (List.map (fun i -> match spm_get m (z_of_int i) with
              | Ok p -> hex_of_n p | r -> err_name r) (probe_range !nadd)) in
      obs := (show_spm_out out ^ s) :: !obs;
      caps := "-" :: !caps; allocs := show_evs ev :: !allocs
    | r -> dead := true; obs := err_name r :: !obs) ops;
  obs := live_text () :: !obs;
  finish !obs !caps !allocs
let spec_spm ops flags =
  let st = ref None and obs = ref [] and nadd = ref 0 in
  List.iteri (fun i tok ->
    let op = parse_spm_op tok in
    let (out, st1) = spm_spec_step op !st (flag_at flags i) in
    st := st1;
    (match op with SAdd _ -> nadd := count_add out !nadd | _ -> ());
    let s = match st1 with
      | None -> "@none"
      | Some a -> "@" ^ hex_of_z (am_min a.am_live) ^ ":" ^
                  String.concat "," (List.map (fun i -> hex_of_n (am_lookup a.am_live (z_of_int i)))
                                       (probe_range !nadd)) in
    obs := (show_spm_out out ^ s) :: !obs) ops;
  obs := "live=0" :: !obs;
  print_endline (String.concat ";" (List.rev !obs))

(* ------------------------------ object pool ------------------------------ *)
let run_mp size olen ops =
  let w = ref (mp_world0 size) and obs = ref [] and caps = ref [] and allocs = ref [] and dead = ref false in
  let step op =
    match discover (fun o -> r_mp_step olen op !w o) (fun (_, ev) -> ev) with
    | Ok (((out, w1), _), ev) -> heap_events ev; w := w1; Some (out, ev)
    | r -> dead := true; obs := err_name r :: !obs; None in
  let show_out = function
    | POut (p, reg) -> "p" ^ hex_of_n p ^ (if reg then "!" else "")
    | PUnit -> "u" in
  List.iter (fun tok ->
    if !dead then () else
    match colon tok with
    | ["m"] -> (match step PMalloc with Some (out, ev) ->
        obs := show_out out :: !obs; caps := "-" :: !caps; allocs := show_evs ev :: !allocs | None -> ())
    | ["f"; k] -> (match step (PFree (nh k)) with Some (out, ev) ->
        obs := show_out out :: !obs; caps := "-" :: !caps; allocs := show_evs ev :: !allocs | None -> ())
    | ["fn"] -> (match step PFreeNull with Some (out, ev) ->
        obs := show_out out :: !obs; caps := "-" :: !caps; allocs := show_evs ev :: !allocs | None -> ())
    | ["c"; n] ->
      let outs = ref [] and evs = ref [] in
      for _ = 1 to int_of_string ("0x" ^ n) do
        if not !dead then
          match step PMalloc with
          | Some (POut (p, reg), ev) ->
            outs := (hex_of_n p ^ (if reg then "!" else "")) :: !outs;
            evs := !evs @ ev;
            if p <> N0 then
              (match step (PFree (n_of_int (List.length (!w).w_held - 1))) with
               | Some (_, ev2) -> evs := !evs @ ev2 | None -> ())
          | _ -> ()
      done;
      if not !dead then begin
        obs := ("c" ^ String.concat "." (List.rev !outs)) :: !obs; caps := "-" :: !caps;
        allocs := show_evs !evs :: !allocs end
    | _ -> failwith ("mp op " ^ tok)) ops;
  if not !dead then begin
    (* process exit: the handler runs iff atexit() was called for it (r_mp_exit tests M->state, which
       equals the number of atexit() calls reported above: C12_mpool_exit_handler_registered) *)
    let evx = snd (r_mp_exit olen !w) in
    heap_events evx;
    let nlive = match !heap with None -> "bad" | Some h -> string_of_int (List.length h) in
    obs := ("exit" ^ nlive ^ ":" ^ string_of_int (List.length (!w).w_held)) :: !obs;
    caps := "-" :: !caps; allocs := show_evs evx :: !allocs;
    List.iter (fun _ -> heap_client_free olen) (!w).w_held
  end;
  obs := live_text () :: !obs;
  finish !obs !caps !allocs

(* spec verdict for a pool trace: ops + the implementation's obs section *)
let spec_mp ops impl_obs =
  let toks = Array.of_list (String.split_on_char ';' impl_obs) in
  let sops = ref [] and outs = ref [] and held = ref 0 and ok = ref true in
  let strip_a s = if String.length s > 0 && s.[String.length s - 1] = '!' then String.sub s 0 (String.length s - 1) else s in
  let push op out = sops := op :: !sops; outs := out :: !outs in
  (try
    List.iteri (fun i tok ->
      let o = if i < Array.length toks then toks.(i) else raise Exit in
      match colon tok with
      | ["m"] ->
        let p = nh (strip_a (String.sub o 1 (String.length o - 1))) in
        push PMalloc p; if p <> N0 then incr held
      | ["f"; k] -> push (PFree (nh k)) N0; if int_of_n (nh k) < !held then decr held
      | ["fn"] -> push PFreeNull N0
      | ["c"; _] ->
        let body = String.sub o 1 (String.length o - 1) in
        if body <> "" then
          List.iter (fun ps ->
            let p = nh (strip_a ps) in
            push PMalloc p;
            if p <> N0 then push (PFree (n_of_int !held)) N0) (String.split_on_char '.' body)
      | _ -> failwith "mp op") ops
  with Exit -> ok := false);
  let verdict = !ok && mp_spec_ok (List.rev !sops) (List.rev !outs) [] in
  (* at exit every cached object is returned: live blocks = objects the client holds *)
  let exit_ok =
    let n = List.length ops in
    n < Array.length toks &&
    (match String.split_on_char ':' toks.(n) with
     | [a; b] -> String.length a > 4 && String.sub a 4 (String.length a - 4) = b
     | _ -> false) in
  print_endline ((if verdict then "handout-ok" else "double-handout") ^ ";" ^
                 (if exit_ok then "exit-ok" else "exit-leak") ^ ";live=0")

(* ------------------------------ capacity predicate (spec) ------------------------------ *)
(* capchk s:a:g s:a:g ...   (size, alloc, grew) triples observed on the implementation *)
let capchk toks =
  print_endline (String.concat " " (List.map (fun t -> match colon t with
    | [s; a; g] ->
      let s = nh s and a = nh a in
      if cap_ok s a && (g <> "1" || cap_after_grow_ok s a) then "ok" else "bad"
    | _ -> "bad") toks))

let split_at_marker toks =
  let rec go acc = function
    | [] -> (List.rev acc, "")
    | "@" :: rest -> (List.rev acc, String.concat " " rest)
    | x :: rest -> go (x :: acc) rest in
  go [] toks

let () = iter_lines (fun line ->
  mode := MNone; alloc_count := 0; heap := Some [];
  try
    match split_ws line with
    | "capchk" :: toks -> capchk toks
    | "spec" :: kind :: m :: rest ->
      let (ops, tail) = split_at_marker rest in
      ignore m;
      (match kind with
       | "ea" -> spec_ea ops tail
       | "eq" -> spec_eq ops tail
       | "spm" -> spec_spm ops tail
       | "mp" -> (match ops with _ :: _ :: ops' -> spec_mp ops' (List.hd (String.split_on_char ' ' tail)) | _ -> print_endline "bad-case")
       | _ -> print_endline "bad-case")
    | kind :: m :: ops ->
      mode := parse_mode m;
      (match kind with
       | "ea" -> run_ea ops
       | "eq" -> run_eq ops
       | "spm" -> run_spm ops
       | "mp" -> (match ops with size :: olen :: ops' -> run_mp (nh size) (nh olen) ops' | _ -> print_endline "bad-case")
       | _ -> print_endline "bad-case")
    | _ -> print_endline "bad-case"
  with Failure s -> print_endline ("bad-case " ^ s))
