(* Helpers shared by all model drivers.  This text is pasted after "open <Extracted>" so the
   constructor names refer to the extracted Coq datatypes (positive, n, z, nat). *)
let rec pos_of_int i =
  if i <= 1 then XH else if i land 1 = 0 then XO (pos_of_int (i lsr 1)) else XI (pos_of_int (i lsr 1))
let n_of_int i = if i <= 0 then N0 else Npos (pos_of_int i)
let rec int_of_pos = function XH -> 1 | XO p -> 2 * int_of_pos p | XI p -> 2 * int_of_pos p + 1
let int_of_n = function N0 -> 0 | Npos p -> int_of_pos p
let z_of_int i = if i = 0 then Z0 else if i > 0 then Zpos (pos_of_int i) else Zneg (pos_of_int (- i))
let int_of_z = function Z0 -> 0 | Zpos p -> int_of_pos p | Zneg p -> - (int_of_pos p)
let rec nat_of_int i = if i <= 0 then O else S (nat_of_int (i - 1))
let nat_of_int i = (* tail recursive for big values *)
  let rec go acc i = if i <= 0 then acc else go (S acc) (i - 1) in go O i
let int_of_nat n = let rec go acc = function O -> acc | S m -> go (acc + 1) m in go 0 n

(* arbitrary-size numbers as hex strings (most significant digit first) *)
let hexval c = match c with
  | '0'..'9' -> Stdlib.Char.code c - 48 | 'a'..'f' -> Stdlib.Char.code c - 87 | 'A'..'F' -> Stdlib.Char.code c - 55
  | _ -> failwith "hexval"
let n_of_hex s : n =
  (* build the positive from the bit string, least significant bit outermost *)
  let bits = ref [] in  (* msb first *)
  Stdlib.String.iter (fun c -> let v = hexval c in
    bits := (v land 1 = 1) :: (v land 2 = 2) :: (v land 4 = 4) :: (v land 8 = 8) :: !bits) s;
  (* !bits is lsb first now (we consed in order msb-digit first, each digit pushed msb..lsb reversed) *)
  let rec strip = function false :: r -> strip r | l -> l in
  let msb_first = strip (Stdlib.List.rev !bits) in
  match msb_first with
  | [] -> N0
  | _ :: rest -> Npos (Stdlib.List.fold_left (fun p b -> if b then XI p else XO p) XH rest)
let hex_of_n (x : n) =
  match x with
  | N0 -> "0"
  | Npos p ->
    let rec bits p acc = match p with XH -> true :: acc | XO q -> bits q (false :: acc) | XI q -> bits q (true :: acc) in
    (* bits returns msb first *)
    let rec collect p = match p with XH -> [true] | XO q -> false :: collect q | XI q -> true :: collect q in
    let lsb_first = collect p in
    let _ = bits in
    let buf = Stdlib.Buffer.create 16 in
    let rec go l acc = match l with
      | [] -> acc
      | a :: b :: c :: d :: r -> go r ((Stdlib.Bool.to_int a + 2 * Stdlib.Bool.to_int b + 4 * Stdlib.Bool.to_int c + 8 * Stdlib.Bool.to_int d) :: acc)
      | l -> let l4 = l @ [false; false; false] in
        (match l4 with a :: b :: c :: d :: _ -> (Stdlib.Bool.to_int a + 2 * Stdlib.Bool.to_int b + 4 * Stdlib.Bool.to_int c + 8 * Stdlib.Bool.to_int d) :: acc | _ -> acc) in
    Stdlib.List.iter (fun v -> Stdlib.Buffer.add_char buf "0123456789abcdef".[v]) (go lsb_first []);
    Stdlib.Buffer.contents buf
let z_of_hex s = if Stdlib.String.length s > 0 && s.[0] = '-' then
    (match n_of_hex (Stdlib.String.sub s 1 (Stdlib.String.length s - 1)) with N0 -> Z0 | Npos p -> Zneg p)
  else (match n_of_hex s with N0 -> Z0 | Npos p -> Zpos p)
let hex_of_z = function Z0 -> "0" | Zpos p -> hex_of_n (Npos p) | Zneg p -> "-" ^ hex_of_n (Npos p)

(* byte strings: hex text <-> list of N (each < 256); "-" denotes the empty string *)
let byte_table = Stdlib.Array.init 256 n_of_int
let bytes_of_hex s : n list =
  if s = "-" then [] else begin
    let l = Stdlib.String.length s / 2 in
    let rec go i acc = if i < 0 then acc else go (i - 1) (byte_table.(16 * hexval s.[2*i] + hexval s.[2*i+1]) :: acc) in
    go (l - 1) []
  end
let hex_of_bytes (l : n list) =
  if l = [] then "-" else begin
    let buf = Stdlib.Buffer.create 64 in
    Stdlib.List.iter (fun b -> Stdlib.Buffer.add_string buf (Stdlib.Printf.sprintf "%02x" (int_of_n b land 255))) l;
    Stdlib.Buffer.contents buf
  end
let split_ws s =
  Stdlib.List.filter (fun x -> x <> "") (Stdlib.String.split_on_char ' ' s)
let iter_lines f : unit =
  (try while true do let l = input_line stdin in f l done with End_of_file -> ()); flush stdout
