(* case line:  readkeys <file bytes hex> <oracle: string of 0/1, "-" = none>
   result   :  <ok id secret | fail> ; events separated by ','  (alloc X / freeid X / freesecret X) *)
let ev = function
  | EAllocId c -> "alloc " ^ hex_of_bytes c
  | EAllocSecret c -> "alloc " ^ hex_of_bytes c
  | EFreeId c -> "freeid " ^ hex_of_bytes c
  | EFreeSecret c -> "freesecret " ^ hex_of_bytes c
let () = iter_lines (fun line ->
  match split_ws line with
  | ["readkeys"; f; o] ->
    let orc = if o = "-" then [] else Stdlib.List.init (Stdlib.String.length o) (fun i -> o.[i] = '1') in
    let (out, evs) = repo_readkeys (bytes_of_hex f) orc in
    let r = (match out with Success (i, k) -> "ok " ^ hex_of_bytes i ^ " " ^ hex_of_bytes k | Failure -> "fail") in
    print_endline (r ^ " ; " ^ Stdlib.String.concat " , " (Stdlib.List.map ev evs))
  | _ -> print_endline "bad-case")
