(* case lines (same as harness/drv_http.c):
     http <method> <path> <hdrs> <reqbody> <sendchunk> <limit> <ending> <segs> <stream>
        -> req=<hex> ret=ok cbs=<n> [cb=...]* end=<done|cancelled|error>   | fault | assert | fuel
     render <ishead> <interims> <final> <framing> <body>
        -> ok <wf 0|1> <stream hex> <expected " cb=..." text> (the SPEC: HttpSpec.render / expect / wf_response)
     expectl <limit hex> <ishead> <interims> <final> <framing> <body>
        -> ok <" cb=..." text>   (the SPEC: HttpSpec.expect_limited = expect within the limit, oversized above it)
     wfnl <ishead> <interims> <final> <framing> <body>
        -> ok <wf_response_nolimits 0|1> <within_limits 0|1>       (the SPEC without / only the two size limits)
     cbok <limit> <status> <bnull 0|1> <bodylen hex> <actual body length hex>
        -> ok 0|1                                                   (the SPEC predicate HttpSpec.cb_ok)
     layout <method> <path> <hdrs> <reqbody>  -> ok <hex>           (the SPEC: HttpSpec.request_layout) *)
let hexs s = if s = "" || s = "-" then [] else bytes_of_hex s
let hex0 l = if l = [] then "" else hex_of_bytes l
let split c s = if s = "-" || s = "" then [] else String.split_on_char c s

let crc32 (l : n list) : int =
  let c = ref 0xffffffff in
  List.iter (fun b ->
    c := !c lxor (int_of_n b);
    for _ = 1 to 8 do
      c := (!c lsr 1) lxor (0xedb88320 land (- (!c land 1)))
    done) l;
  (!c lxor 0xffffffff) land 0xffffffff

let size_max_n = n_of_hex "ffffffffffffffff"

let show_cb = function
  | CbNull -> " cb=null"
  | CbResp (st, hs, bnull, blen, body) ->
    let h = if hs = [] then "-" else
        String.concat "," (List.map (fun (a, b) -> hex0 a ^ ":" ^ hex0 b) hs) in
    let len = hex_of_n blen in
    let b =
      if bnull && blen = N0 then "null"
      else if bnull && blen = size_max_n then "toobig"
      else if bnull then "nullptr-len" ^ len
      else if blen = size_max_n then "toobig-with-buffer"
      else if blen = N0 then "len0-with-buffer"
      else if List.length body <= 1024 then hex_of_bytes body
      else Printf.sprintf "L%dC%08x" (List.length body) (crc32 body) in
    Printf.sprintf " cb=%d/%s/%s" (int_of_z st) h b

let parse_hdrs tok =
  List.map (fun p -> match String.split_on_char ':' p with
      | [a; b] -> (hexs a, hexs b) | _ -> failwith "hdr") (split ',' tok)

let rec take_n k l = if k <= 0 then ([], l) else match l with
    | [] -> ([], []) | x :: r -> let (a, b) = take_n (k - 1) r in (x :: a, b)
let take_tr k l = (* tail recursive *)
  let rec go k acc l = if k <= 0 then (List.rev acc, l) else match l with
      | [] -> (List.rev acc, []) | x :: r -> go (k - 1) (x :: acc) r in go k [] l

let make_segs sizes stream =
  let rec go sizes rest acc = match sizes with
    | [] -> List.rev (if rest = [] then acc else rest :: acc)
    | s :: ss -> let (a, b) = take_tr s rest in go ss b (a :: acc) in
  go sizes stream []

let parse_field t = match String.split_on_char ':' t with
  | [a; b; c; d] -> { f_name = hexs a; f_value = hexs b; f_lead = hexs c; f_trail = hexs d }
  | _ -> failwith "field"
let parse_msg t = match String.split_on_char '/' t with
  | [mi; st; re; fs] -> { m_minor = hexs mi; m_status = n_of_int (int_of_string st); m_reason = hexs re;
                          m_fields = List.map parse_field (split ';' fs) }
  | _ -> failwith "msg"
let parse_chunk t = match String.split_on_char ':' t with
  | [a; b; c] -> { c_digits = hexs a; c_ext = hexs b; c_data = hexs c }
  | _ -> failwith "chunk"
(* clen.<pos> = the length spelled canonically (HttpSpec.dec); clen.<pos>.<hex> = spelled as given *)
let parse_framing t body = match String.split_on_char '.' t with
  | ["none"] -> FrNone
  | ["close"] -> FrClose
  | ["clen"; pos] -> FrClen (nat_of_int (int_of_string pos), dec (n_of_int (List.length body)))
  | ["clen"; pos; ds] -> FrClen (nat_of_int (int_of_string pos), hexs ds)
  | ["chunked"; pos; ld; le; tr; cs] ->
    FrChunked (nat_of_int (int_of_string pos), List.map parse_chunk (split ',' cs), hexs ld, hexs le, hexs tr)
  | _ -> failwith "framing"

let () = iter_lines (fun line ->
  try
  match split_ws line with
  | "http" :: m :: p :: hd :: rb :: _sendchunk :: limit :: ending :: segs :: stream :: opts ->
    if opts <> [] then print_endline "unmodelled" else begin
      let q = { q_method = hexs m; q_path = hexs p; q_headers = parse_hdrs hd; q_body = hexs rb } in
      let str = hexs stream in
      let sizes =
        if String.length segs > 1 && segs.[0] = 'r' then begin
          let k = int_of_string (String.sub segs 1 (String.length segs - 1)) in
          if k <= 0 then [] else List.init ((List.length str + k - 1) / k) (fun _ -> k)
        end else List.map int_of_string (split ',' segs) in
      let net = { n_segs = make_segs sizes str;
                  n_end = (match ending with "e" -> EndEof | "r" -> EndErr | _ -> EndStall) } in
      match http_run repo_terminated (n_of_int 190) init_rdr q (n_of_hex limit) net with
      | Ok (sent, o) ->
        let head = "req=" ^ hex_of_bytes sent ^ " ret=ok" in
        (match o with
         | Done cbs -> print_endline (head ^ Printf.sprintf " cbs=%d" (List.length cbs)
                                      ^ String.concat "" (List.map show_cb cbs) ^ " end=done")
         | Waiting -> print_endline (head ^ " cbs=0 end=cancelled")
         | Died -> print_endline (head ^ " cbs=0 end=error"))
      | Fault -> print_endline "fault"
      | AssertFail -> print_endline "assert"
      | OutOfFuel -> print_endline "fuel"
    end
  | ["render"; ishead; interims; final; framing; body] ->
    let r = { p_interim = List.map parse_msg (split '|' interims); p_final = parse_msg final;
              p_framing = parse_framing framing (hexs body); p_body = hexs body } in
    let wf = wf_response (ishead = "1") r in
    print_endline (Printf.sprintf "ok %d %s%s" (if wf then 1 else 0) (hex_of_bytes (render r)) (show_cb (expect r)))
  | ["expectl"; limit; _ishead; interims; final; framing; body] ->
    let r = { p_interim = List.map parse_msg (split '|' interims); p_final = parse_msg final;
              p_framing = parse_framing framing (hexs body); p_body = hexs body } in
    print_endline ("ok" ^ show_cb (expect_limited (n_of_hex limit) r))
  | ["wfnl"; ishead; interims; final; framing; body] ->
    let r = { p_interim = List.map parse_msg (split '|' interims); p_final = parse_msg final;
              p_framing = parse_framing framing (hexs body); p_body = hexs body } in
    print_endline (Printf.sprintf "ok %d %d" (if wf_response_nolimits (ishead = "1") r then 1 else 0)
                     (if within_limits r then 1 else 0))
  | ["cbok"; limit; status; bnull; blen; actual] ->
    (* the body itself does not matter to cb_ok, only its length *)
    let rec mk k acc = if k <= 0 then acc else mk (k - 1) (N0 :: acc) in
    let c = CbResp (z_of_int (int_of_string status), [], bnull = "1", n_of_hex blen, mk (int_of_string ("0x" ^ actual)) []) in
    print_endline (if cb_ok (n_of_hex limit) c then "ok 1" else "ok 0")
  | ["layout"; m; p; hd; rb] ->
    let q = { q_method = hexs m; q_path = hexs p; q_headers = parse_hdrs hd; q_body = hexs rb } in
    print_endline ("ok " ^ hex_of_bytes (request_layout q))
  | _ -> print_endline "bad-case"
  with Failure s -> print_endline ("bad-case " ^ s))
