(* Model runner for the AES area.  argv[1] selects which compiled configuration is mirrored:
     aesni : crypto_aes_aesni.c model (instruction level) + crypto_aesctr_aesni.c routing
     sw    : the OpenSSL fallback is NOT modelled: block encryption is FIPS-197 (AesSpec), the
             stream is the portable loop of crypto_aesctr.c
     wipe-aesni / wipe-sw : release events of the free paths (C20)
     wipe-nicpu0 : the same for the AES-NI build on a CPU that does not report AES-NI: OpenSSL key objects,
             freed by the software tail of crypto_aes_key_free as compiled with CPUSUPPORT_X86_AESNI
     sel-<c><t> : the AES-NI build as a whole under the selection model (Crypto/AesSelect.v, data
             regenerated from crypto_aes.c / crypto_aesctr.c): c = 1 the CPU reports AES-NI, t = 1 the
             first-use self-test passes.  Key objects are AES-NI or OpenSSL objects as crypto_aes.c
             decides; each stream call goes where crypto_aesctr.c sends it; a callee applied to
             the other kind of object is "model-fault".  OpenSSL = FIPS-197 (table S-box).
             Extra line:  sel  -> sel can_use=<n> key=<0|1> block=<0|1> stream16=<0|1> stream15=<0|1>
   case lines (same as harness/drv_aes.c):
     block <key> <blk>...     -> ok <ct>...           through crypto_aes_key_expand/encrypt_block
     blockni <key> <blk>...   -> ok <ct>...           the _aesni functions called directly
     ctr <tok>...             -> ok <out>...          one <out> per s/S/B token
        K<key>  expand a key, becomes the current key      I<nonce> crypto_aesctr_init(current key)
        A       crypto_aesctr_alloc                        N<nonce> init2(stream, current key, nonce)
        R<nonce> init2(stream, NULL, nonce)                F        crypto_aesctr_free
        s<data> stream, separate buffers   S<data> stream in place   B<nonce>:<data> crypto_aesctr_buf
        J<pos>  WHITE-BOX, not a library call: stream->bytectr = pos (hex, multiple of 16), only
                right after I/N/R; the object then is a stream positioned at block pos/16
     big <key> <nonce> <len1> <len2> <tail1>   one call of len1 zero bytes then one of len2 zero bytes
        on one stream; only "spec big" is answered (ctr_spec_from evaluated directly at the block
        indices of the two reported ranges); the model proper is not run over gigabytes
   prefix "spec": FIPS-197 Cipher and ctr_spec on the concatenated data of each (key, nonce) epoch;
   prefix "slow": like spec for block lines, with the S-box computed as inverse + affine map. *)
let mode = if Array.length Sys.argv > 1 then Sys.argv.(1) else "aesni"
let hw = (mode = "aesni" || mode = "wipe-aesni")
let nicpu0 = (mode = "wipe-nicpu0")
let wipe = (mode = "wipe-aesni" || mode = "wipe-sw" || nicpu0)
let selmode = String.length mode = 6 && String.sub mode 0 4 = "sel-"
let sel_cpu = selmode && mode.[4] = '1'
let sel_test = selmode && mode.[5] = '1'

let unres = function Ok a -> a | Fault -> failwith "fault" | AssertFail -> failwith "assert" | OutOfFuel -> failwith "fuel"

let spec_e key = let w = x_key_expansion key in let nr = x_nr_of key in fun b -> x_cipher nr w b
let aesni_e key = match x_key_expand_aesni key with
  | Some k -> (fun b -> x_encrypt_block_aesni k b) | None -> failwith "keylen"
let model_e key = if hw then aesni_e key else spec_e key

let nonce_of s = n_of_hex s
let junk16 = List.init 16 (fun _ -> n_of_int 0xbe)
let junk_state () = { bytectr = n_of_hex "bebebebebebebebe"; buf = junk16; pblk = junk16 }
let tail s = String.sub s 1 (String.length s - 1)

let rec split_at n l = if n = 0 then ([], l) else match l with [] -> ([], []) | x :: r -> let (a, b) = split_at (n - 1) r in (x :: a, b)
let split_sizes sizes l =
  let rec go sizes l acc = match sizes with [] -> List.rev acc
    | n :: r -> let (a, b) = split_at_tr n l in go r b (a :: acc)
  and split_at_tr n l = let rec f n l acc = if n = 0 then (List.rev acc, l) else match l with [] -> (List.rev acc, []) | x :: r -> f (n - 1) r (x :: acc) in f n l [] in
  go sizes l []
let _ = split_at

(* ---- the model: state machine step by step; expand : key bytes -> key object,
   strm : key object -> state -> data -> (state, output) *)
let run_model_gen expand strm toks =
  let cur = ref None and stream = ref None in
  let outs = ref [] in
  List.iter (fun t ->
    let arg = tail t in
    match t.[0] with
    | 'K' -> cur := Some (expand (bytes_of_hex arg))
    | 'A' -> stream := Some (None, junk_state ())
    | 'I' -> (match !cur with Some e -> stream := Some (Some e, x_init2 (nonce_of arg) (junk_state ())) | None -> failwith "nokey")
    | 'N' -> (match !cur, !stream with Some e, Some (_, s) -> stream := Some (Some e, x_init2 (nonce_of arg) s) | _ -> failwith "nostream")
    | 'R' -> (match !stream with Some (Some e, s) -> stream := Some (Some e, x_init2 (nonce_of arg) s) | _ -> failwith "nostream")
    | 'F' -> stream := None
    | 'J' -> (match !stream with Some (e, s) -> stream := Some (e, x_seek (n_of_hex arg) s) | None -> failwith "nostream")
    | 's' | 'S' -> (match !stream with
        | Some (Some e, s) ->
          let (s', o) = strm e s (bytes_of_hex arg) in
          stream := Some (Some e, s'); outs := o :: !outs
        | _ -> failwith "nostream")
    | 'B' -> (match !cur, String.index_opt arg ':' with
        | Some e, Some i ->
          let nonce = nonce_of (String.sub arg 0 i) and data = bytes_of_hex (String.sub arg (i + 1) (String.length arg - i - 1)) in
          (* crypto_aesctr_buf: init2 on an uninitialised stack object, one stream call *)
          outs := snd (strm e (x_init2 nonce (junk_state ())) data) :: !outs
        | _ -> failwith "B")
    | _ -> failwith "tok") toks;
  List.rev !outs

let run_model toks = run_model_gen model_e (fun e s d -> unres (x_stream_cfg e hw s d)) toks

(* ---- the library under the selection model (mode sel-<c><t>) *)
let ossl key = spec_e key
let sel_expand key = unres (x_lib_key_expand sel_cpu sel_test key)
let sel_block ko = unres (x_lib_block sel_cpu sel_test ossl ko)
let run_sel toks = run_model_gen sel_expand (fun ko s d -> unres (x_lib_stream sel_cpu sel_test ossl ko s d)) toks
let show_selection () =
  let b x = if x then 1 else 0 in
  match x_selection sel_cpu sel_test with
  | Ok ((((n, k), bl), s16), s15) ->
    Printf.sprintf "sel can_use=%s key=%d block=%d stream16=%d stream15=%d" (hex_of_n n) (b k) (b bl) (b s16) (b s15)
  | Fault -> "sel model-fault" | AssertFail -> "sel model-assert" | OutOfFuel -> "sel model-fuel"

(* ---- the spec: per (key, nonce) epoch, ctr_spec of the concatenation, cut back into the calls *)
let run_spec toks =
  let cur = ref None and stream = ref None in   (* stream: (e option, nonce, chunks rev, slots rev) *)
  let results = Hashtbl.create 16 and ord = ref 0 and block0 = ref N0 in
  let flush () = match !stream with
    | Some (Some e, nonce, chunks, slots) when chunks <> [] ->
      let chunks = List.rev chunks and slots = List.rev slots in
      let out = x_ctr_spec_from e nonce !block0 (List.concat chunks) in
      List.iter2 (fun slot o -> Hashtbl.replace results slot o) slots (split_sizes (List.map List.length chunks) out)
    | _ -> () in
  List.iter (fun t ->
    let arg = tail t in
    match t.[0] with
    | 'K' -> cur := Some (spec_e (bytes_of_hex arg))
    | 'A' -> flush (); block0 := N0; stream := Some (None, N0, [], [])
    | 'I' | 'N' -> flush (); block0 := N0; stream := Some (!cur, nonce_of arg, [], [])
    | 'R' -> flush (); block0 := N0; (match !stream with Some (e, _, _, _) -> stream := Some (e, nonce_of arg, [], []) | None -> failwith "nostream")
    | 'F' -> flush (); stream := None
    | 'J' -> (match !stream with
        | Some (_, _, [], _) -> block0 := n_of_hex (String.sub arg 0 (String.length arg - 1))   (* pos / 16 *)
        | _ -> failwith "seek-after-data")
    | 's' | 'S' -> (match !stream with
        | Some (e, n, chunks, slots) -> stream := Some (e, n, bytes_of_hex arg :: chunks, !ord :: slots); incr ord
        | None -> failwith "nostream")
    | 'B' -> (match !cur, String.index_opt arg ':' with
        | Some e, Some i ->
          let nonce = nonce_of (String.sub arg 0 i) and data = bytes_of_hex (String.sub arg (i + 1) (String.length arg - i - 1)) in
          Hashtbl.replace results !ord (x_ctr_spec e nonce data); incr ord
        | _ -> failwith "B")
    | _ -> failwith "tok") toks;
  flush ();
  List.init !ord (fun i -> Hashtbl.find results i)

(* ---- release events (C20): what the free paths hand back to the allocator *)
let show_release kind secret blocks =
  (List.map (fun b ->
    let nz = List.length (List.filter (fun x -> x <> N0) b) in
    let hit = (* does the secret survive as a contiguous run? *)
      let rec pref a b = match a, b with [], _ -> true | x :: a', y :: b' -> x = y && pref a' b' | _, [] -> false in
      let rec search b = secret <> [] && (pref secret b || (match b with [] -> false | _ :: r -> search r)) in
      if search b then 1 else 0 in
    Printf.sprintf " free:%s:%d:%d" kind nz hit) blocks)

let key_object key =
  if hw then (match x_key_expand_aesni key with
      | Some (rks, nr) -> List.concat rks @ le64 (n_of_int 0xaa) @ le64 nr
      | None -> failwith "keylen")
  else List.concat (x_key_expansion key) @ [x_nr_of key |> int_of_nat |> n_of_int]
let key_free key = show_release "key" (fst (split_at 16 key)) ((if hw then x_key_free_aesni else if nicpu0 then x_key_free_sw_ni else x_key_free_sw) (key_object key))
let ctr_object (s : st) = le64 (n_of_int 0xaa) @ le64 s.bytectr @ s.buf @ s.pblk
let ctr_free s = show_release "ctr" [] (x_aesctr_free (ctr_object s))

let run_wipe_ctr toks =
  let keys = ref [] and cur = ref None and stream = ref None and ev = ref [] in
  List.iter (fun t ->
    let arg = tail t in
    match t.[0] with
    | 'K' -> let k = bytes_of_hex arg in keys := k :: !keys; cur := Some (model_e k)
    | 'A' -> stream := Some (None, junk_state ())
    | 'I' -> (match !cur with Some e -> stream := Some (Some e, x_init2 (nonce_of arg) (junk_state ())) | None -> failwith "nokey")
    | 'N' -> (match !cur, !stream with Some e, Some (_, s) -> stream := Some (Some e, x_init2 (nonce_of arg) s) | _ -> failwith "nostream")
    | 'R' -> (match !stream with Some (Some e, s) -> stream := Some (Some e, x_init2 (nonce_of arg) s) | _ -> failwith "nostream")
    | 'F' -> (match !stream with Some (_, s) -> ev := List.rev_append (ctr_free s) !ev; stream := None | None -> ())
    | 's' | 'S' -> (match !stream with
        | Some (Some e, s) -> let (s', _) = unres (x_stream_cfg e hw s (bytes_of_hex arg)) in stream := Some (Some e, s')
        | _ -> failwith "nostream")
    | 'B' -> ()
    | 'J' -> (match !stream with Some (e, s) -> stream := Some (e, x_seek (n_of_hex arg) s) | None -> failwith "nostream")
    | _ -> failwith "tok") toks;
  (match !stream with Some (_, s) -> ev := List.rev_append (ctr_free s) !ev | None -> ());
  List.iter (fun k -> ev := List.rev_append (key_free k) !ev) (List.rev !keys);
  List.rev !ev

(* keystream XOR zeros = the bytes the spec puts at stream positions pos .. pos+len-1 *)
let spec_range e nonce pos len =
  let b0 = pos / 16 and off = pos mod 16 in
  let out = x_ctr_spec_from e nonce (n_of_int b0) (List.init (off + len) (fun _ -> N0)) in
  snd (split_at off out)

let show outs = "ok" ^ String.concat "" (List.map (fun o -> " " ^ hex_of_bytes o) outs)

let () = iter_lines (fun line ->
  let out =
    try
      match split_ws line with
      | ("block" | "blockni") :: key :: blks when wipe -> "ok" ^ String.concat "" (key_free (bytes_of_hex key))
      | "ctr" :: toks when wipe -> "ok" ^ String.concat "" (run_wipe_ctr toks)
      | ["sel"] when selmode -> show_selection ()
      | ("block" | "blockni") :: key :: blks when selmode ->
        let e = sel_block (sel_expand (bytes_of_hex key)) in show (List.map (fun b -> e (bytes_of_hex b)) blks)
      | "ctr" :: toks when selmode -> show (run_sel toks)
      | "block" :: key :: blks -> let e = model_e (bytes_of_hex key) in show (List.map (fun b -> e (bytes_of_hex b)) blks)
      | "blockni" :: key :: blks -> let e = aesni_e (bytes_of_hex key) in show (List.map (fun b -> e (bytes_of_hex b)) blks)
      | "spec" :: ("block" | "blockni") :: key :: blks -> let e = spec_e (bytes_of_hex key) in show (List.map (fun b -> e (bytes_of_hex b)) blks)
      | "slow" :: ("block" | "blockni") :: key :: blks -> let k = bytes_of_hex key in show (List.map (fun b -> x_aes_encrypt_slow k (bytes_of_hex b)) blks)
      | "ctr" :: toks -> show (run_model toks)
      | "spec" :: "ctr" :: toks -> show (run_spec toks)
      | ["spec"; "big"; key; nonce; len1; len2; tail1] ->
        let e = spec_e (bytes_of_hex key) and nonce = nonce_of nonce in
        let len1 = int_of_string len1 and len2 = int_of_string len2 and tail1 = int_of_string tail1 in
        show [spec_range e nonce (len1 - tail1) tail1; spec_range e nonce len1 len2]
      | "big" :: _ -> "model-not-run"
      | ["selftest"] -> show [selftest1_key; selftest1_ptext; selftest1_ctext; selftest2_key; selftest2_ptext; selftest2_ctext]
      | _ -> "bad-case"
    with Failure m -> "model-" ^ m in
  print_endline out)
