(* Event-loop model runner.  Line protocol (tokens separated by blanks):

   ev <ncb> { <nscripts> { <nops> {op} <rc> } } x <nx> {xop} p <np> {poll} c <nc> { <sec> <usec> }
     op   : ir cb prio var af | ic var | nr cb fd op af | nc fd op | tr cb sec usec var af
          | tx var | ts var | in | dn | td cb sec usec var af
            (td = tr, made through events_timer_register_double by the C driver: events.h defines the
             double interface as the timeval interface at the converted value; the generators only
             produce td timeouts that a double represents exactly, usec a multiple of 15625)
     xop  : op | run | spin
     poll : e0 | e1 | r <n> { fd bits }        bits: 1 in, 2 out, 4 err, 8 hup
   -> the trace, one event after another:
     R rid i prio | R rid n fd dir | R rid t sec usec | FI prio E | FN fd op E | FT sec usec E
     X rid | XF fd op E | XB fd op | Z rid | C sec usec
     P timeout <n> { fd ev } ( A <k> { fd bits } | E0 | E1 )      ev: 1 in, 2 out
     I rid | IB | V rc | INT | DONE | RS | RE rc | SS | SE rc
   (an optional trailing  k <flag>  is for the C driver only: allocations refused during cancels)
   chk04 <trace> / chk05 <trace> / chk14 <trace> -> true | false   (the SPEC's checkers on a given trace) *)

exception Bad of string
let toks = ref [||] and pos = ref 0
let next () = if !pos >= Array.length !toks then raise (Bad "eof") else (let t = !toks.(!pos) in incr pos; t)
let peek () = if !pos >= Array.length !toks then "" else !toks.(!pos)
let int () = let t = next () in try int_of_string t with _ -> raise (Bad ("int " ^ t))
let nat () = nat_of_int (int ())
let zed () = z_of_int (int ())
let num () = n_of_int (int ())
let expect s = let t = next () in if t <> s then raise (Bad ("expected " ^ s ^ " got " ^ t))
let rec times n f = if n <= 0 then [] else let x = f () in x :: times (n - 1) f

let bits_of_int b = { b_in = b land 1 <> 0; b_out = b land 2 <> 0; b_err = b land 4 <> 0; b_hup = b land 8 <> 0 }
let int_of_bits r = (if r.b_in then 1 else 0) + (if r.b_out then 2 else 0) + (if r.b_err then 4 else 0) + (if r.b_hup then 8 else 0)

let parse_op_named t =
  match t with
  | "ir" -> let cb = nat () in let pr = nat () in let v = nat () in let af = nat () in OImmReg (cb, pr, v, af)
  | "ic" -> OImmCancel (nat ())
  | "nr" -> let cb = nat () in let fd = zed () in let o = zed () in let af = nat () in ONetReg (cb, fd, o, af)
  | "nc" -> let fd = zed () in let o = zed () in ONetCancel (fd, o)
  | "tr" | "td" -> let cb = nat () in let s = num () in let u = num () in let v = nat () in let af = nat () in
    OTimerReg (cb, (s, u), v, af)
  | "tx" -> OTimerCancel (nat ())
  | "ts" -> OTimerReset (nat ())
  | "in" -> OInterrupt
  | "dn" -> ODone
  | _ -> raise (Bad ("op " ^ t))
let parse_op () = parse_op_named (next ())
let parse_xop () = match next () with "run" -> XRun | "spin" -> XSpin | t -> XOp (parse_op_named t)
let parse_script () = let n = int () in let ops = times n parse_op in let rc = zed () in (ops, rc)
let parse_cb () = let n = int () in times n parse_script
let parse_poll () = match next () with
  | "e0" -> REintr false | "e1" -> REintr true
  | "r" -> let n = int () in RReady (times n (fun () -> let fd = nat () in let b = int () in (fd, bits_of_int b)))
  | t -> raise (Bad ("poll " ^ t))

let errname = function E0 -> "0" | EEXIST -> "EEXIST" | ENOENT -> "ENOENT" | ENOMEM -> "ENOMEM" | EOTHER -> "EOTHER"
let errof = function "0" -> E0 | "EEXIST" -> EEXIST | "ENOENT" -> ENOENT | "ENOMEM" -> ENOMEM | _ -> EOTHER
let si = string_of_int
let sn x = si (int_of_nat x) and sz x = si (int_of_z x) and sN x = si (int_of_n x)

let show_event b e =
  let add l = List.iter (fun s -> Buffer.add_char b ' '; Buffer.add_string b s) l in
  match e with
  | ERegister (r, KImm p) -> add ["R"; sn r; "i"; sn p]
  | ERegister (r, KNet (fd, d)) -> add ["R"; sn r; "n"; sn fd; (if d then "1" else "0")]
  | ERegister (r, KTimer (s, u)) -> add ["R"; sn r; "t"; sN s; sN u]
  | ERegFailImm (p, e) -> add ["FI"; sn p; errname e]
  | ERegFailNet (fd, o, e) -> add ["FN"; sz fd; sz o; errname e]
  | ERegFailTimer ((s, u), e) -> add ["FT"; sN s; sN u; errname e]
  | ECancel r -> add ["X"; sn r]
  | ECancelFail (fd, o, e) -> add ["XF"; sz fd; sz o; errname e]
  | ECancelBogus (fd, o) -> add ["XB"; sz fd; sz o]
  | EReset r -> add ["Z"; sn r]
  | EClock (s, u) -> add ["C"; sN s; sN u]
  | EPoll (tmo, fs, ans) ->
    add ["P"; sz tmo; si (List.length fs)];
    List.iter (fun (fd, (i, o)) -> add [sn fd; si ((if i then 1 else 0) + (if o then 2 else 0))]) fs;
    (match ans with
     | PEintr false -> add ["E0"] | PEintr true -> add ["E1"]
     | PReady l -> add ["A"; si (List.length l)]; List.iter (fun (fd, r) -> add [sn fd; si (int_of_bits r)]) l)
  | EInvoke r -> add ["I"; sn r]
  | EInvokeBogus -> add ["IB"]
  | ECbEnd rc -> add ["V"; sz rc]
  | EInterrupt -> add ["INT"]
  | EDone -> add ["DONE"]
  | ERunStart -> add ["RS"]
  | ERunEnd rc -> add ["RE"; sz rc]
  | ESpinStart -> add ["SS"]
  | ESpinEnd rc -> add ["SE"; sz rc]

let parse_event () =
  match next () with
  | "R" -> let r = nat () in
    (match next () with
     | "i" -> ERegister (r, KImm (nat ()))
     | "n" -> let fd = nat () in let d = int () in ERegister (r, KNet (fd, d <> 0))
     | "t" -> let s = num () in let u = num () in ERegister (r, KTimer (s, u))
     | t -> raise (Bad ("kind " ^ t)))
  | "FI" -> let p = nat () in ERegFailImm (p, errof (next ()))
  | "FN" -> let fd = zed () in let o = zed () in ERegFailNet (fd, o, errof (next ()))
  | "FT" -> let s = num () in let u = num () in ERegFailTimer ((s, u), errof (next ()))
  | "X" -> ECancel (nat ())
  | "XF" -> let fd = zed () in let o = zed () in ECancelFail (fd, o, errof (next ()))
  | "XB" -> let fd = zed () in let o = zed () in ECancelBogus (fd, o)
  | "Z" -> EReset (nat ())
  | "C" -> let s = num () in let u = num () in EClock (s, u)
  | "P" -> let tmo = zed () in let n = int () in
    let fs = times n (fun () -> let fd = nat () in let e = int () in (fd, (e land 1 <> 0, e land 2 <> 0))) in
    let ans = (match next () with
        | "E0" -> PEintr false | "E1" -> PEintr true
        | "A" -> let k = int () in PReady (times k (fun () -> let fd = nat () in let b = int () in (fd, bits_of_int b)))
        | t -> raise (Bad ("ans " ^ t))) in
    EPoll (tmo, fs, ans)
  | "I" -> EInvoke (nat ())
  | "IB" -> EInvokeBogus
  | "V" -> ECbEnd (zed ())
  | "INT" -> EInterrupt
  | "DONE" -> EDone
  | "RS" -> ERunStart
  | "RE" -> ERunEnd (zed ())
  | "SS" -> ESpinStart
  | "SE" -> ESpinEnd (zed ())
  | t -> raise (Bad ("event " ^ t))

let parse_trace () = let l = ref [] in while !pos < Array.length !toks do l := parse_event () :: !l done; List.rev !l

let fuel = nat_of_int 100000

let () = iter_lines (fun line ->
  toks := Array.of_list (split_ws line); pos := 0;
  try
    match next () with
    | "ev" ->
      let ncb = int () in
      let prog = times ncb parse_cb in
      expect "x"; let nx = int () in let xs = times nx parse_xop in
      expect "p"; let np = int () in let pl = times np parse_poll in
      expect "c"; let nc = int () in let cl = times nc (fun () -> let s = num () in let u = num () in (s, u)) in
      (* optional "k <flag>": the C driver refuses every allocation during cancel calls; cancels
         cannot fail, so the model's behaviour is the same *)
      if peek () = "k" then (ignore (next ()); ignore (int ()));
      (match run_case prog xs pl cl fuel with
       | Ok tr -> let b = Buffer.create 256 in Buffer.add_string b "ok"; List.iter (show_event b) tr;
         print_endline (Buffer.contents b)
       | Fault -> print_endline "fault" | AssertFail -> print_endline "assert" | OutOfFuel -> print_endline "fuel")
    | "chk04" -> print_endline (if check_c04 (parse_trace ()) then "true" else "false")
    | "chk05" -> print_endline (if check_c05 (parse_trace ()) then "true" else "false")
    | "chk14" -> print_endline (if check_c14_events (parse_trace ()) then "true" else "false")
    | _ -> print_endline "bad-case"
  with Bad m -> print_endline ("bad-case " ^ m))
