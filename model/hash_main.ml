(* case lines (binary data as hex, "-" = empty):
     sha256|sha1|md5 s <part>*                 Init, one Update per part, Final   -> ok <digest> z|nz
     sha256|sha1|md5 b <msg>                   XXX_Buf                            -> ok <digest> -
     hmac-sha256|hmac-sha1|hmac-md5 s <key> <part>*   Init/Update* /Final         -> ok <digest> z|nz
     hmac-sha256|hmac-sha1|hmac-md5 b <key> <msg>     HMAC_XXX_Buf                -> ok <digest> -
     pbkdf2 <passwd> <salt> <c> <dkLen>        PBKDF2_SHA256                      -> ok <bytes> -
     xform-sha256|xform-sha1|xform-md5 <state words as bytes, big endian> <block>  one Transform -> ok <state> -
     resume-sha256|resume-sha1|resume-md5 <state> <c0 hex> <c1 hex> <buf> <part>*
        context given whole (sha256: count = c0; sha1/md5: count[0] = c0, count[1] = c1), Update per part, Final
        -> ok <digest>/<64-bit bit count after each Update, 16 hex digits>/... z|nz
   z = every field of the context returned by Final is zero.
   With a "spec" prefix the standard's function is evaluated instead (flag field "-"). *)
let zf b = if b then "z" else "nz"
let out dg flag = print_endline ("ok " ^ hex_of_bytes dg ^ " " ^ flag)
let stream init update final is_zero parts =
  let c = List.fold_left (fun c p -> update c (bytes_of_hex p)) init parts in
  let (dg, c') = final c in out dg (zf (is_zero c'))
let rec words_of_bytes = function
  | a :: b :: c :: d :: r ->
    n_of_int ((int_of_n a lsl 24) lor (int_of_n b lsl 16) lor (int_of_n c lsl 8) lor int_of_n d) :: words_of_bytes r
  | _ -> []
let bytes_of_words ws =
  List.concat_map (fun w -> let v = int_of_n w in
    [n_of_int ((v lsr 24) land 255); n_of_int ((v lsr 16) land 255); n_of_int ((v lsr 8) land 255); n_of_int (v land 255)]) ws
let pad_hex w s = if String.length s >= w then s else String.make (w - String.length s) '0' ^ s
let resume ctx0 update final is_zero count_str parts =
  let (c, counts) = List.fold_left (fun (c, acc) p -> let c' = update c (bytes_of_hex p) in (c', acc ^ "/" ^ count_str c'))
      (ctx0, "") parts in
  let (dg, c') = final c in
  print_endline ("ok " ^ hex_of_bytes dg ^ counts ^ " " ^ zf (is_zero c'))
let spec_resume digest bits parts =
  let ps = List.map bytes_of_hex parts in
  let counts = String.concat "" (List.map (fun b -> "/" ^ pad_hex 16 (hex_of_n b)) (md_counts bits ps)) in
  print_endline ("ok " ^ hex_of_bytes (digest (List.concat ps)) ^ counts ^ " -")
let join64 hi lo = n_of_hex (pad_hex 8 (hex_of_n hi) ^ pad_hex 8 (hex_of_n lo))
let () = iter_lines (fun line ->
  match split_ws line with
  | "sha256" :: "s" :: parts -> stream sha256_init sha256_update sha256_final c256_is_zero parts
  | "sha1" :: "s" :: parts -> stream sha1_init sha1_update sha1_final c32_is_zero parts
  | "md5" :: "s" :: parts -> stream md5_init md5_update md5_final c32_is_zero parts
  | ["sha256"; "b"; m] -> out (sha256_buf (bytes_of_hex m)) "-"
  | ["sha1"; "b"; m] -> out (sha1_buf (bytes_of_hex m)) "-"
  | ["md5"; "b"; m] -> out (md5_buf (bytes_of_hex m)) "-"
  | "hmac-sha256" :: "s" :: k :: parts ->
    stream (hmac256_init (bytes_of_hex k)) hmac256_update hmac256_final hctx256_is_zero parts
  | "hmac-sha1" :: "s" :: k :: parts ->
    stream (hmacsha1_init (bytes_of_hex k)) hmacsha1_update hmacsha1_final hctx32_is_zero parts
  | "hmac-md5" :: "s" :: k :: parts ->
    stream (hmacmd5_init (bytes_of_hex k)) hmacmd5_update hmacmd5_final hctx32_is_zero parts
  | ["hmac-sha256"; "b"; k; m] -> out (hmac256_buf (bytes_of_hex k) (bytes_of_hex m)) "-"
  | ["hmac-sha1"; "b"; k; m] -> out (hmacsha1_buf (bytes_of_hex k) (bytes_of_hex m)) "-"
  | ["hmac-md5"; "b"; k; m] -> out (hmacmd5_buf (bytes_of_hex k) (bytes_of_hex m)) "-"
  | ["pbkdf2"; p; s; c; dk] ->
    (match pbkdf2_sha256 (bytes_of_hex p) (bytes_of_hex s) (n_of_hex c) (n_of_int (int_of_string dk)) with
     | Ok o -> out o "-"
     | Fault -> print_endline "fault" | AssertFail -> print_endline "assert" | OutOfFuel -> print_endline "fuel")
  | ["xform-sha256"; st; b] -> out (bytes_of_words (sha256_transform (words_of_bytes (bytes_of_hex st)) (bytes_of_hex b))) "-"
  | ["xform-sha1"; st; b] -> out (bytes_of_words (sha1_transform (words_of_bytes (bytes_of_hex st)) (bytes_of_hex b))) "-"
  | ["xform-md5"; st; b] -> out (bytes_of_words (md5_transform (words_of_bytes (bytes_of_hex st)) (bytes_of_hex b))) "-"
  | "resume-sha256" :: st :: c0 :: _ :: bf :: parts ->
    resume { c256_state = words_of_bytes (bytes_of_hex st); c256_count = n_of_hex c0; c256_buf = bytes_of_hex bf }
      sha256_update sha256_final c256_is_zero (fun c -> pad_hex 16 (hex_of_n c.c256_count)) parts
  | "resume-sha1" :: st :: c0 :: c1 :: bf :: parts ->
    resume { c32_state = words_of_bytes (bytes_of_hex st); c32_count0 = n_of_hex c0; c32_count1 = n_of_hex c1; c32_buf = bytes_of_hex bf }
      sha1_update sha1_final c32_is_zero (fun c -> pad_hex 8 (hex_of_n c.c32_count0) ^ pad_hex 8 (hex_of_n c.c32_count1)) parts
  | "resume-md5" :: st :: c0 :: c1 :: bf :: parts ->
    resume { c32_state = words_of_bytes (bytes_of_hex st); c32_count0 = n_of_hex c0; c32_count1 = n_of_hex c1; c32_buf = bytes_of_hex bf }
      md5_update md5_final c32_is_zero (fun c -> pad_hex 8 (hex_of_n c.c32_count1) ^ pad_hex 8 (hex_of_n c.c32_count0)) parts
  (* ---- the standards' functions ---- *)
  | "spec" :: "resume-sha256" :: st :: c0 :: _ :: bf :: parts ->
    let bits = n_of_hex c0 in
    spec_resume (sHA256_resume_spec (words_of_bytes (bytes_of_hex st)) bits (bytes_of_hex bf)) bits parts
  | "spec" :: "resume-sha1" :: st :: c0 :: c1 :: bf :: parts ->
    let bits = join64 (n_of_hex c0) (n_of_hex c1) in
    spec_resume (sHA1_resume_spec (words_of_bytes (bytes_of_hex st)) bits (bytes_of_hex bf)) bits parts
  | "spec" :: "resume-md5" :: st :: c0 :: c1 :: bf :: parts ->
    let bits = join64 (n_of_hex c1) (n_of_hex c0) in
    spec_resume (mD5_resume_spec (words_of_bytes (bytes_of_hex st)) bits (bytes_of_hex bf)) bits parts
  | "spec" :: "sha256" :: _ :: parts -> out (sHA256_spec (List.concat_map bytes_of_hex parts)) "-"
  | "spec" :: "sha1" :: _ :: parts -> out (sHA1_spec (List.concat_map bytes_of_hex parts)) "-"
  | "spec" :: "md5" :: _ :: parts -> out (mD5_spec (List.concat_map bytes_of_hex parts)) "-"
  | "spec" :: "hmac-sha256" :: _ :: k :: parts -> out (hMAC_SHA256_spec (bytes_of_hex k) (List.concat_map bytes_of_hex parts)) "-"
  | "spec" :: "hmac-sha1" :: _ :: k :: parts -> out (hMAC_SHA1_spec (bytes_of_hex k) (List.concat_map bytes_of_hex parts)) "-"
  | "spec" :: "hmac-md5" :: _ :: k :: parts -> out (hMAC_MD5_spec (bytes_of_hex k) (List.concat_map bytes_of_hex parts)) "-"
  | ["spec"; "pbkdf2"; p; s; c; dk] ->
    out (pBKDF2_SHA256_spec (bytes_of_hex p) (bytes_of_hex s) (n_of_hex c) (n_of_int (int_of_string dk))) "-"
  | ["spec"; "xform-sha256"; st; b] -> out (bytes_of_words (f256_compress (words_of_bytes (bytes_of_hex st)) (bytes_of_hex b))) "-"
  | ["spec"; "xform-sha1"; st; b] -> out (bytes_of_words (f1_compress (words_of_bytes (bytes_of_hex st)) (bytes_of_hex b))) "-"
  | ["spec"; "xform-md5"; st; b] -> out (bytes_of_words (r5_compress (words_of_bytes (bytes_of_hex st)) (bytes_of_hex b))) "-"
  | _ -> print_endline "bad-case")
