(* case lines (numbers are hex with an optional '-', strings are hex bytes without the NUL, "-" = empty):
     pn <site> <form> <kind> <width> <min> <max> <base> <trailing> <strhex>
          -> OK <hex value> | EINVAL <hex stored> | ERANGE <hex stored> | fault | assert | fuel
          form = p2 | p4 | ex4 | ex6 (p2/ex4 have no bounds: "-"), kind = u | s
     pf <site> <form> f <width> <minbits> <maxbits> <base> <trailing> <strhex>
        <consumed> <erange> <lt_min> <gt_max> <class> <dbits>
          -> OK <tok> | EINVAL <tok> | ERANGE <tok> | oracle-mismatch
          strtod's answer is data: characters consumed, its own ERANGE, and the double it returned as 16
          hex digits (or "nan"); the comparisons with the bounds (binary64 patterns, "-" = none) and the
          class are computed by the model from those bits and must agree with the ones on the line;
          tok = the pattern of *x afterwards (8 hex digits for a float target - the model's own
          narrowing - 16 for a double) or "nan"
     hs <hex n>     -> ok <hex of the string>
     hp <strhex>    -> 0 <hex size> | -1 <hex size>
   with a "spec" prefix the independent spec is evaluated instead of the model:
     spec pn ...    -> OK <hex value> | EINVAL | ERANGE
     spec hs <n>    -> ok <hex of the string>
     spec hp <s>    -> 0 <hex size> | -1 *)
let show_res f = function
  | Ok a -> f a
  | Fault -> "fault" | AssertFail -> "assert" | OutOfFuel -> "fuel"

let kind_of = function "u" -> KUnsigned | "s" -> KSigned | "f" -> KFloat | _ -> failwith "kind"
let zdec s = z_of_int (int_of_string s)
let sd_none = { sd_consumed = O; sd_erange = false; sd_lt_min = false; sd_gt_max = false; sd_bits = Z0 }
let pad n s = if Stdlib.String.length s >= n then s else Stdlib.String.make (n - Stdlib.String.length s) '0' ^ s
let cstr s = bytes_of_hex s @ [N0]

let show_outcome o =
  match o.o_errno with
  | ENone -> "OK " ^ hex_of_z o.o_stored
  | EInval -> "EINVAL " ^ hex_of_z o.o_stored
  | ERange -> "ERANGE " ^ hex_of_z o.o_stored

let run_macro form t buf mn mx base tr sd =
  match form with
  | "p2" | "ex4" -> parsenum_ex4 t buf base tr sd
  | "p4" | "ex6" -> parsenum_ex6 t buf (z_of_hex mn) (z_of_hex mx) base tr sd
  | _ -> failwith "form"

let () = iter_lines (fun line ->
  match split_ws line with
  | ["pn"; _; form; k; w; mn; mx; base; tr; s] ->
    let t = { ck = kind_of k; cw = zdec w } in
    print_endline (show_res show_outcome (run_macro form t (cstr s) mn mx (zdec base) (tr = "1") sd_none))
  | ["spec"; "pn"; _; form; k; w; mn; mx; base; tr; s] ->
    let r = (match form with
        | "p2" | "ex4" -> parse_spec_nobounds (zdec w) (zdec base) (tr = "1") (bytes_of_hex s)
        | _ -> parse_spec (kind_of k) (zdec w) (z_of_hex mn) (z_of_hex mx) (zdec base) (tr = "1") (bytes_of_hex s)) in
    print_endline (match r with OkV v -> "OK " ^ hex_of_z v | EINVAL -> "EINVAL" | ERANGE -> "ERANGE")
  | ["pf"; _; form; k; w; mnb; mxb; base; tr; s; consumed; erange; lt; gt; cls; tok] ->
    let t = { ck = kind_of k; cw = zdec w } in
    let bits = if tok = "nan" then z_of_hex "7ff8000000000000" else z_of_hex tok in
    let fmin = if mnb = "-" then z_of_hex "fff0000000000000" else z_of_hex mnb in
    let fmax = if mxb = "-" then z_of_hex "7ff0000000000000" else z_of_hex mxb in
    let sd = mk_sd (nat_of_int (int_of_string consumed)) (erange = "1") bits fmin fmax in
    let c = (match sd_class sd with FInf -> "inf" | FNan -> "nan" | FFinite -> "fin") in
    if sd.sd_lt_min <> (lt = "1") || sd.sd_gt_max <> (gt = "1") || c <> cls then print_endline "oracle-mismatch"
    else
      let show o =
        (match o.o_errno with ENone -> "OK " | EInval -> "EINVAL " | ERange -> "ERANGE ") ^
        (match decode_w t.cw o.o_stored with
         | VNan -> "nan"
         | _ -> pad (if t.cw = zdec "32" then 8 else 16) (hex_of_z o.o_stored)) in
      print_endline (show_res show (run_macro form t (cstr s) "0" "0" (zdec base) (tr = "1") sd))
  | ["hs"; n] -> print_endline (show_res (fun l -> "ok " ^ hex_of_bytes l) (humansize_repo (z_of_hex n)))
  | ["spec"; "hs"; n] -> print_endline ("ok " ^ hex_of_bytes (hs_format_spec (z_of_hex n)))
  | ["hp"; s] ->
    print_endline (show_res (fun (rc, size) -> (if rc = Z0 then "0 " else "-1 ") ^ hex_of_z size)
                     (humansize_parse_repo (cstr s)))
  | ["spec"; "hp"; s] ->
    print_endline (match hs_parse_spec (bytes_of_hex s) with Some v -> "0 " ^ hex_of_z v | None -> "-1")
  | _ -> print_endline "bad-case")
