from props.common import run_all as run  # noqa: F401

META = {'claimed': True,
 'title': 'Allocation failure is reported, leaves objects unchanged and leaks nothing',
 'level_text': 'proof for the containers, partial proof + fault enumeration for registrations and I/O: the allocator is an oracle answering every malloc/realloc of the models in program order and '
               'the theorems hold for EVERY oracle (k-th failure, persistent failure, all-refusing). Elastic array / queue / sequential map: a refused request -> the documented error value, every '
               'field of the state equal to the state before, invariant intact so the object stays usable (C14_ea/eq/spm_fail_unchanged); conversely error value -> refused for queue and map '
               '(C14_eq/spm_fail_iff), and for the array error value <-> refused or byte count not representable in size_t (C14_ea_fail_iff, C14_ea_error_without_refusal); shrink, delete and free '
               'return normally with their ideal result under every oracle (C14_*_infallible); block accounting on a ghost heap of block SIZES - allocations and frees balance per size, nothing '
               'leaked, no free without a live block of that size, whole programs (C14_ea/eq/spm_run_no_leak); a double free among equal-sized live blocks is not distinguishable in the proof and is '
               'covered only by the pointer-keyed wrapped allocator + ASan in the correspondence run. Pointer heap and timer queue: refusal <-> NULL/-1 with the heap unchanged and nothing notified '
               '(C14_ptrheap_add_fail_unchanged, C14_tq_add_fail_unchanged), deletions/getptr infallible under the all-refusing oracle with full C13 meaning, per-call block accounting and free '
               "releasing everything (C14_*_acct). Event registrations (partial): a refused register call is modelled with the state the C's unwinding leaves at each refusal point (init done / "
               'socket list grown / err1 record removed / timer queue created); nothing another call can read has changed except that an empty timer queue may exist, invariants intact, the call is '
               'never invoked and does not block a later registration, all continuations covered by C04/C05 (C14_events_failed_registration_*_partial); that the C unwinds this way, the '
               'allocation-to-oracle mapping, retry success and leaks: enumeration only. Network/netbuf (partial): the network_read/accept constructors are model definitions only (decided by the '
               'allocation-failure exploration); netbuf_write_reserve failure leaves the writer unchanged (repaired defect F6, regression theorem); netbuf_read_wait returns -1 exactly when a needed '
               'allocation/registration is refused, with view and pending state unchanged (C14_reader_wait_failure_clean). 40 theorems. What the models do not carry (which C allocation maps to which '
               'oracle answer inside mpool/elastic internals, failure inside callbacks, leak-freedom through the whole I/O, HTTP, AWS and key-file stacks, no crash) is decided by enumeration on the '
               'compiled code: every allocation index of every operation refused once and persistently (wrapped malloc/realloc/strdup/asprintf), documented return value checked, retry must succeed, '
               'LeakSanitizer + exit-time block accounting per forked case; the HTTPS entry point (https_request set-up with the real https.c / netbuf_ssl.c / network_ssl*.c linked, every allocation refused, the request cancelled at once); operations that return void (crypto_aesctr_stream / _buf) run with every allocation refused.',
 'level_note': 'Trusted: Coq kernel; hand-written models bound by differential execution; the correspondence of oracle positions to real allocation sites is by enumeration, not proof; LeakSanitizer '
               'for leak verdicts in the I/O stacks. Print Assumptions: closed under the global context.',
 'trusted_base': ['allocation wrappers (--wrap=malloc,realloc,calloc,strdup,...) in the drivers', 'LeakSanitizer'],
 'assumptions': ['callers release objects with their normal free/cancel calls after a reported failure']}
