from props.common import run_all as run  # noqa: F401

META = {'claimed': True,
 'title': 'Diffie-Hellman: exact group-14 exponentiation, agreement, blinding-independent',
 'level_text': 'proof: crypto_dh.c is modelled over Z (constants and the group-14 table regenerated from the C; the table is proved to be the RFC 3526 prime). For EVERY base a, 32-byte private '
               'value, 32-byte blinding value delivered by the entropy source and prior content of the output buffer, blinded_modexp returns the 256-byte big-endian encoding of a^(2^258+priv) mod p '
               '(C10_blinded_modexp_correct; the two exponents handed to BN_mod_exp are positive and sum to 2^258+priv); public value = 2^(2^258+x) mod p, shared key = y^(2^258+x) mod p '
               '(C10_generate_pub_correct, C10_compute_correct, C10_generate_correct); two parties always agree whatever the four blinding values (C10_agreement); the result is independent of the '
               'blinding (C10_blinding_independent); entropy failure is reported; the sanity check accepts exactly the values numerically below p, via memcmp = numeric order on equal-length '
               'big-endian strings (C10_sanitycheck_iff). 16 theorems over all of Z / all byte strings. Bound to the C by the correspondence run (OpenSSL build, entropy interposed): implementation '
               'output = model evaluated inside coqc with a BigN evaluator proved equal to the Z model (C10_bridge_*), edge values 0, 1, p-1, p, p+1, 2^2048-1, random.',
 'level_note': 'Trusted: Coq kernel + vm_compute; OpenSSL BN_mod_exp / BN_mod_mul / BN_bin2bn / BN_bn2bin at their documented meaning (a^e mod m, a*b mod m) - they are oracles, compared on every '
               "case; translator x_dhdrbg.py. Print Assumptions: the main theorems are closed under the global context; the three C10_bridge_* theorems rest on the standard library's primitive "
               '63-bit integer axioms (Uint63, via Bignums BigN), listed in the evidence file.',
 'trusted_base': ['OpenSSL bignum arithmetic at its documented meaning', 'Coq primitive Uint63 axioms for the BigN evaluator used by the correspondence run only'],
 'assumptions': ['private values and blinding values are 32 bytes as the interface fixes']}
