from props.common import run_all as run  # noqa: F401

META = {'claimed': True,
 'title': 'Event loop: a callback runs at most once, only while registered, only when due',
 'level_text': 'proof: events/events.c, events_immediate.c, events_network.c, events_timer.c and the timer queue are modelled as an executable state machine (constants regenerated from the C) driven '
               'by a program (what each callback does at each of its invocations: register / cancel / reset of any kind, from outside and from inside callbacks), an external call sequence, a '
               "poll-answer schedule and a clock schedule. The inductive invariant EvInv (DESIGN Appendix B) is proved over all of them: every trace of the model is accepted by the specification's "
               'checker (C04_model_traces_accepted) and the checker is sound for the logical statement (C04_check_sound); corollaries for every program and schedule: no registration id is invoked '
               'twice (C04_invoke_at_most_once), every invoke is preceded by its register with no cancel and no earlier invoke (C04_invoke_only_while_registered), EEXIST only while a registration is '
               'live so a fired or cancelled one can be made again (C04_reregistrable), a descriptor callback runs only if a poll issued after its registration reported that direction or the latest '
               'poll reported ERR/HUP (C04_socket_invoke_justified), a timer never runs before registration-or-reset reading + timeout, with no monotonicity assumption (C04_timer_not_early). The '
               'model never answers Fault for any program, call sequence, schedule and fuel (C04_model_never_faults, no hypotheses) and an assert of the C fails only for prio >= 32 or fd >= INT_MAX '
               '(C04_model_asserts_only_outside_contract, with both limits shown real), so every run inside that contract returns a trace the theorems speak about or runs out of fuel '
               '(C04_model_run_or_out_of_fuel). 12 theorems, unbounded in program length, number of registrations and schedule. Bound to the C by the correspondence run: generated programs (cancel '
               'under the scan cursor, both directions on one descriptor, resets, ties) run on the real event loop with poll(2) and the clock interposed; implementation trace = model trace, and the '
               "extracted checker is evaluated on the IMPLEMENTATION's trace.",
 'level_note': 'Trusted: Coq kernel; hand-written Gallina model of events*.c bound by differential execution (ASan/UBSan, interposed poll/clock_gettime); timevals normalised (tv_usec < 10^6) as '
               'monoclock_get delivers; theorems hold for every fuel (OutOfFuel = no trace; Events/EventsExamples.v exhibits a run in which all three kinds fire). Print Assumptions: closed under the '
               'global context. Event records are values in the model: mpool recycling / pointer aliasing of records is trusted to the differential run (ASan).',
 'trusted_base': ['interposition of poll(2) and clock_gettime in harness/drv_events.c', 'tools/extract/x_events.py'],
 'assumptions': ['clock readings and timeouts are normalised timevals', 'callers pass descriptors below the poll-array limits the library documents']}
