from props.common import run_all as run  # noqa: F401

META = {'claimed': True,
 'title': 'Random generator is HMAC_DRBG(SHA-256) over OS entropy, reseeded on schedule',
 'level_text': "proof: crypto_entropy.c (statics, instantiate, update, reseed, generate, the 65536-byte chunk loop) and util/entropy.c's read loop are modelled with constants regenerated from the C "
               '(proved to be interval 256, max 65536, seed 48/32, separators 0/1, ...). For ALL request sequences, ALL initial statics and ALL entropy oracles the model never aborts and its '
               'per-call results, final (Key, V, reseed_counter, instantiated) and oracle consumption equal those of the SP 800-90A 10.1.2 HMAC_DRBG machine (C11_drbg_refines_spec, parametric in '
               "HMAC; C11_generator_is_hmac_drbg_sha256 with the HMAC hypotheses discharged by C01's theorems for alg/sha256.c); a request of n bytes makes exactly ceil(n/65536) generate calls "
               '(C11_generate_count); fresh entropy is mixed in exactly before generate calls 257, 513, ... (C11_reseed_schedule); every generate ran seeded with reseed_counter <= 256, entropy reads '
               "are the oracle's answers in order, a call fails iff one of its entropy reads failed, a failed instantiation leaves the statics untouched, and success implies a successful 48-byte "
               'instantiate in the history (C11_no_unseeded_output, C11_call_facts). 11 theorems, unbounded in history. Bound to the C by the correspondence run (entropy source interposed with '
               'scripted bytes and failures at every position; request sizes around 65536 multiples; > 256 generate calls; output = model = spec).',
 'level_note': 'Trusted: Coq kernel; hand-written model bound by differential execution; the transcription of SP 800-90A 10.1.2 in Crypto/DrbgSpec.v; the OS entropy source is an oracle (list of read '
               'answers). Print Assumptions: closed under the global context.',
 'trusted_base': ['transcription of SP 800-90A HMAC_DRBG in coq/Crypto/DrbgSpec.v', 'interposed entropy source in the driver'],
 'assumptions': []}
