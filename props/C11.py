from props.common import run_all as run  # noqa: F401

META = {'claimed': True,
 'title': 'Random generator is HMAC_DRBG(SHA-256) over OS entropy, reseeded on schedule',
 'level_text': 'proof: crypto_entropy.c (statics, instantiate, update, reseed, generate, the 65536-byte chunk loop) and util/entropy.c in full (entropy_read_init/fill/done and the one-shot '
               'entropy_read, over scripted answers of open/read/close) are modelled with constants regenerated from the C (proved to be interval 256, max 65536, seed 48/32, separators 0/1, ...). '
               'For ALL request sequences, ALL initial statics and ALL entropy oracles the model never aborts and its per-call results, final (Key, V, reseed_counter, instantiated) and oracle '
               'consumption equal those of the SP 800-90A 10.1.2 HMAC_DRBG machine (C11_drbg_refines_spec, parametric in HMAC; C11_generator_is_hmac_drbg_sha256 with the HMAC hypotheses discharged '
               "by C01's theorems for alg/sha256.c); a request of n bytes makes exactly ceil(n/65536) generate calls (C11_generate_count); fresh entropy is mixed in exactly before generate calls "
               "257, 513, ... (C11_reseed_schedule); every generate ran seeded with reseed_counter <= 256, entropy reads are the oracle's answers in order, a call fails iff one of its entropy reads "
               'failed, a failed instantiation leaves the statics untouched, and success implies a successful 48-byte instantiate in the history (C11_no_unseeded_output, C11_call_facts). '
               'entropy_read returns 0 iff open succeeded, at least n bytes arrived before the first read error/EOF (short reads tolerated) and close succeeded (C11_entropy_read_wrapper, '
               'C11_entropy_read_fill_exact / _succeeds / _fails_why); the generator composed over it equals SP 800-90A fed with the bytes the sessions delivered and fails a call exactly when one of '
               'its sessions failed (C11_generator_with_os_entropy, C11_os_call_facts). 21 theorems, unbounded in history. The HMAC/DRBG theorems are over the portable SHA-256 transform model; every '
               'accelerated configuration of sha256.c is proved equal to it under C03 and run as a lower layer of this check. Bound to the C by the correspondence run (the real util/entropy.c linked '
               'with open/read/close interposed: short reads, EOF, errors at every byte position of the instantiation and of both reseeds, open/close failures; request sizes around 65536 multiples; '
               '> 256 generate calls; output = model = spec).',
 'level_note': 'Trusted: Coq kernel; hand-written model bound by differential execution; the transcription of SP 800-90A 10.1.2 in Crypto/DrbgSpec.v; the kernel behind the interposed open/read/close '
               'is an oracle; malloc in entropy_read_init is assumed to succeed. Print Assumptions: closed under the global context.',
 'trusted_base': ['transcription of SP 800-90A HMAC_DRBG in coq/Crypto/DrbgSpec.v', 'interposed entropy source in the driver'],
 'assumptions': []}
