from props.common import run_all as run  # noqa: F401

META = {'claimed': True,
 'title': 'HTTP client is memory-safe and terminates cleanly on any server byte stream',
 'level_text': 'proof: http/http.c (gotheaders, header-end search with hepos, status line, header split/trim, framing selection, chunk-size lines through a model of strtoumax on checked memory, body '
               'accumulation against the limit) is modelled on top of the netbuf reader semantics, limits and literals regenerated from the C. For EVERY server byte stream, EVERY segmentation (incl. '
               'EAGAIN rounds), EVERY ending (EOF, error, stall), EVERY body limit < 2^64, HEAD or not, and EVERY initial reader geometry: the model never Faults (no read/write outside an object) '
               'and no assert fails (C08_http_never_faults), the script-derived fuel is never exhausted (C08_http_terminates), exactly one callback is made unless the connection stalls with the '
               'request still pending (C08_http_one_callback*), and every response handed out has status in 100..599 and either a body of exactly bodylen <= limit bytes (NULL iff 0) or bodylen = '
               '(size_t)(-1) with no buffer (C08_http_result_bounds, C08_cb_ok_meaning). Every well-formed response (HttpSpec.wf_response) whose body exceeds the limit produces, for every '
               "segmentation, reader geometry and connection ending, exactly one callback carrying the response's status and headers, bodylen = (size_t)(-1) and no buffer "
               '(C08_oversized_body_reported; per framing C08_oversized_clen/_chunked/_close; both sides of the limit C08_limit_respected); for streams that are not well-formed responses only the '
               'shape of the result is proved (C08_http_result_bounds). Checked memory covers the chunk-size parse object, the addbody copy bound and the unwritten `chunked` field; the other '
               'accesses are in-window by construction with their asserts. 13 theorems. Regression theorem for repaired defect F2 (the step without the NUL termination over-reads). Leak-freedom and '
               "'none if cancelled' are outside the model: decided by the correspondence run (real http.c+netbuf+network+events, scripted kernel, ASan+LeakSanitizer per forked case, cancel at every "
               "step) which also compares implementation and model on hostile/truncated/mutated streams and evaluates the bounds predicate on the implementation's callback data.",
 'level_note': 'Trusted: Coq kernel; hand-written model bound by differential execution; sscanf of the status line and strtoumax modelled per glibc 2.36 (DESIGN Appendix A, sampled on every run); '
               "netbuf reader per C07; memory-safety is of the model's checked memory (the C's is observed under ASan); leaks and cancellation by LeakSanitizer only. Print Assumptions: closed under "
               "the global context. Allocation failure is not in this model (the die() paths are C14's subject).",
 'trusted_base': ['Gallina model of sscanf("HTTP/%d.%d %d") and strtoumax per glibc 2.36', 'tools/extract/x_http.py', 'scripted kernel'],
 'assumptions': ['the reader starts in a state netbuf_read can be in (rdr_ok; the init state is shown to satisfy it)']}
