from props.common import run_all as run  # noqa: F401

META = {'claimed': True,
 'title': 'Digests, HMACs, PBKDF2 and CRC32C equal their specified functions',
 'level_text': 'proof: alg/sha256.c, sha1.c, md5.c (portable paths) and alg/crc32c.c are modelled in Gallina and instantiated with the round constants, IVs, per-round macro tuples, padding and CRC '
               'masks/polynomial REGENERATED from the C text on every run. 22 theorems: the three block transforms equal the compression functions of FIPS 180-4 / RFC 3174 / RFC 1321 for every state '
               'and block (C01_transforms_are_the_standards_compression_functions); Init/Update*/Final over EVERY partition and EVERY length equals the standard on the concatenation, one-shot = '
               'streaming (C01_sha256/sha1_correct_all_lengths, C01_md5_correct), also from any well-formed context incl. the carry between the 32-bit count words and the 2^64 wrap '
               '(C01_resume_from_any_context_correct); HMAC-SHA256/SHA1/MD5 = RFC 2104 for every key length (hashed-key branch) and partition; PBKDF2-HMAC-SHA256 = RFC 8018 for 1 <= c < 2^64-1 and '
               "every dkLen the assert admits (C01_pbkdf2_correct; c=0 behaves as c=1). CRC32C: init()'s tables are i*x^(8(k+1)) mod P, table step = 8 bit-serial steps, slice-by-4 = 4 byte steps, "
               'and for every byte string and every Update partition the bit string 1||data||crc (LSB first) is a multiple of the Castagnoli polynomial (C01_crc32c_algebraic_every_partition), with '
               'pmod proved to be carry-less remainder. Unbounded in message/key length and partition. Bound to the compiled C by the correspondence run (ASan/UBSan build: digests, HMACs, PBKDF2, '
               'raw transforms, resumed contexts; implementation = extracted model = extracted standard; lengths around every block/padding boundary, partitions incl. empty calls, keys around 64 '
               'bytes).',
 'level_note': 'Trusted: Coq kernel + vm_compute (table equalities); translator tools/extract/x_hash.py, x_crc.py; the C control flow is modelled by hand and bound by differential execution only; '
               "the word vocabulary (add32, rotr32, be32dec: Alg/Words.v) is shared by model and spec (its arithmetic meaning is proved in WordsProofs.v and the specs are run on the standards' test "
               'vectors in HashExamples.v); the transcription of the standards in Alg/*Spec.v. c = 2^64-1 makes the C loop forever (model: OutOfFuel, excluded by the theorem). Accelerated transforms '
               "are C03's subject. Print Assumptions: closed under the global context.",
 'trusted_base': ["transcriptions of FIPS 180-4, RFC 3174, RFC 1321, RFC 2104, RFC 8018 in coq/Alg/*Spec.v (run on the standards' vectors)", 'tools/extract/x_hash.py, x_crc.py'],
 'assumptions': ['callers pass contexts produced by Init/Update (well-formed contexts)', 'PBKDF2 iteration count below 2^64-1']}
