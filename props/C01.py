from props.common import run_all as run  # noqa: F401

META = {"claimed": False, "reason": "check not built yet (work in progress; the technique applies, see DESIGN.md section 5)"}
