from props.common import run_all as run  # noqa: F401

META = {'claimed': True,
 'title': 'Asynchronous read/write/connect/accept complete exactly once, byte-exact',
 'level_text': 'proof: network_read.c, network_write.c, network_accept.c, network_connect.c are mirrored as state machines whose retry errno sets are REGENERATED from the C (proved to be exactly '
               '{EAGAIN,EWOULDBLOCK,EINTR} resp. + ECONNABORTED for accept). For every 0 < buflen, min <= buflen and EVERY sequence of kernel answers (any fragmentation, any errno, EOF anywhere) '
               'paired with re-registration outcomes: the read makes its single callback at the first terminal answer and consumes nothing after it, value n = all bytes received with min <= n <= '
               'buflen, or 0, or -1, buffer = received bytes in order followed by its untouched rest, every recv asked for exactly the rest of the buffer at the current offset '
               '(C06_read_exactly_once, C06_read_requests_exact); the same for write with the bytes handed to send being exactly firstn n buf (C06_write_exactly_once); cancel: in the single-request '
               'machines nothing is observed afterwards and there is at most one callback in any history (C06_cancel_silences, C06_read/write/accept_callback_at_most_once), and composed over the '
               'executable world NetWorld for EVERY script: at most one request per (descriptor, direction), after a cancel no callback of that request unless it was started again, callbacks never '
               'outnumber successful starts, a cancel frees the slot and the next request on it is accepted (C06_slots_exclusive, C06_cancel_silences_composed, C06_callbacks_le_starts_composed, '
               'C06_cancel_frees_slot, C06_restart_after_cancel); connect over EVERY address list and outcome order with or without timeout: exactly one callback carrying the first socket that '
               'connected or none, addresses tried in order, every created socket but the winner closed, timers and registrations balanced (C06_connect_first_success), cancel safe in every reachable '
               'state; accept: exactly one callback at the first non-retry answer (C06_accept_once). 30 theorems, unbounded in answer-sequence length and address-list length. Bound to the C by the '
               'correspondence run on the real events+network stack with a scripted kernel (recv/send/accept/connect/socket/close/poll/getsockopt wrapped; one forked child per case; ASan) and an '
               "independent predicate checker evaluated on the implementation's log.",
 'level_note': 'Trusted: Coq kernel; hand-written models bound by differential execution; the kernel is an oracle (hypotheses kernel_ok/wkernel_ok: recv/send return at most what was asked, send '
               "never 0 for a non-zero length); readiness delivery at most once per registration is C04's theorem; when re-arming fails in accept the code reports through the loop's return value "
               "(documented, DESIGN section 6 'not findings'). Print Assumptions: closed under the global context. network_write.c is run in both build configurations (default and "
               '-DPOSIXFAIL_MSG_NOSIGNAL with MSG_NOSIGNAL undefined) against the one write machine, with the flags and the SIGPIPE disposition of every send() checked. The C event loop is tied to '
               'NetWorld by the correspondence run only. Not covered by a theorem: the entry functions network_read/write/accept (theorems start from the request record); the SSIZE_MAX asserts;. '
               'C06_connect_first_success assumes every registration succeeds, getsockopt succeeds, the user callback returns 0, and no_hang / wf_outcome for the addresses actually reached.',
 'trusted_base': ['scripted kernel harness/wrap_net.c', 'tools/extract/x_net.py'],
 'assumptions': ['kernel answers respect the POSIX contracts of recv/send (kernel_ok)', 'an address that never answers needs the per-address timeout (no_hang), otherwise the request rightly waits']}
