from props.common import run_all as run  # noqa: F401

META = {'claimed': True,
 'title': 'Parsers of untrusted text and bytes never touch memory outside their input',
 'level_text': 'proof: every parser is modelled on CHECKED memory (a read or write outside the object, or past the NUL of a C string, is Fault; loops run on fuel) and proved to return Ok for EVERY '
               'input. json_find: for every byte string and key, no fault, fuel suffices at every nesting depth, result offset in [0, len] (C15_json_find_total, C15_json_skip_value_total; '
               "regression: the pre-repair code over-reads on the F1 witness); base-64 decoder/encoder stay within input and the contract's output size, outlen within it (C15_b64decode_no_fault, "
               'C15_b64encode_no_fault); unhexify reads only its string, and on an unterminated block only its first 2*len bytes (C17_unhexify_exact, C15_unhexify_reads_only_2len in '
               "Properties_C17_hex.v); PARSENUM_EX (all widths, bounds, bases, trailing), parsenum_float's wrapper and humansize_parse finish Ok on every NUL-terminated string with accepted values "
               'inside bounds and type (C15_parsenum_*_safe, C15_humansize_parse_safe); sock_resolve / sock_addr_ensure_port on every string, sock_addr_deserialize reads only buflen bytes whatever '
               'the length field says (C15_sock_*); sock_addr_prettyprint never faults on any address value of any family, name or length, nor does decode-then-print '
               '(C15_sock_addr_prettyprint_no_fault, C15_deserialize_then_prettyprint_no_fault; regression for repaired defect F14); aws_readkeys and readpass_file for every file content and prior '
               'stack-buffer content, fgets never given more than the buffer holds (sizes regenerated) (C15_aws_readkeys_no_fault, C15_readpass_file_no_fault); getopt: every read of argv strings, '
               'the packed-option cursor, strncmp inside searchopt and optarg stays inside the terminated strings, loop terminates, final optind in range (C15_getopt_no_fault, C15_switch_no_fault: '
               'aborts iff the registration pass refuses the table, never for a well-formed one; C15_searchopt_in_bounds, C15_getopt_optind_range). 22 theorems + the hex one. Bound to the C by '
               'correspondence runs under ASan/UBSan with every input in a heap block of exactly its size (arbitrary, truncated and mutated inputs; implementation result = model result, which is '
               'proved never to fault). KNOWN FINDING F11 (listed): json_find recurses once per nesting level without a depth limit; ~262,000 unclosed brackets exhaust an 8 MiB stack - outside the '
               'Gallina model (no stack), probed on the compiled code and reported as KNOWN-FINDING.',
 'level_note': "Trusted: Coq kernel; hand-written models on checked memory bound by differential execution under ASan; libc pieces are oracles with only their bounds assumed (strtod's end pointer "
               'within the string, inet_pton fills 16 bytes, fgets per C99); machine stack depth is outside the model (F11). Print Assumptions: closed under the global context. Diagnostics '
               '(util/warnp.c) are outside the Gallina model; they are exercised under ASan in stderr and syslog modes with rejected addresses of 4000..4200, 8192 and 70000 bytes. Repaired defect '
               'F14: sock_addr_prettyprint of a decoded AF_UNIX name without NUL over-read (fix: commit in /repo).',
 'trusted_base': ['ASan/UBSan for the C side of the correspondence', 'models of strtoumax/strtoimax per glibc 2.36 (DESIGN Appendix A)'],
 'assumptions': ['inputs are NUL-terminated where the C contract says string, and (buf, len) describes one object where it says buffer']}
