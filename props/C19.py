from props.common import run_all as run  # noqa: F401

META = {'claimed': True,
 'title': 'AWS request signatures verify under an independent Signature Version 4',
 'level_text': 'proof: the model of aws_sign.c is an interpreter of the asprintf format strings, argument lists, strftime formats and HMAC chain REGENERATED from the C text on every run; four '
               'theorems (C19_s3_headers, C19_svc_headers, C19_dynamodb_headers, C19_s3_querystr) prove, for every key id / region / bucket / service / op over the unreserved alphabet, every path '
               "over unreserved+'/', every secret, body and expiry, and every time() value t with 0 <= t < 253402300800 (1970-01-01 .. 9999-12-31 UTC), that the model returns hex(SHA-256(body)) and "
               'exactly the SigV4 Authorization value / presigned query of the request documented in aws_sign.h at the returned timestamp, scope date = first 8 chars of that timestamp; S3 paths must '
               "begin with '/' (the documented request line; the spec canonicalises an empty path to '/'); for 253402300800 <= t <= gmtime_r's maximum all four functions fail "
               '(C19_far_future_rejected: date[9] too small); no theorem for t < 0 (the model follows glibc there and the run samples it); generic in the hash functions (any byte-valued '
               'sha256/hmac), so an edit of any layout breaks the proof. The order of the steps inside each function and the libc pieces are hand-modelled and bound by the correspondence run '
               '(implementation vs extracted model vs extracted spec evaluated at the returned timestamp, time() interposed; request bodies at a re-used address with other contents, every argument overwritten and freed before the results are read; the k-th allocation refused and the same request signed again - the signature after a failed call must still verify).',
 'level_note': 'Trusted: Coq kernel + vm_compute; the translator tools/extract/x_aws.py; Gallina models of asprintf(%s %d %%), gmtime_r and glibc strftime (%Y unpadded; returns 0 when the text does '
               "not fit), sampled against libc incl. years < 1000 and >= 10000; the transcription of the published SigV4 algorithm in Aws/SigV4Spec.v; SHA-256/HMAC correctness is C01's subject (the "
               'C19 theorems hold for any hash functions). Print Assumptions: closed under the global context.',
 'trusted_base': ['Gallina models of asprintf (%s %d %%), gmtime_r and strftime (%Y %m %d %H %M %S; years 1970..9999), sampled against libc by the correspondence run',
                  'transcription of the published SigV4 algorithm (Aws/SigV4Spec.v) and of the requests documented in aws_sign.h (Aws/AwsDoc.v)'],
 'assumptions': ["identifiers over the URI-unreserved alphabet, paths over unreserved + '/', as the property's quantifier states (the interface does no percent-encoding)",
                 "S3 paths begin with '/' (documented request line)"]}
