from props.common import run_all as run  # noqa: F401

META = {
    "title": "Encoders and decoders are mutually inverse and match their standards",
    "trusted_base": ["strchr modelled as first-index search in the regenerated table"],
    "assumptions": [],
    "level_text": "partial: hex codec proved (model = lowercase-hex spec; decoder exact on every C string; inverse) and tied by translator (tables) + correspondence; base-64, endian, socket-address and JSON parts not yet covered",
    "level_note": "Coq kernel; hand-written Gallina model of hexify.c bound to the C by differential execution (ASan build); strchr modelled as first-index search",
}


