from props.common import run_all as run  # noqa: F401

META = {'claimed': True,
 'title': 'Encoders and decoders are mutually inverse and match their standards',
 'level_text': 'proof: hex: hexify writes the lowercase spec + NUL, unhexify equals the spec decoder on every C string and length (either case; accepts exactly 2*len hex digits), unhexify inverts '
               'hexify (C17_hexify_is_lowercase_hex, C17_unhexify_exact, C17_unhex_accepts_exactly_hex, C17_unhexify_inverts_hexify). Base-64: the table in b64encode.c is the RFC 4648 alphabet + '
               "'='; b64encode equals RFC 4648 with padding for every byte string; b64decode equals the spec decoder on every input, accepts exactly the well-formed encodings, and decode(encode bs) "
               '= bs on the models run one after the other (C17_b64encode_eq_rfc4648, C17_b64decode_exact, C17_b64decode_accepts_iff, C17_b64decode_encode). Endian: the six store/load pairs (tables '
               'regenerated from sysendian.h) write/read the defined byte order at any offset of any object touching exactly N/8 bytes, dec(enc x) = x for x < 2^N and enc(dec bs) = bs '
               '(C17_endian_*). Socket addresses: serialise/deserialise and dup give the address back, cmp = 0 iff equal; prettyprint then resolve gives the same address for IPv4 (proved with '
               'concrete dotted-quad conversions), Unix paths, and IPv6 under the ASSUMED libc law pton6(ntop6 a) = Some a; bracketed literals with port resolve to the address they denote '
               '(C17_sock_addr_*, C17_resolve_*). JSON: on every well-formed object (any names incl. duplicates/prefixes/escapes/\\u, any values, any whitespace, any trailing bytes) and key, '
               'json_find returns the offset of the value of the FIRST member whose decoded name equals the key (names with \\u never match), else the end; also for every RFC 8259-valid object '
               '(C17_json_find_correct, C17_json_find_correct_rfc8259, C17_json_find_spec_meaning; regression example for repaired defect F5). 32 theorems, unbounded in lengths and nesting. Bound to '
               "the C by correspondence runs (ASan; implementation = extracted model = Coq spec = Python's base64/struct/socket/json as a fourth opinion).",
 'level_note': 'Trusted: Coq kernel + vm_compute (table equalities); translators x_codec.py, x_codec2.py, x_json.py; inet_pton/inet_ntop for AF_INET6 and getaddrinfo are libc oracles whose inverse '
               'law is a stated premise (checked by differential execution); strchr modelled as first-index search; hand-written models bound by differential execution. Print Assumptions: closed '
               'under the global context. Address round trips are for canonical structs (zero sin_zero / flowinfo / scope, zero-padded sun_path), SOCK_STREAM, ports 1..65535 and absolute Unix paths; '
               'pton4, ntop4 and the %d of the port printer are hand models of libc; the port parser is proved equal to the C16 numeral parser (C17_parse_port_is_parsenum_spec / _model).',
 'trusted_base': ['transcription of RFC 4648 and the JSON grammar (RFC 8259) in coq/Util/*Spec.v, JsonRfc.v', 'libc inet_pton/inet_ntop(AF_INET6) inverse law (premise)'],
 'assumptions': ['host-name forms that reach the resolver are outside the property (numeric and Unix-path forms only)']}
