from props.common import run_all as run  # noqa: F401

META = {
    "claimed": True,
    "title": "Pointer heap and timer queue are correct priority queues with stable handles",
    "level_text": ("proof: ptrheap.c is modelled operation for operation (swap with two record-cookie notifications, heapifyup, three-way heapify with the C's comparison order, bottom-up create with the "
                   "unsigned-wrap loop guard, delete moving the last element into the hole with N still counting the stale slot) parametric in a total preorder with a C-style three-way compar; "
                   "25 theorems: every operation returns Ok (no fault, no assert, fuel suffices), preserves heap order, changes the multiset exactly as specified, keeps every element's last-notified "
                   "position pointing at it (C13_handles_consistent, C13_delete_by_handle); the root is a least element (C13_getmin_least); the same over whole operation histories under any allocation "
                   "oracle (C13_heap_histories*); timer queue: tvcmp lexicographic, getptr returns the stored pointer of a least entry iff its time <= the query time else NULL with no change "
                   "(C13_tq_getptr), successive releases in non-decreasing time order (C13_tq_release_order), cookies valid across every other operation (C13_tq_histories). Unbounded in sizes and "
                   "history length. Bound to the C by the correspondence run (integer keys with many duplicates, create-from-array, sizes to thousands, full notification sequence compared) and an "
                   "independent trace predicate on the implementation's outputs."),
    "level_note": ("Trusted: Coq kernel; hand-written Gallina model bound by differential execution (ASan); indices are nat under the hypothesis 8n+8 < 2^63 (the overflow guards of "
                   "elasticarray_append are C12's subject); the underlying pointer array is a list. Print Assumptions: closed under the global context."),
    "trusted_base": ["timer-queue callbacks applied after each heap call rather than during it (compar only reads tv, setreccookie only writes rc)"],
    "assumptions": ["caller honours the documented preconditions of increase/decrease (key grew / shrank) and passes valid handles"],
}
