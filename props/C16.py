from props.common import run_all as run  # noqa: F401

META = {'claimed': True,
 'title': 'Numeric text parsing is exact: right value, or EINVAL/ERANGE, never wraparound',
 'level_text': 'proof: strtoumax/strtoimax (ISO C, C locale, with unsigned negation modulo 2^64) and the macro logic of PARSENUM/PARSENUM_EX are modelled on checked memory; C16_parsenum_signed_exact '
               '/ C16_parsenum_unsigned_exact / C16_parsenum_unsigned_nobounds_exact prove model = grammar spec over unbounded Z for EVERY C string, widths 8/16/32/64, every (min,max) in the '
               'documented domain (incl. negative bounds for unsigned targets), bases 0 and 2..36, both trailing settings - the F4 repair is what makes the unsigned theorem true (C16_regression_F4 '
               "keeps the old step's counterexample); floating targets: strtod is an oracle (its double enters as a bit pattern); the wrapper's EINVAL/ERANGE conditions are iffs over its answer "
               "(C16_parsenum_float_wrapper; nan passes any bounds); double targets store strtod's value bit-exactly and meet the property (C16_parsenum_double_exact); the model's double->float "
               'conversion is proved correctly rounded for all 2^64 patterns (C16_narrow32_correctly_rounded); for float targets the property is proved for values within +-FLT_MAX '
               '(C16_parsenum_float32_in_type_partial) and REFUTED beyond (C16_parsenum_float_narrowing_refuted; KNOWN FINDING F13: success with +-inf / 0 stored); long double targets not modelled; '
               "C16_humansize_parse_exact proves the size parser equals the language digits [' '] [kMGTPE] ['B'] with value n*1000^k < 2^64; C16_humansize_greatest proves the formatter's output is a "
               'documented form and the greatest representable value not exceeding n, for all n < 2^64. 12 theorems. Tied to the C by a translator (humansize prefix string and limits) and a '
               'correspondence run of 460 generated macro call sites (ASan/UBSan, 40k cases quick, 891k thorough).',
 'level_note': "Trusted: Coq kernel; the Gallina model of glibc's strtoumax/strtoimax (Appendix A of DESIGN.md pins the probed behaviours; sampled on every run); strtod is an oracle (decimal->binary "
               "conversion is libc's, only the wrapper logic is proved); hand-written model of the macro logic bound by differential execution. Print Assumptions: closed under the global context.",
 'trusted_base': ['Gallina model of glibc strtoumax/strtoimax in the C locale (sampled against libc each run)', 'strtod treated as an oracle (value class + comparison outcomes)'],
 'assumptions': ['signed targets: bounds lie within the target type (the interface leaves this to the caller, as the property states)']}
