from props.common import run_all as run  # noqa: F401

META = {'claimed': True,
 'title': 'Command-line parsing follows the documented option grammar for every argv',
 'level_text': 'proof: util/getopt.c is modelled state for state (statics, packed-option cursor, searchopt, registration pass of GETOPT_SWITCH) on checked memory; C18_getopt_eq_spec / '
               "C18_switch_eq_spec prove, for every table whose names are '-x' or '--long', NUL-free, pairwise distinct and without '=' inside a long name (getopt_register_opt enforces all of this "
               "except the '=' clause; tables it accepts with '=' in a long name follow first-prefix-match in label order: C18_getopt_eq_coded_spec; every other table aborts in the registration pass "
               'and that is the only abort), with or without a missing-argument label, and for compiled GETOPT_SWITCH statements in ANY source layout incl. a label on the GETOPT_SWITCH line (the '
               "macros' indexing pass is modelled: C18_switch_pass_is_registration, C18_switch_layout_independent), and every argv of terminated strings, that the model reports exactly the events of "
               "a reference parser written from the header comment of getopt.h, in order, with the same final optind; C18_getopt_stops* prove the stopping rules (first operand / lone '-' not "
               "consumed, '--' consumed, optind = index of first operand); C18_reset_fresh proves that optreset from ANY state equals a fresh parse; C18_registration_enforces_wf ties wf_table to "
               'what getopt_register_opt accepts. Unbounded in argv length and table size. The model is bound to the C by the correspondence run (back-end API with generated tables + 10 compiled '
               'GETOPT_SWITCH loops in 7 source layouts, ASan, 22.7k argvs quick / 318k thorough, exhaustive up to length 4 over a 12-word alphabet in thorough).',
 'level_note': 'Trusted: Coq kernel; hand-written Gallina model of getopt.c bound to the code by differential execution only (no translator module: the file has no tables); the reference parser is '
               'our reading of the header comment. Print Assumptions: closed under the global context.',
 'trusted_base': ['reference grammar parser transcribed from the header comment of util/getopt.h'],
 'assumptions': ["argv strings are NUL-terminated; registered names are '-x' or '--long' as getopt_register_opt enforces"]}
