from props.common import run_all as run  # noqa: F401

META = {'claimed': True,
 'title': 'Every CPU-accelerated code path computes the same function as the portable one',
 'level_text': 'proof: every accelerated path the host can execute is modelled at instruction level (x86 vector / CRC32 / AES-NI / SHA-NI semantics per the Intel SDM), with the instruction and '
               'constant sequences REGENERATED from the C on every run and tied to the proved sequences by vm_compute lemmas. SHA-256: SHA256_Transform_sse2 (MSG4 schedule) and '
               'SHA256_Transform_shani (sha256rnds2/msg1/msg2 sequencing) equal the portable transform and the FIPS 180-4 compression function for every state and block (C03_sha256_sse2_eq_fips180, '
               'C03_sha256_shani_eq_fips180); every case of the switch(hwaccel) in alg/sha256.c does (C03_sha256_transform_any_hw); Init/Update*/Final and SHA256_Buf under ANY hwaccel value, '
               'partition, length and from any well-formed context give the FIPS digest, equal across any two configurations (C03_sha256_stream_any_hw_is_fips180, _any_two_configs, '
               'C03_sha256_resume_any_hw); the self-test passes in the model so selection depends on build flags and CPU bits only. CRC32C: the CRC32 instruction at every width = bit-serial '
               'register; CRC32C_Update_SSE42 (unaligned head / aligned 8-byte body / tail; u64 and 2xu32 builds) = portable byte fold for EVERY address, state and data; the len >= 8 routing and '
               'whole streams under every configuration, address and partition give the portable result (C03_crc_stream_any_config). AES: AES-NI key expansion (128/256) and block encryption = '
               'FIPS-197; crypto_aesctr_aesni_stream and the portable stream write the same bytes from any state satisfying the stream invariant, for every call length below 2^64, and any two '
               "configurations and partitions agree (C03_ctr_any_config_same_bytes); the stream model's bookkeeping (every update of bytectr, *buflen, the block counter, pblk[15], every condition "
               "and use-call argument) is REGENERATED from the C text as expression trees, evaluated with C integer semantics (literal types such as 15U, integer promotions, wrap at the type's "
               'width) and proved equal to the reference arithmetic for all lengths (C03_ctr_regenerated_bookkeeping_eq_reference, C03_aesni_wholeblocks_bookkeeping_eq_reference) - hand-modelled '
               'remain the byte loop of cipherblock_use, the __m128i statements and the helper-call skeleton (shape-checked by the translator); a real call above 2^32 bytes is executed in the '
               'thorough tier, and in the quick tier when a proof breaks; the selection logic of crypto_aes.c and crypto_aesctr.c is regenerated and proved consistent for every (CPU bit, self-test '
               'outcome). 33 theorems, unbounded in data, alignment and partition. Bound to the compiled code by the correspondence run: every instruction model against the real instruction on this '
               'CPU (boundary operands, every immediate); the compiled transforms and every cpusupport configuration of sha256.c / crc32c.c / crypto_aes*.c (selection probed white-box; a silent '
               'fallback is reported) against the models and standards; alignments 0..15, lengths around the thresholds, partitions switching paths inside one stream; AES-CTR also in the AES-NI build as configured with -DBROKEN_MM_LOADU_SI64 (the load_si64 work-around branch) and with library allocations at addresses 8 mod 16 (what align_ptr.h exists for); every configuration once more with the library compiled -DNDEBUG.',
 'level_note': 'Trusted: Coq kernel + vm_compute; the x86 instruction semantics in Accel/X86Vec.v, Sse42Crc.v, AesNi.v (validated instruction by instruction against this CPU; the SDM semantics '
               "themselves are trusted); translators x_crc.py, x_aes.py, x_accel.py; the portable AES block function is OpenSSL's (not modelled: equality is stated against FIPS-197). Only paths this "
               'host can execute are run (it has sha_ni, ssse3, sse4_2, aes); ARM paths are out of scope of the property. Print Assumptions: closed under the global context.',
 'trusted_base': ['x86 instruction semantics (Intel SDM pseudo-code) in coq/Accel/*.v', 'cpusupport configuration headers under harness/cpuconfig/'],
 'assumptions': ['the host executes SSE2, SSSE3, SSE4.2, AES-NI and SHA-NI (probed; a silent fallback is reported as not covered)']}
