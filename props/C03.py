from props.common import run_all as run  # noqa: F401

META = {'claimed': True,
 'title': 'Every CPU-accelerated code path computes the same function as the portable one',
 'level_text': 'proof for CRC32C and AES/AES-CTR paths, correspondence for SHA-256 paths (SHA theorems in progress): the CRC32 instruction is modelled per the Intel SDM at every operand width and '
               'proved to be the bit-serial register run, _mm_crc32_u8 = the portable table step, a little-endian n-byte load = n byte steps; CRC32C_Update_SSE42 (unaligned head / aligned 8-byte '
               'body / tail, both the u64 and the 2xu32 build) equals the portable byte fold for EVERY address, state and data (C03_crc_update_sse42_eq_any_address), CRC32C_Update with its len >= 8 '
               'routing equals the portable function whatever hwaccel is, and whole streams under every configuration, base address and partition give the portable result '
               '(C03_crc_stream_any_config); the self-test passes at every alignment so selection depends on the feature bit only. AES: the AES-NI block path equals FIPS-197 (the reference the '
               'portable OpenSSL path is compared with); crypto_aesctr_aesni_stream and the portable stream write the same bytes and leave observably equal states from any state satisfying the '
               'stream invariant (C03_ctr_stream_aesni_eq), and any two configurations and partitions give the same bytes (C03_ctr_any_config_same_bytes). SHA-256: SHA256_Transform_sse2 / _shani are '
               'modelled over an x86 vector-instruction model with the instruction sequences regenerated from the C; every instruction model is compared with the real instruction on this CPU '
               '(boundary operands, every immediate), the compiled transforms and all three alg/sha256.c configurations (portable, SSE2, SHA-NI+SSSE3; selection probed white-box) are compared with '
               'the proven portable model and the FIPS compression function. Configurations x alignments 0..15 x lengths around thresholds x partitions in the correspondence run.',
 'level_note': 'Trusted: Coq kernel + vm_compute; the x86 instruction semantics in Accel/X86Vec.v, Sse42Crc.v, AesNi.v (validated instruction by instruction against this CPU, not proved); '
               "translators x_crc.py, x_aes.py, x_accel.py; the portable AES block function is OpenSSL's (not modelled: equality is stated against FIPS-197). Only paths this host can execute are "
               'run (it has sha_ni, ssse3, sse4_2, aes); ARM paths are out of scope of the property. Print Assumptions: closed under the global context.',
 'trusted_base': ['x86 instruction semantics (Intel SDM pseudo-code) in coq/Accel/*.v', 'cpusupport configuration headers under harness/cpuconfig/'],
 'assumptions': ['the host executes SSE2, SSSE3, SSE4.2, AES-NI and SHA-NI (probed; a silent fallback is reported as not covered)']}
