from props.common import run_all as run  # noqa: F401

META = {'claimed': True,
 'title': 'AES block encryption and the AES-CTR stream equal FIPS-197 / SP 800-38A',
 'level_text': 'proof: FIPS-197 is transcribed with the S-box DEFINED as field inverse + affine map (the literal table is proved equal on all of N). The AES-NI code (crypto_aes_aesni.c) is modelled '
               'at instruction level over the regenerated MKRKEY128/256 rcon/shuffle immediates and aesenc chain: both key expansions equal the FIPS-197 key schedule for every key and block '
               'encryption equals Cipher for every 128-/256-bit key and block (C02_aesni_block_is_fips197). crypto_aesctr.c / crypto_aesctr_aesni.c are modelled for an ARBITRARY 16-byte block '
               'function E: init2 establishes the stream invariant from any prior object content; every call of any size on either path preserves it and writes input XOR keystream bytes '
               'total..total+len-1 (C02_ctr_inv_stream); hence for every call sequence (sizes 0 included, < 2^64 bytes) output = data XOR E(nonce_be64||i_be64) in order (C02_ctr_stream_correct), '
               'independent of the partition and of which path each call took (C02_ctr_partition_independent), encrypting twice restores the input (C02_ctr_involutive), re-initialising restarts the '
               'keystream (C02_ctr_reinit_restarts); end to end for the AES-NI build (C02_aesctr_aesni_is_ctr_of_fips197). The CTR bookkeeping arithmetic of both stream functions is regenerated from '
               "the C text and evaluated with C integer semantics (see C03). 19 theorems, unbounded in key, nonce, data and partition. The software build's block function is OpenSSL's: FIPS-197 is "
               'ASSUMED for it (C02_aesctr_portable_over_fips197_partial) and compared against the spec by the correspondence run of the software-only configuration. In-place operation (aliasing) is '
               'exercised by the driver, not the model. Correspondence: both build configurations vs extracted model vs spec; keys 128/256, chunk scripts crossing the 16-byte routing threshold, '
               'white-box seek to high block indices (counter carry); AES-NI also with -DBROKEN_MM_LOADU_SI64 and with library allocations 8 mod 16; the void stream/buf operations with every allocation refused; all configurations once more with the library compiled -DNDEBUG.',
 'level_note': 'Trusted: Coq kernel + vm_compute; the instruction semantics of aesenc/aesenclast/aeskeygenassist/shuffle/xor in Accel/AesNi.v (each compared with the real instruction on this CPU by '
               'the C03 instruction sub-check); translator x_aes.py; OpenSSL AES_encrypt assumed FIPS-197 for the software configuration (checked by differential execution only); aliasing in-place '
               'not modelled. Print Assumptions: closed under the global context.',
 'trusted_base': ['transcription of FIPS-197 / SP 800-38A CTR in coq/Crypto/AesSpec.v', 'x86 AES-NI instruction semantics in coq/Accel/AesNi.v', 'OpenSSL AES for the software build'],
 'assumptions': ["total stream length below 2^64 bytes (the C's bytectr is uint64_t)"]}
