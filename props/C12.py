from props.common import run_all as run  # noqa: F401

META = {'claimed': True,
 'title': 'Elastic array/queue, sequential map and object pool refine their abstract models',
 'level_text': 'proof: elasticarray.c, elasticqueue.c, seqptrmap.c and mpool.h are modelled on checked memory with their growth constants regenerated from the C. For every program of operations with '
               'arbitrary nrec / reclen (size-overflowing products included: refused, nothing changed) and every allocation oracle: no access outside the storage block, no failed assert, size <= '
               'alloc = block length after every operation, and every result and visible content are those of the ideal resizable byte sequence (C12_ea_refines, C12_ea_get_inside, '
               'C12_ea_export_exact); the queue is an ideal FIFO (C12_eq_refines, C12_eq_view); the map issues numbers consecutively from 0, get = stored (non-NULL) pointer until deleted and NULL '
               'for every other number, getmin = least live number or -1 (C12_spm_refines, C12_spm_min_is_least); capacity: alloc/4 <= size after any successful init/resize/append/truncate and any '
               'shrink without a refused realloc, preserved while nothing is refused, alloc <= 2*size after growth (C12_ea_capacity_*; the bound without integer rounding is refuted by '
               'init(7,1);shrink(6,1) and documented as not a finding); the pool never hands out an object still held; its exit handler is registered (exactly once) by the first malloc that reaches '
               'the allocator, hence whenever anything is cached, held or live, and process exit returns every cached object and the stack (C12_mpool_no_double_handout, '
               'C12_mpool_registered_when_used, C12_mpool_exit_handler_registered, C12_mpool_exit_returns_all, C12_mpool_atexit_frees_all, C12_mpool_invariant; that a registered handler runs at exit '
               "is libc's contract). 17 theorems, unbounded in program length and sizes (< 2^64 byte counts). Bound to the C by the correspondence run (ASan, wrapped allocator; impl.obs = spec.obs "
               "decides the property, full line = model decides the correspondence; capacity bound evaluated on the implementation's sizes).",
 'level_note': 'Trusted: Coq kernel; hand-written models bound by differential execution; the allocator is an oracle returning fresh blocks; byte counts below 2^64 / operation counts below 2^60 as '
               'stated in the theorems. Print Assumptions: closed under the global context.',
 'trusted_base': ['tools/extract/x_ds.py', 'wrapped allocator in harness/drv_ds.c'],
 'assumptions': ['reclen > 0 and callers pass the same reclen the macros fix', 'mpool clients free only objects they hold']}
