from props.common import run_all as run  # noqa: F401

META = {'claimed': True,
 'title': 'Key material is wiped: finalised contexts zero, secrets cleared before free',
 'level_text': 'proof at model level + observation of the binary: hashes: the Final functions of the model contain no wipe of their own; the statements of SHA256/SHA1/MD5_Final, the three HMAC '
               'finals and their _internal helpers, and the CTX struct layouts, are REGENERATED from alg/*.c and alg/*.h and interpreted (coq/Alg/HashWipe.v): a field is zero on return only if a '
               'regenerated insecure_memzero whose object and sizeof text cover it, or an inner Final call on that sub-context, says so and nothing later touches it; for every input context every '
               'field of the returned context is zero (C20_*_final_zeroes_ctx) and every leaf of the header layout is wiped (C20_*_final_wipes_whole) - a removed, mis-sized, conditional or misplaced '
               'wipe breaks these at the next run. AES: the free functions are interpreters of the insecure_memzero/free call lists and size expressions REGENERATED from crypto_aes.c / '
               "crypto_aes_aesni.c / crypto_aesctr.c; for every object content exactly one block of the object's size is released and all its bytes are 0 (C20_key_free_aesni_zero, "
               'C20_key_free_sw_zero, C20_aesctr_free_zero) - a removed or mis-sized wipe breaks the theorem at the next run. DH: the program of blinded_modexp (fallible steps, error labels, release '
               'ladder) is regenerated and interpreted under a failure oracle; secrecy is a taint from priv and blinding through the bignum operations; for EVERY failure pattern every secret bignum '
               "is cleared when freed and every allocation is released exactly once (C20_dh_*_secrets_cleared). Key file: for every file content and every strdup failure pattern the secret's memory "
               'is zero when freed and every block is released exactly once (C20_readkeys_*). 20 theorems. Whether the compiled -O2 code really performs the wipes (insecure_memzero not elided) '
               'cannot be a statement about the model: the correspondence drivers wrap free / BN_clear_free / BN_free and inspect every byte of the real context objects after Final and of every '
               'block at the moment it reaches the allocator, on success and on every injected failure path.',
 'level_note': 'Trusted: Coq kernel; translators (x_hash.py statement lists of the Final functions and struct layouts - the interpreter reads size TEXTS, sizeof(T) / sizeof(*ctx) only, and plain '
               'call statements; x_aes.py wipe lists; x_dhdrbg.py program of blinded_modexp; x_readkeys.py); taint rules for OpenSSL bignum calls; the binary-level observation relies on --wrap '
               "interposition at the real free; stack scratch arrays inside the hash functions are not part of the property's 'context object' and are not modelled; nor are stdio's FILE buffer and "
               'the stack line buffer of aws_readkeys, or the blinding[] array of crypto_dh.c (only the first reaches the allocator, through fclose). Print Assumptions: closed under the global '
               'context.',
 'trusted_base': ['wrapped free()/BN_free()/BN_clear_free() observers in the drivers', 'taint model of OpenSSL BN operations in coq/Crypto/DhWipeModel.v'],
 'assumptions': []}
