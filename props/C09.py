from props.common import run_all as run  # noqa: F401

META = {'claimed': True,
 'title': 'HTTP client decodes every well-formed response exactly; request sent verbatim',
 'level_text': 'proof: on the same model of http/http.c as C08 (constants regenerated; netbuf reader window; models of sscanf("HTTP/%d.%d %d "), strtoumax and PARSENUM_EX), for EVERY well-formed '
               'response (wf_response: any status line and header list with OWS, framing headers canonical (the Content-Length value may be any 1*DIGIT spelling of the body length, leading zeros '
               'included: HttpSpec.wf_clen), body by Content-Length / chunked with any chunk sizes and extensions / connection close, any number of 1xx interim responses, bodiless for HEAD/204/304), '
               'every limit >= |body| below 2^64, every initial reader geometry and EVERY segmentation of the bytes (empty segments = EAGAIN rounds) the run returns exactly one callback carrying '
               'exactly that status, exactly those (name, value) pairs in order with OWS trimmed, and exactly that body (C09_decode_wellformed, with C09_expect_meaning); staged lemmas exported too: '
               "request bytes = method SP path ' HTTP/1.1' CRLF (h ': ' v CRLF)* CRLF body with the precomputed length equal to the real one (C09_request_bytes), header-block round trip "
               '(C09_headers_roundtrip), Content-Length / chunked / close / bodiless round trips, segmentation independence (C09_segmentation_independent), interim responses skipped '
               "(C09_interim_skipped), whole exchange (C09_exchange_exact). 11 theorems, unbounded in header count, chunk count/size, interim count and segmentation; wf_response carries the code's "
               'two size limits (header block <= 65537 bytes, chunk-size line <= 256 bytes). KNOWN FINDING F12 (listed): beyond those limits the outcome depends on the segmentation (decoded '
               'one-shot, NULL in pieces); refuted-form theorem with witness, probed on the implementation on every run. Bound to the C by the correspondence run: responses rendered by the extracted '
               'SPEC x segmentations and buffer-boundary positions run on the real http.c + netbuf + network + events (scripted kernel, ASan); callback must equal the extracted expectation and the '
               'bytes given to send() must equal the documented request layout; implementation = model on every case.',
 'level_note': 'Trusted: Coq kernel; hand-written model of http.c bound by differential execution; Gallina models of sscanf for the status-line format and of strtoumax per glibc 2.36 (DESIGN '
               'Appendix A); the reader-window abstraction of netbuf_read / network_read (C06/C07); translator x_http.py; the real send() segmentation of the request is observed, not modelled. Print '
               'Assumptions: closed under the global context.',
 'trusted_base': ['Gallina models of sscanf("HTTP/%d.%d %d ") and strtoumax per glibc 2.36', 'tools/extract/x_http.py', 'scripted kernel harness'],
 'assumptions': ["body length <= the caller's limit (otherwise C08's oversize rule applies)", "header block <= 65537 bytes and chunk-size line <= 256 bytes (the code's limits; see F12)"]}
