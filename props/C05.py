from props.common import run_all as run  # noqa: F401

META = {'claimed': True,
 'title': 'Event loop: dispatch order, progress and status propagation',
 'level_text': 'proof: on the same executable model of events/events.c, events_immediate.c, events_network.c, events_timer.c + timer heap as C04 (constants regenerated), for EVERY program of '
               'registrations / cancellations / resets from outside and inside callbacks, all priorities, deadline orders, poll-answer and clock schedules and every fuel: the trace checker with '
               'every clause on accepts every trace of the model (C05_model_traces_accepted) and is sound for the nine logical clauses (C05_check_sound); exported per clause: a descriptor or timer '
               'callback starts only when no immediate is pending and a timer callback only directly after a zero-timeout poll that made nothing ready (C05_choice_priority); the immediate that runs '
               'has the lowest priority value and is first-registered among equals (C05_immediate_order); the timer that runs has the earliest deadline (C05_timer_order); a run starting with an '
               'immediate pending runs a callback and never polls (C05_progress_immediate); the first poll blocks forever only without timers and otherwise for the distance to the earliest deadline '
               "rounded up to a millisecond, never negative nor beyond the clamp (C05_blocking_bound, C05_select_timeout_bound for events_network_select's conversion alone), later polls of a run "
               'have timeout 0 except the repeat of an EINTR poll (C05_later_polls); a run that returns without invoking anything had nothing runnable (C05_wake_runs: SOME callback runs - the '
               "reported descriptor or expired timer itself may stay un-run when another callback returned non-zero first); events_run / events_spin return the latest callback's result, and after a "
               'callback returns non-zero, or returns while an interrupt request is pending, no further callback starts in that call (C05_status_returned, C05_stops_dispatch; an interrupt delivered '
               "by a signal during the zero-timeout re-poll still allows the one timer callback that follows, in the C and in the model alike); every live id is still registered in the model's final "
               "state (C05_pending_stay_registered; a statement about the model's state, not trace-observable). every run inside the contract returns a trace or runs out of fuel "
               "(C05_model_run_or_out_of_fuel, C05_model_ends_or_out_of_fuel). 15 theorems, unbounded. Hypothesis beyond C04's: clock readings non-decreasing (monotonic clock). For events_spin the "
               'progress/timeout clauses are stated for events_run only. Bound to the C by the same correspondence run as C04 (implementation trace = model trace; the extracted check_c04 and '
               "check_c05 evaluated on the IMPLEMENTATION's trace, poll timeout argument observed by interposition).",
 'level_note': 'Trusted: Coq kernel; hand-written Gallina model of events*.c bound by differential execution (ASan/UBSan, interposed poll/clock_gettime); in the model an EINTR poll stores revents = '
               '0 and an exhausted poll script is EINTR with interrupt; normalised timevals, fd < 2^31, non-decreasing clock. Repaired defect F10 (clamp) has its regression in the select-timeout '
               'theorem. Print Assumptions: closed under the global context.',
 'trusted_base': ['interposition of poll(2) and clock_gettime in harness/drv_events.c', 'tools/extract/x_events.py'],
 'assumptions': ['monotonic clock readings are non-decreasing', 'timevals normalised (tv_usec < 10^6)']}
