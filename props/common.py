"""Generic property runner: every module areas/<area>.py may define
   SUBCHECKS = {"C17": [check_hex, ...], "C15": [...]}
and run_all() runs those registered for ctx.pid (in module-name order)."""
import glob
import importlib
import os
import time
import traceback


def run_all(ctx):
    here = os.path.dirname(os.path.dirname(os.path.abspath(__file__)))
    n = 0
    for path in sorted(glob.glob(os.path.join(here, "areas", "*.py"))):
        name = os.path.basename(path)[:-3]
        if name.startswith("_"):
            continue
        try:
            mod = importlib.import_module("areas." + name)
        except Exception:
            ctx.fail(name, "tie", "", "area module does not import: " + traceback.format_exc()[-800:])
            continue
        for fn in getattr(mod, "SUBCHECKS", {}).get(ctx.pid, []):
            t0 = time.time()
            try:
                fn(ctx)
            except Exception:
                ctx.fail(name + "." + fn.__name__, "tie", "", "sub-check raised: " + traceback.format_exc()[-1200:])
            ctx.notes.append("%s.%s: %.1fs" % (name, fn.__name__, time.time() - t0))
            n += 1
    if n == 0:
        ctx.fail("framework", "tie", "", "no sub-check registered for " + ctx.pid)
