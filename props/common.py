"""Generic property runner: every module areas/<area>.py may define
   SUBCHECKS = {"C17": [check_hex, ...], "C15": [...]}
and run_all() runs those registered for ctx.pid (in module-name order).

LOWER LAYERS.  The model a property's theorems are about is a composition: the event-loop model
contains the timer-heap model, the network state machines assume the event loop's contract, the
HTTP model sits on the netbuf reader, the DRBG and the AWS signer are parametric in HMAC-SHA256.
A change to a lower layer can break the upper property although the upper property's own
generators never reach the spot (a heap hole moved under a cancelled timer, an allocation refused
inside a lower container).  So after a property's own sub-checks, the correspondence sub-checks of
the layers its model stands on are run too (DEPENDS below).  A failure found by such a sub-check is
reported for the upper property as a broken ASSUMPTION of its model - the correspondence of the
lower layer no longer holds, so the upper theorems no longer speak about this code - and not as a
concrete failing input of the upper property (the VIOLATION line then ends in
no-failing-input-found unless the property's own sub-checks also found one).  Known findings that
are listed for the lower layer's own property are not repeated here."""
import glob
import importlib
import os
import time
import traceback

import vlib

# property -> [(area module, sub-check function name)]   (lower layers of that property's model)
_HEAP = [("heap", "check_heap"), ("heap", "check_timerqueue"), ("heap", "check_heap_allocfail")]
_EA = [("ds", "check_ds_elasticarray"), ("ds", "check_ds_allocfail")]
_MPOOL = [("ds", "check_ds_mpool")]
_EVENTS = [("events", "check_events_c04"), ("events", "check_events_c05")]
_EVENTS_AF = [("events", "check_events_allocfail")]
_NETRW = [("net", "check_net_rw")]
_NETBUF = [("net", "check_netbuf_read"), ("net", "check_netbuf_write")]
_HMAC = [("hash", "check_hmac"), ("hash", "check_digest")]
# every build configuration of alg/sha256.c (portable / SSE2 / SHA-NI) and alg/crc32c.c: the digest
# properties speak about the library as built, whichever transform the build selects
_SHACFG = [("shacfg", "check_sha256_configs"), ("accel", "check_accel_transforms")]
_CRCCFG = [("crc", "check_crc_configs")]

DEPENDS = {
    "C01": _SHACFG + _CRCCFG,
    "C04": _EVENTS_AF + _HEAP + _EA + _MPOOL,          # timer heap, pollfd array growth, record pools
    "C05": _EVENTS_AF + _HEAP + _EA + _MPOOL,
    "C06": _EVENTS + _HEAP[:2] + _MPOOL,               # readiness delivery, per-address timeout timers, cookie pools
    "C07": _NETRW + _EVENTS[:1] +                      # the transport contract (C06) below the buffers
           [("net", "check_net_allocfail")],           # ... and the writer after a write that could not be started (seed C07-n)
    "C08": _NETBUF + _NETRW + [("net", "check_net_connect")],
    "C09": _NETBUF + _NETRW,
    "C11": _HMAC + _SHACFG,                            # the generator is parametric in HMAC-SHA256
    "C13": [("heap", "check_heap_allocfail")] + _EA,   # the heap's array is an elastic array
    "C19": _HMAC + _SHACFG,
}


def _areas(here):
    mods = {}
    for path in sorted(glob.glob(os.path.join(here, "areas", "*.py"))):
        name = os.path.basename(path)[:-3]
        if name.startswith("_"):
            continue
        mods[name] = path
    return mods


def run_all(ctx):
    here = os.path.dirname(os.path.dirname(os.path.abspath(__file__)))
    n = 0
    own = set()
    loaded = {}
    for name in _areas(here):
        try:
            mod = importlib.import_module("areas." + name)
        except Exception:
            ctx.fail(name, "tie", "", "area module does not import: " + traceback.format_exc()[-800:])
            continue
        loaded[name] = mod
        for fn in getattr(mod, "SUBCHECKS", {}).get(ctx.pid, []):
            t0 = time.time()
            try:
                fn(ctx)
            except Exception:
                ctx.fail(name + "." + fn.__name__, "tie", "", "sub-check raised: " + traceback.format_exc()[-1200:])
            ctx.notes.append("%s.%s: %.1fs" % (name, fn.__name__, time.time() - t0))
            own.add((name, fn.__name__))
            n += 1
    if n == 0:
        ctx.fail("framework", "tie", "", "no sub-check registered for " + ctx.pid)
    if getattr(ctx, "replay", None):
        return
    # lower layers
    listed = set(f.get("signature") for f in vlib.load_known().get("findings", []))
    for name, fname in DEPENDS.get(ctx.pid, []):
        if (name, fname) in own or name not in loaded or not hasattr(loaded[name], fname):
            continue
        before = len(ctx.failures)
        t0 = time.time()
        try:
            getattr(loaded[name], fname)(ctx)
        except Exception:
            ctx.fail(name + "." + fname, "tie", "", "lower-layer sub-check raised: " + traceback.format_exc()[-1200:])
        ctx.notes.append("lower layer %s.%s: %.1fs" % (name, fname, time.time() - t0))
        kept = ctx.failures[:before]
        same_area = ctx.pid in getattr(loaded[name], "SUBCHECKS", {})
        for f in ctx.failures[before:]:
            if f.signature and f.signature in listed:
                continue            # a known finding of the lower layer's own property
            if same_area:
                # another sub-check of an area that models this very property's code (for instance
                # the allocation-failure histories of the heap for C13): its verdict stands as it is
                f.signature = None
                kept.append(f)
                continue
            f.detail = ("ASSUMPTION of this property's model broken: lower layer %s.%s no longer corresponds (%s) :: " %
                        (name, fname, f.kind)) + f.detail
            f.kind = "assumption"
            f.property_fails = False
            f.signature = None
            kept.append(f)
        ctx.failures[:] = kept
