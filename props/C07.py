from props.common import run_all as run  # noqa: F401

META = {'claimed': True,
 'title': 'Buffered reader and writer preserve the byte stream exactly and in order',
 'level_text': 'proof: netbuf_read.c and netbuf_write.c are mirrored (4096/2/WBUFLEN regenerated). Reader: the window invariant bufpos <= datalen <= buflen holds from init through EVERY history of '
               'wait(k)/consume/cancel/immediate/completed-read respecting the API rules, for every k (k >> 4096 included) and every allocation outcome: no fault, no failed assert, every '
               'network_read started targets exactly [datalen, end of block) with min = k - buffered, and what the application can peek is exactly the unconsumed suffix of the abstract stream, which '
               'grows by the first n bytes of each completed read and nothing else (C07_reader_refines_stream); a wait reports success exactly when k unconsumed bytes are present '
               '(C07_wait_immediate, C07_wait_then_read), EOF gives 1 and error -1 without changing the buffer (C07_read_eof_error). Writer: for every history of write/reserve/consume/completion '
               '(size 0 included, every allocation and completion outcome): no fault/assert, no zero-length network_write, the buffers handed to network_write concatenated are a prefix of the '
               'accepted bytes and with the queue all of them while nothing failed; the fail callback fires exactly once iff failed; after failure nothing more is sent and writes return 0 changing '
               'nothing (C07_writer_prefix_total, C07_writer_failed_is_sticky, C07_wire_is_prefix_of_accepted). the queue drains under a non-failing transport and completions are paired with starts '
               '(C07_writer_drains, C07_writer_completions_paired, C07_wire_is_prefix_composed). Both transport branches of the C (plain socket and context transport) are executed against the one '
               'model. KNOWN FINDING F15 (listed): bytes received inside a wait that ends with EOF/error are not shown (C07_reader_eof_partial_loss_refuted). KNOWN FINDING F9 (listed): '
               'netbuf_read_wait_cancel after a partial arrival loses the bytes the cancelled network_read had received; the strict statement is refuted with a witness '
               '(C07_reader_cancel_partial_loss_refuted) and the check reports it as KNOWN-FINDING. Bound to the C by the correspondence run over the composed model (NetWorld) with a scripted kernel '
               "and an independent stream checker on the implementation's log.",
 'level_note': 'Trusted: Coq kernel; hand-written models bound by differential execution (ASan, scripted kernel); the transport below is the C06 contract (completed read = n in [min,max] bytes in '
               'its target range, or 0, or -1). Print Assumptions: closed under the global context.',
 'trusted_base': ['scripted kernel harness/wrap_net.c', 'tools/extract/x_net.py'],
 'assumptions': ["callers respect netbuf.h's API rules (hist_ok / whist_ok: no second wait while one is pending, consume at most what is available, ...)"]}
