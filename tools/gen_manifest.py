#!/usr/bin/env python3
"""Regenerate /verif/MANIFEST.json from props/C*.py (META dict of each claimed property)."""
import importlib
import json
import os
import sys

HERE = os.path.dirname(os.path.dirname(os.path.abspath(__file__)))
sys.path.insert(0, os.path.join(HERE, "lib"))
sys.path.insert(0, HERE)

props = [json.loads(l) for l in open(os.path.join(HERE, "properties.jsonl"))]
checks, na = [], []
for p in props:
    pid = p["id"]
    path = os.path.join(HERE, "props", pid + ".py")
    meta = None
    if os.path.exists(path):
        meta = importlib.import_module("props." + pid).META
    if not meta or not meta.get("claimed", True):
        na.append({"property_id": pid, "reason": (meta or {}).get("reason", "check not built yet (work in progress; the technique applies, see DESIGN.md section 5)")})
        continue
    checks.append({
        "property_id": pid,
        "quick_cmd": "./check %s --tier quick" % pid,
        "thorough_cmd": "./check %s --tier thorough" % pid,
        "evidence_file": "/verif/evidence/%s.json" % pid,
        "replay_cmd_template": "./check %s --replay {path}" % pid,
        "engine": "coq-proof+correspondence",
        "level_claimed": {"category": "proof", "text": meta["level_text"], "design_ref": meta.get("design_ref", "DESIGN.md section 5, " + pid)},
        "level_note": meta["level_note"],
        "technique": meta.get("technique", "machine-checked proof in Coq 8.16 about a Gallina model; model tied to /repo by a regenerating translator (constants) and a correspondence run of the extracted model against the compiled C"),
    })
man = {
    "version": 1,
    "setup_cmd": "make -C /verif setup",
    "hooks": {"guard": "LIBCPERCIVA_VERIF", "enable": "drivers are compiled from /repo sources with -DLIBCPERCIVA_VERIF (no source hook exists at present; interposition is by --wrap at link time)",
              "baseline_off_cmd": "cd /repo && make test", "source_commits": [], "add_only": True},
    "engines": [{"name": "coq-proof+correspondence", "path": "/verif/check",
                 "serves_properties": [c["property_id"] for c in checks],
                 "kind_free_text": "Coq 8.16.1 development under /verif/coq (logical root LCP); extracted OCaml model runners; C drivers built from /repo; python orchestration"}],
    "checks": checks,
    "not_applicable": na,
    "notes": "See DESIGN.md. Every check: translator sync -> coq proofs (Properties_<id>*.v) -> build C driver from /repo -> correspondence of implementation vs extracted model vs independent spec (library as built by the repository's flags, then once more with -DNDEBUG; thorough tier: two generator seeds) -> decide. A translator module that cannot read a rewritten statement falls back to its pinned output and the check prints a NOTE (DESIGN.md 12.10). known_findings.json lists genuine defects.",
}
json.dump(man, open(os.path.join(HERE, "MANIFEST.json"), "w"), indent=1)
print("claimed:", [c["property_id"] for c in checks])
print("not claimed:", [n["property_id"] for n in na])
