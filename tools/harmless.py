#!/usr/bin/env python3
"""Run the registered checks (WITH proofs and translators) against behaviour-preserving rewrites of
/repo under /verif/harmless/<name>/ (patch.diff + meta.json, written by independent sub-agents): a
check that raises an alarm on one of these is a false alarm of the machinery.

  tools/harmless.py [name ...]     (default: all)
Each: scratch worktree of /repo, git apply, make test must still pass (recorded by the confirm step),
`VERIF_REPO=<worktree> ./check <pid>` must exit 0.  Runs in a private copy of /verif."""
import json
import os
import subprocess
import sys
import time

HERE = os.path.dirname(os.path.dirname(os.path.abspath(__file__)))
WT = "/tmp/wt-harmless-%d" % os.getpid()


def sh(cmd, **kw):
    return subprocess.run(cmd, shell=isinstance(cmd, str), stdout=subprocess.PIPE, stderr=subprocess.STDOUT, text=True, **kw)


def private_copy():
    priv = "/tmp/verif-harmless-%d" % os.getpid()
    sh(["rsync", "-a", "--delete", "--exclude", ".git", HERE + "/", priv + "/"])
    try:
        r = subprocess.run([sys.executable, os.path.join(priv, "tools", "harmless.py")] + sys.argv[1:],
                           env=dict(os.environ, VERIF_HARMLESS_INPLACE="1"))
        for name in os.listdir(os.path.join(priv, "harmless")):
            src = os.path.join(priv, "harmless", name, "result.json")
            dst = os.path.join(HERE, "harmless", name)
            if os.path.exists(src) and os.path.isdir(dst):
                sh(["cp", src, os.path.join(dst, "result.json")])
        return r.returncode
    finally:
        sh(["rm", "-rf", priv])


def main():
    if not os.environ.get("VERIF_HARMLESS_INPLACE") and not HERE.startswith("/tmp/"):
        sys.exit(private_copy())
    base = os.path.join(HERE, "harmless")
    names = sys.argv[1:] or sorted(d for d in os.listdir(base) if os.path.exists(os.path.join(base, d, "patch.diff")))
    sh(["git", "-C", "/repo", "worktree", "add", "-q", WT, "HEAD"])
    rows = []
    try:
        for name in names:
            d = os.path.join(base, name)
            meta = json.load(open(os.path.join(d, "meta.json")))
            pids = meta.get("checks") or [meta["property"]]
            sh(["git", "-C", WT, "checkout", "-q", "--", "."])
            sh(["git", "-C", WT, "clean", "-fdq"])
            a = sh(["git", "-C", WT, "apply", os.path.join(d, "patch.diff")])
            if a.returncode != 0:
                rows.append((name, "patch does not apply", ""))
                continue
            res = {}
            for pid in pids:
                t0 = time.time()
                r = sh([os.path.join(HERE, "check"), pid, "--tier", "quick"], cwd=HERE, env=dict(os.environ, VERIF_REPO=WT))
                viol = [l for l in r.stdout.splitlines() if l.startswith("VIOLATION")]
                res[pid] = {"exit": r.returncode, "violation_line": viol[-1] if viol else None,
                            "first_report": [l[:400] for l in r.stdout.splitlines() if l.startswith("  [")][:4],
                            "wall_s": round(time.time() - t0, 1)}
            silent = all(v["exit"] == 0 for v in res.values())
            json.dump({"silent": silent, "checks": res}, open(os.path.join(d, "result.json"), "w"), indent=1)
            rows.append((name, "silent" if silent else "FALSE ALARM",
                         "; ".join("%s:%s" % (p, (v["first_report"] or [""])[0][:150]) for p, v in res.items() if v["exit"] != 0)))
    finally:
        sh(["git", "-C", "/repo", "worktree", "remove", "--force", WT])
    for r in rows:
        print("%-10s %-12s %s" % r)


if __name__ == "__main__":
    main()
