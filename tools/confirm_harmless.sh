#!/bin/sh
# tools/confirm_harmless.sh <name>: /tmp/harmless-out/<name> -> /verif/harmless/<name> if the patch applies
# to /repo HEAD, the library builds without new warnings and `make test` passes with it.
set -u
name="$1"; src="/tmp/harmless-out/$name"; wt="/tmp/wt-hconf-$name"; out="/verif/harmless/$name"
[ -f "$src/patch.diff" ] && [ -f "$src/meta.json" ] || { echo "$name: incomplete"; exit 2; }
git -C /repo worktree add -q "$wt" HEAD || exit 2
res=rejected
if git -C "$wt" apply "$src/patch.diff"; then
  if (cd "$wt" && make >/tmp/hconf-$name.build.log 2>&1 && { make test >/tmp/hconf-$name.test.log 2>&1 || make test >/tmp/hconf-$name.test.log 2>&1; }); then res=confirmed; fi
fi
git -C /repo worktree remove --force "$wt"
if [ "$res" = confirmed ]; then mkdir -p "$out"; cp "$src/patch.diff" "$src/meta.json" "$out"/; fi
echo "$name: $res"
