#!/usr/bin/env python3
"""Generates harness/parsenum_sites.inc: the table of PARSENUM / PARSENUM_EX call sites driven by
harness/drv_parsenum.c.  The bounds of the macros are compile-time expressions, so every
(type, min, max, base, trailing) combination has to be a separate piece of C.

Deterministic (no randomness): areas/parsenum.py imports sites() to know each site's parameters and
refuses to run if the committed .inc differs from render_inc(sites()).

    python3 tools/gen_parsenum_sites.py          # rewrites harness/parsenum_sites.inc
"""
import os
import struct

HERE = os.path.dirname(os.path.abspath(__file__))
INC = os.path.join(os.path.dirname(HERE), "harness", "parsenum_sites.inc")

# (C type, kind, width)
INT_TYPES = [
    ("int8_t", "s", 8), ("int16_t", "s", 16), ("int32_t", "s", 32), ("int64_t", "s", 64),
    ("intmax_t", "s", 64),
    ("uint8_t", "u", 8), ("uint16_t", "u", 16), ("uint32_t", "u", 32), ("uint64_t", "u", 64),
    ("size_t", "u", 64), ("uintmax_t", "u", 64),
]
FLOAT_TYPES = [("float", "f", 32), ("double", "f", 64)]

I64MIN, I64MAX, U64MAX = -2 ** 63, 2 ** 63 - 1, 2 ** 64 - 1
NAMED = {
    -2 ** 7: "INT8_MIN", 2 ** 7 - 1: "INT8_MAX", 2 ** 8 - 1: "UINT8_MAX",
    -2 ** 15: "INT16_MIN", 2 ** 15 - 1: "INT16_MAX", 2 ** 16 - 1: "UINT16_MAX",
    -2 ** 31: "INT32_MIN", 2 ** 31 - 1: "INT32_MAX", 2 ** 32 - 1: "UINT32_MAX",
    I64MIN: "INT64_MIN", I64MAX: "INT64_MAX", U64MAX: "UINT64_MAX",
}


def cexpr(v, flavour=0):
    """A C integer constant expression whose value is exactly v (-2^63 <= v < 2^64).
    flavour varies the spelling / the C type of the expression (value unchanged)."""
    assert I64MIN <= v <= U64MAX
    if v in NAMED and flavour % 2 == 0:
        n = NAMED[v]
        if v == U64MAX and flavour % 4 == 2:
            return "SIZE_MAX"
        if v == I64MAX and flavour % 4 == 2:
            return "INTMAX_MAX"
        if v == I64MIN and flavour % 4 == 2:
            return "INTMAX_MIN"
        return n
    if v > I64MAX:
        return "UINT64_C(%d)" % v
    if v == I64MIN:
        return "(-INT64_C(9223372036854775807) - 1)"
    if -2 ** 31 < v < 2 ** 31:
        if v >= 0 and flavour % 3 == 1:
            return "%dU" % v                      # unsigned int expression
        if v >= 0 and flavour % 3 == 2:
            return "(uintmax_t)%d" % v            # 64-bit unsigned expression
        return "%d" % v if v >= 0 else "(%d)" % v
    return "INT64_C(%d)" % v if v >= 0 else "(-INT64_C(%d))" % (-v)


def tlim(kind, w):
    return (-(2 ** (w - 1)), 2 ** (w - 1) - 1) if kind == "s" else (0, 2 ** w - 1)


def int_bounds(kind, w):
    lo, hi = tlim(kind, w)
    if kind == "s":
        b = [(lo, hi), (lo, -1), (0, hi), (-1, 1), (-100, 100), (1, 10), (10, 1), (hi, hi), (lo, lo),
             (lo + 1, hi - 1), (0, 0), (-128, 127), (-7, 99)]
        return [(a, c) for a, c in b if lo <= a <= hi and lo <= c <= hi]
    b = [(0, hi), (1, hi), (0, hi - 1), (-1, hi), (-5, -1), (-10, 10), (I64MIN, I64MAX), (0, U64MAX),
         (0, I64MAX), (5, 2 ** 63), (hi, hi), (10, 1), (0, 0), (hi, U64MAX), (0, min(hi + 1, U64MAX)),
         (-1, -1), (1, 100), (I64MIN, U64MAX), (I64MIN, -1), (100, 1000), (2 ** 63, U64MAX), (0, 255)]
    out = []
    for x in b:
        if x not in out:
            out.append(x)
    return out


BASE_TRAIL = [(0, 0), (10, 0), (16, 0), (0, 1), (8, 0), (2, 0), (36, 0), (10, 1), (16, 1), (7, 0),
              (36, 1), (3, 1), (35, 0), (11, 0), (2, 1), (8, 1)]

FLT_MAX = float(2 ** 128 - 2 ** 104)
FLT_MIN = 2.0 ** -126
DBL_MAX = float(2 ** 1024 - 2 ** 971)

F_BOUNDS = [  # (C expr min, C expr max, python min, python max)
    ("0", "1", 0.0, 1.0), ("-1", "1", -1.0, 1.0), ("-1.5", "2.5", -1.5, 2.5),
    ("0", "1e300", 0.0, 1e300), ("1", "100", 1.0, 100.0),
    ("-INFINITY", "INFINITY", float("-inf"), float("inf")), ("0", "INFINITY", 0.0, float("inf")),
    ("-100", "-1", -100.0, -1.0), ("10", "1", 10.0, 1.0),
    ("INT64_MIN", "INT64_MAX", float(I64MIN), float(I64MAX)), ("0", "UINT64_MAX", 0.0, float(U64MAX)),
    ("0.25", "0.75", 0.25, 0.75), ("1e-3", "1e3", 1e-3, 1e3), ("-1e300", "-1e-300", -1e300, -1e-300),
    # bounds beyond / at / below the range of float (FLT_MAX = (2^24-1)*2^104, FLT_MIN = 2^-126): for a float
    # target the macro compares the DOUBLE with them and narrows afterwards
    ("-1e308", "1e308", -1e308, 1e308), ("0", "1e308", 0.0, 1e308),      # the second one is a PARSENUM (p4) site
    ("-FLT_MAX", "FLT_MAX", -FLT_MAX, FLT_MAX), ("FLT_MIN", "FLT_MAX", FLT_MIN, FLT_MAX),
    ("0", "1e-40", 0.0, 1e-40), ("1e-300", "1e-39", 1e-300, 1e-39), ("FLT_MAX", "DBL_MAX", FLT_MAX, DBL_MAX),
    ("-1e39", "-1e-46", -1e39, -1e-46),
]


def dbits(x):
    return "%016x" % struct.unpack("<Q", struct.pack("<d", x))[0]


def hx(v):
    return ("-%x" % -v) if v < 0 else "%x" % v


def sites():
    """List of dicts: form (p2|p4|ex4|ex6), ctype, kind (u|s|f), width, min, max (ints; for floats python
    floats; None when the form has no bounds), base, trailing, cmin, cmax (C text), desc."""
    out = []

    def add(form, ctype, kind, w, mn, mx, cmin, cmax, base, tr):
        if kind == "f":
            d = "%s f %d %s %s %d %d" % (form, w, dbits(mn) if mn is not None else "-",
                                         dbits(mx) if mx is not None else "-", base, tr)
        else:
            d = "%s %s %d %s %s %d %d" % (form, kind, w, hx(mn) if mn is not None else "-",
                                          hx(mx) if mx is not None else "-", base, tr)
        out.append(dict(form=form, ctype=ctype, kind=kind, width=w, min=mn, max=mx, cmin=cmin, cmax=cmax,
                        base=base, trailing=tr, desc=d))

    rot = 0
    for ctype, kind, w in INT_TYPES:
        bl = int_bounds(kind, w)
        for j, (mn, mx) in enumerate(bl):
            # the first two bound pairs (type limits and friends) get many bases, the rest one or two each
            nbt = 6 if j < 2 else (2 if j % 2 == 0 else 1)
            for t in range(nbt):
                base, tr = BASE_TRAIL[(rot + t) % len(BASE_TRAIL)]
                fl = rot + t
                if base == 0 and tr == 0 and (fl % 2 == 0):
                    add("p4", ctype, kind, w, mn, mx, cexpr(mn, fl), cexpr(mx, fl + 1), 0, 0)
                else:
                    add("ex6", ctype, kind, w, mn, mx, cexpr(mn, fl), cexpr(mx, fl + 1), base, tr)
            rot += 3
        if kind == "u":
            add("p2", ctype, kind, w, None, None, "", "", 0, 0)
            for base, tr in [(0, 0), (10, 1), (16, 0), (2, 0), (36, 1), (8, 0)]:
                add("ex4", ctype, kind, w, None, None, "", "", base, tr)
    for ctype, kind, w in FLOAT_TYPES:
        add("p2", ctype, kind, w, None, None, "", "", 0, 0)
        add("ex4", ctype, kind, w, None, None, "", "", 0, 0)
        add("ex4", ctype, kind, w, None, None, "", "", 0, 1)
        for j, (cmin, cmax, mn, mx) in enumerate(F_BOUNDS):
            if j % 3 == 0:
                add("p4", ctype, kind, w, mn, mx, cmin, cmax, 0, 0)
            else:
                add("ex6", ctype, kind, w, mn, mx, cmin, cmax, 0, j % 2)
    return out


NPARTS = 4


def render_inc(sl):
    """The sites are split into NPARTS translation units (harness/drv_parsenum_part.c compiled with
    -DSITES_PART=k) so that they compile in parallel."""
    o = ["/* GENERATED by tools/gen_parsenum_sites.py - do not edit.  %d call sites in %d parts. */"
         % (len(sl), NPARTS)]
    per = (len(sl) + NPARTS - 1) // NPARTS
    o.append("#define NSITES %d" % len(sl))
    o.append("#define SITES_PER_PART %d" % per)
    o.append("#define SITES_NPARTS %d" % NPARTS)
    for part in range(NPARTS):
        o.append("#if SITES_PART == %d" % part)
        chunk = list(enumerate(sl))[part * per:(part + 1) * per]
        for i, s in chunk:
            if s["form"] == "p2":
                call = "PARSENUM(&x, ARG)"
            elif s["form"] == "p4":
                call = "PARSENUM(&x, ARG, %s, %s)" % (s["cmin"], s["cmax"])
            elif s["form"] == "ex4":
                call = "PARSENUM_EX(&x, ARG, %d, %d)" % (s["base"], s["trailing"])
            else:
                call = "PARSENUM_EX(&x, ARG, %s, %s, %d, %d)" % (s["cmin"], s["cmax"], s["base"], s["trailing"])
            if s["kind"] == "f":
                init, rep = "0", ("report_f32(rc, x)" if s["width"] == 32 else "report_f64(rc, x)")
            elif s["kind"] == "u":
                init, rep = "0x5a", "report_u(rc, (uintmax_t)x)"
            else:
                init, rep = "0x5a", "report_s(rc, (intmax_t)x)"
            # the string argument is an expression with a side effect (as in PARSENUM(&n, *argv++)): its
            # first evaluation yields the case's string, any further one a text that is no number
            o.append("static void site_%d(const char * s) { const char * a_[3] = { s, \"@again@\", \"@again@\" }; int i_ = 0; "
                     "%s x = %s; int rc = %s; %s; }"
                     % (i, s["ctype"], init, call.replace("ARG", "a_[i_ < 2 ? i_++ : 2]"), rep))
        o.append("const struct site sites_part%d[] = {" % part)
        for i, s in chunk:
            o.append("\t{ \"%s\", site_%d }," % (s["desc"], i))
        o.append("\t{ NULL, NULL }")
        o.append("};")
        o.append("#endif")
    return "\n".join(o) + "\n"


if __name__ == "__main__":
    sl = sites()
    with open(INC, "w") as f:
        f.write(render_inc(sl))
    print("%s: %d sites" % (INC, len(sl)))
