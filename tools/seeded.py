#!/usr/bin/env python3
"""Run the registered checks against the seeded breaking changes under /verif/seeded/<name>/.

  tools/seeded.py [name ...]      (default: all)
For each: scratch worktree of /repo, `git apply patch.diff`, `VERIF_REPO=<worktree> ./check <pid>`,
expect exit 1 with a VIOLATION line; the worktree is removed afterwards.  Results go to
seeded/<name>/result.json and a table is printed."""
import json
import os
import subprocess
import sys
import time

HERE = os.path.dirname(os.path.dirname(os.path.abspath(__file__)))
WT = "/tmp/wt-seeded-%d" % os.getpid()


def sh(cmd, **kw):
    return subprocess.run(cmd, shell=isinstance(cmd, str), stdout=subprocess.PIPE, stderr=subprocess.STDOUT, text=True, **kw)


def private_copy():
    """Run in a private copy of /verif (the checks regenerate coq/Gen from the tree under test, which
    would disturb anything else that is compiling in /verif at the same time); results are copied back."""
    priv = "/tmp/verif-seeded-%d" % os.getpid()
    sh(["rsync", "-a", "--delete", "--exclude", ".git", HERE + "/", priv + "/"])
    try:
        r = subprocess.run([sys.executable, os.path.join(priv, "tools", "seeded.py")] + sys.argv[1:],
                           env=dict(os.environ, VERIF_SEEDED_INPLACE="1"))
        for name in os.listdir(os.path.join(priv, "seeded")):
            src = os.path.join(priv, "seeded", name, "result.json")
            dst = os.path.join(HERE, "seeded", name)
            if os.path.exists(src) and os.path.isdir(dst) and (
                    not os.path.exists(os.path.join(dst, "result.json")) or
                    os.path.getmtime(src) > os.path.getmtime(os.path.join(dst, "result.json")) + 1):
                sh(["cp", src, os.path.join(dst, "result.json")])
        return r.returncode
    finally:
        sh(["rm", "-rf", priv])


def main():
    if not os.environ.get("VERIF_SEEDED_INPLACE") and not HERE.startswith("/tmp/"):
        sys.exit(private_copy())
    names = sys.argv[1:] or sorted(d for d in os.listdir(os.path.join(HERE, "seeded"))
                                   if os.path.exists(os.path.join(HERE, "seeded", d, "patch.diff")))
    sh(["git", "-C", "/repo", "worktree", "add", "-q", WT, "HEAD"])
    rows = []
    try:
        for name in names:
            d = os.path.join(HERE, "seeded", name)
            meta = json.load(open(os.path.join(d, "meta.json")))
            pids = meta.get("checks") or [meta["property"]]
            sh(["git", "-C", WT, "checkout", "-q", "--", "."])
            sh(["git", "-C", WT, "clean", "-fdq"])
            a = sh(["git", "-C", WT, "apply", os.path.join(d, "patch.diff")])
            if a.returncode != 0:
                rows.append((name, "patch does not apply", ""))
                continue
            res = {}
            for pid in pids:
                t0 = time.time()
                r = sh([os.path.join(HERE, "check"), pid, "--tier", os.environ.get("VERIF_TIER", "quick")] +
                       (["--no-prove"] if os.environ.get("VERIF_NOPROVE") else []),
                       cwd=HERE, env=dict(os.environ, VERIF_REPO=WT))
                viol = [l for l in r.stdout.splitlines() if l.startswith("VIOLATION")]
                res[pid] = {"exit": r.returncode, "violation_line": viol[-1] if viol else None,
                            "first_report": [l for l in r.stdout.splitlines() if l.startswith("  [")][:3],
                            "wall_s": round(time.time() - t0, 1)}
            caught = any(v["exit"] == 1 and v["violation_line"] for v in res.values())
            concrete = any(v["exit"] == 1 and v["violation_line"] and "no-failing-input-found" not in v["violation_line"]
                           for v in res.values())
            if not os.environ.get("VERIF_NOPROVE"):
                json.dump({"caught": caught, "failing_input_reported": concrete, "checks": res}, open(os.path.join(d, "result.json"), "w"), indent=1)
            rows.append((name, "CAUGHT" if caught else "MISSED",
                         "; ".join("%s:%s%s" % (p, v["exit"], " nfi" if v["violation_line"] and "no-failing-input-found" in v["violation_line"] else "") for p, v in res.items())))
    finally:
        sh(["git", "-C", "/repo", "worktree", "remove", "--force", WT])
        # restore Gen/ for the real tree
        sh([sys.executable, os.path.join(HERE, "tools", "extract_consts.py"), "/repo"])
    for r in rows:
        print("%-14s %-22s %s" % r)


if __name__ == "__main__":
    main()
