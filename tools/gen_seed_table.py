#!/usr/bin/env python3
"""Rewrite the table between <!-- SEEDS:BEGIN --> and <!-- SEEDS:END --> in DESIGN.md from
seeded/<name>/meta.json and result.json."""
import json
import os
import re

HERE = os.path.dirname(os.path.dirname(os.path.abspath(__file__)))
rows = []
for name in sorted(os.listdir(os.path.join(HERE, "seeded"))):
    d = os.path.join(HERE, "seeded", name)
    if not os.path.exists(os.path.join(d, "meta.json")):
        continue
    m = json.load(open(os.path.join(d, "meta.json")))
    r = json.load(open(os.path.join(d, "result.json"))) if os.path.exists(os.path.join(d, "result.json")) else None
    files = sorted(set(re.findall(r"^\+\+\+ b/(\S+)", open(os.path.join(d, "patch.diff")).read(), re.M)))
    summ = re.sub(r"\s+", " ", m.get("summary", "")).replace("|", "/")
    if len(summ) > 230:
        summ = summ[:227] + "..."
    if r is None:
        verdict, by = "not yet run", ""
    else:
        verdict = "caught" if r["caught"] else "MISSED"
        subs = []
        for pid, v in r["checks"].items():
            for line in v.get("first_report", [])[:2]:
                mm = re.match(r"\s*\[([^\]]+)\]", line)
                if mm and mm.group(1) not in subs:
                    subs.append(mm.group(1))
            if v.get("violation_line") and "no-failing-input-found" in v["violation_line"]:
                subs.append("no failing input found")
        by = ", ".join(subs)
    rows.append("| %s | %s | %s | %s | %s |" % (name, ", ".join(files), summ, verdict, by))
table = "| seed | files | change | verdict | sub-check/kind that fired first |\n|---|---|---|---|---|\n" + "\n".join(rows)
p = os.path.join(HERE, "DESIGN.md")
s = open(p).read()
s2 = re.sub(r"(<!-- SEEDS:BEGIN -->\n).*?(<!-- SEEDS:END -->)", lambda m: m.group(1) + table + "\n" + m.group(2), s, flags=re.S)
open(p, "w").write(s2)
print(len(rows), "seeds")
