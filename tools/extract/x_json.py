"""util/json.c: everything the JSON model takes from the C text.

  json_numchars   static char numchars[]            (without the implicit NUL)
  json_wsbytes    the bytes skip_ws compares buf[0] with
  json_literals   skip_literal: one (min_remaining, text, memcmp_n, advance) per test, in order
  json_escapes    match_str: one (case character, value assigned to ch) per simple escape
"""
import re

from common import *


def func_body(src, name):
    """Text of the definition of function `name` (from its K&R-style header line to the closing brace in column 0)."""
    m = re.search(r"^%s\s*\([^;{]*\)\s*\{(.*?)^\}" % re.escape(name), src, flags=re.S | re.M)
    if not m:
        raise NotFound("function " + name)
    return strip_comments(m.group(1))


def c_int_or_char(tok):
    tok = tok.strip()
    m = re.fullmatch(r"'((?:[^'\\]|\\.)+)'", tok)
    if m:
        v = unescape(m.group(1))
        if len(v) != 1:
            raise NotFound("character constant " + tok)
        return v[0]
    try:
        return int_literal(tok) & 255
    except ValueError:
        raise NotFound("not a constant: " + tok)


def extract(repo):
    src = read(repo, "util/json.c")
    out = HEADER
    out += coq_def_list("json_numchars", string_var(src, "numchars"))

    ws = func_body(src, "skip_ws")
    wsb = [int_literal(x) for x in re.findall(r"buf\s*\[\s*0\s*\]\s*!=\s*(0[xX][0-9a-fA-F]+|\d+|'(?:[^'\\]|\\.)')", ws)]
    if not wsb:
        raise NotFound("whitespace bytes of skip_ws")
    # every comparison of buf[0] in skip_ws must have been understood
    if len(wsb) != len(re.findall(r"buf\s*\[\s*0\s*\]", ws)):
        raise NotFound("skip_ws has a buf[0] test of an unknown shape")
    out += coq_def_list("json_wsbytes", wsb)

    lit = func_body(src, "skip_literal")
    pat = (r"\(\s*end\s*-\s*buf\s*\)\s*>=\s*(\d+)\s*\)\s*&&\s*\(\s*memcmp\s*\(\s*buf\s*,\s*" + STR +
           r"\s*,\s*(\d+)\s*\)\s*==\s*0\s*\)\s*\)\s*return\s*\(\s*&\s*buf\s*\[\s*(\d+)\s*\]\s*\)\s*;")
    lits = [(int(a), unescape(t), int(n), int(adv)) for a, t, n, adv in re.findall(pat, lit)]
    if not lits or len(lits) != lit.count("memcmp"):
        raise NotFound("literal tests of skip_literal (found %d of %d)" % (len(lits), lit.count("memcmp")))
    rows = ["(%d%%nat, %s, %d%%nat, %d%%nat)" % (a, coq_list_N(t, 16), n, adv) for a, t, n, adv in lits]
    out += "Definition json_literals : list (nat * list N * nat * nat) :=\n  [" + ";\n   ".join(rows) + "].\n"

    ms = func_body(src, "match_str")
    esc = re.findall(r"case\s+('(?:[^'\\]|\\.)')\s*:\s*ch\s*=\s*([^;]+?)\s*;\s*break\s*;", ms)
    if not esc:
        raise NotFound("escape table of match_str")
    # all cases except the hand-modelled 'u' must be simple assignments
    ncase = len(re.findall(r"\bcase\b", ms))
    if ncase != len(esc) + 1 or not re.search(r"case\s+'u'\s*:", ms):
        raise NotFound("match_str switch has a case of an unknown shape (%d cases, %d simple)" % (ncase, len(esc)))
    pairs = [(c_int_or_char(c), c_int_or_char(v)) for c, v in esc]
    out += "Definition json_escapes : list (N * N) :=\n  [" + "; ".join("(%d, %d)" % p for p in pairs) + "]%N.\n"
    return {"Repo_json.v": out}
