"""Constants of the event loop that the Coq model (coq/Events/EventsModel.v) depends on.

Every number below is located in the C text; if a construct cannot be found the translator
reports an error (the tie is broken).  The model takes these as Section variables and
Properties_C0[45]_events.v instantiate them with the regenerated values, so e.g. changing
`(tv_usec + 999) / 1000` in the C changes `sel_round_add` here and the theorem about the
first poll's timeout (which is stated with the spec's own 999) stops compiling.
"""
from common import *


def _one(pat, src, what, flags=re.S):
    m = re.search(pat, src, flags)
    if not m:
        raise NotFound(what)
    return m


def extract(repo):
    imm = strip_comments(read(repo, "events/events_immediate.c"))
    net = strip_comments(read(repo, "events/events_network.c"))
    tmr = strip_comments(read(repo, "events/events_timer.c"))

    out = HEADER
    # --- events_immediate.c -------------------------------------------------------------
    m = _one(r"\bheads\s*\[\s*(\d+)\s*\]\s*=\s*\{(.*?)\}\s*;", imm, "heads[] initialiser")
    nheads = int(m.group(1))
    ninit = len(re.findall(r"TAILQ_HEAD_INITIALIZER", m.group(2)))
    if ninit != nheads:
        raise NotFound("heads[%d] has %d initialisers" % (nheads, ninit))
    out += coq_def_N("imm_nprio", nheads)
    m = _one(r"static\s+int\s+minq\s*=\s*(\d+)\s*;", imm, "minq initial value")
    out += coq_def_N("imm_minq_init", int(m.group(1)))
    m = _one(r"assert\s*\(\s*\(\s*prio\s*>=\s*0\s*\)\s*&&\s*\(\s*prio\s*<\s*(\d+)\s*\)\s*\)", imm,
             "priority range assert")
    out += coq_def_N("imm_prio_limit", int(m.group(1)))
    m = _one(r"\(\s*minq\s*<\s*(\d+)\s*\)\s*&&\s*\(?\s*TAILQ_EMPTY", imm, "advance loop bound")
    out += coq_def_N("imm_advance_limit", int(m.group(1)))
    m = _one(r"if\s*\(\s*minq\s*==\s*(\d+)\s*\)\s*return\s*\(\s*NULL\s*\)", imm, "minq == N test")
    out += coq_def_N("imm_empty_mark", int(m.group(1)))

    # --- events_network.c ---------------------------------------------------------------
    m = _one(r"new_fds_alloc\s*=\s*fds_alloc\s*==\s*0\s*\?\s*(\d+)\s*:\s*fds_alloc\s*\*\s*(\d+)\s*;", net,
             "pollfd growth rule")
    out += coq_def_N("net_fds_initial", int(m.group(1)))
    out += coq_def_N("net_fds_factor", int(m.group(2)))
    # else if (tv->tv_sec >= INT_MAX / 1000) timeout = INT_MAX / 1000 * 1000;
    m = _one(r"tv->tv_sec\s*>=\s*INT_MAX\s*/\s*(\d+)\s*\)\s*timeout\s*=\s*INT_MAX\s*/\s*(\d+)\s*\*\s*(\d+)\s*;", net,
             "timeout clamp (tv_sec >= INT_MAX / a -> INT_MAX / b * c)")
    out += coq_def_N("sel_clamp_div", int(m.group(1)))
    out += coq_def_N("sel_clamp_val_div", int(m.group(2)))
    out += coq_def_N("sel_clamp_val_mul", int(m.group(3)))
    m = _one(r"timeout\s*=\s*\(int\)\s*\(\s*tv->tv_sec\s*\*\s*(\d+)\s*\+\s*\(\s*tv->tv_usec\s*\+\s*(\d+)\s*\)\s*/\s*(\d+)\s*\)\s*;",
             net, "timeout conversion")
    out += coq_def_N("sel_ms_per_sec", int(m.group(1)))
    out += coq_def_N("sel_round_add", int(m.group(2)))
    out += coq_def_N("sel_us_per_ms", int(m.group(3)))
    # growpollfd's argument check (EventsModel.growpollfd answers AssertFail for fd >= INT_MAX)
    _one(r"assert\s*\(\s*fd\s*<\s*INT_MAX\s*\)\s*;", net, "growpollfd: assert(fd < INT_MAX)")
    _one(r"if\s*\(\s*tv\s*==\s*NULL\s*\)\s*timeout\s*=\s*-1\s*;", net, "infinite timeout")
    _one(r"fdscanpos\s*=\s*nfds\s*-\s*1\s*;", net, "scan start")
    _one(r"for\s*\(\s*;\s*fdscanpos\s*<\s*nfds\s*;\s*fdscanpos--\s*\)", net, "scan loop")

    # --- events_timer.c -----------------------------------------------------------------
    m = _one(r"\(\s*tv->tv_usec\s*\+=\s*tdelta->tv_usec\s*\)\s*>=\s*(\d+)\s*\)\s*\{\s*tv->tv_usec\s*-=\s*(\d+)\s*;\s*tv->tv_sec\s*\+=\s*(\d+)\s*;",
             tmr, "gettimeout carry")
    if m.group(1) != m.group(2):
        raise NotFound("gettimeout carry constants differ")
    out += coq_def_N("tmr_usec_per_sec", int(m.group(1)))
    out += coq_def_N("tmr_carry", int(m.group(3)))
    m = _one(r"\(\*timeo\)->tv_usec\s*\+=\s*(\d+)\s*;\s*\(\*timeo\)->tv_sec\s*-=\s*(\d+)\s*;", tmr,
             "timer_min borrow")
    out += coq_def_N("tmr_min_borrow", int(m.group(1)))
    out += coq_def_N("tmr_min_borrow_sec", int(m.group(2)))
    return {"Repo_events.v": out}
