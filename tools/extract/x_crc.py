"""Translator for alg/crc32c.c and alg/crc32c_sse42.c -> coq/Gen/Repo_crc.v.

Pulled out of the C text:
  crc32c.c      polynomial and top-bit test and iteration count of times256(); T_0_0x80;
                the five (mask, shift, mask, shift) lines of reverse(); the (table, shift, buf index)
                wiring of the slice-by-4 step and of the byte step; the `len >= 8` routing
                threshold; the hardware self-test vector.
  crc32c_sse42.c  (8 - addr) & 7, remaining % 8, i += 8, the `len >= 8` / `(len - i) < 8` asserts.
"""
from common import *


def _func_body(src, name):
    m = re.search(r"\b%s\s*\([^;{]*\)\s*\{" % re.escape(name), src)
    if not m:
        raise NotFound("function " + name)
    i, depth = m.end(), 1
    while i < len(src) and depth:
        depth += {"{": 1, "}": -1}.get(src[i], 0)
        i += 1
    return src[m.end():i - 1]


def _one(pattern, text, what, flags=0):
    m = re.search(pattern, text, flags)
    if not m:
        raise NotFound(what)
    return m


def coq_tuples(name, rows, ty):
    body = ";\n   ".join("(" + ", ".join(str(v) for v in r) + ")" for r in rows)
    return "Definition %s : list (%s) :=\n  [%s]%%N.\n" % (name, ty, body)


def extract(repo):
    c = strip_comments(read(repo, "alg/crc32c.c"))
    s = strip_comments(read(repo, "alg/crc32c_sse42.c"))
    out = HEADER

    # ---- times256 ----
    t = _func_body(c, "times256")
    m = _one(r"for\s*\(\s*k\s*=\s*0\s*;\s*k\s*<\s*(\w+)\s*;\s*k\+\+\s*\)", t, "times256 loop bound")
    out += coq_def_N("crc_times256_iters", int_literal(m.group(1)))
    m = _one(r"if\s*\(\s*r\s*&\s*(\w+)\s*\)\s*r\s*=\s*\(\s*r\s*<<\s*1\s*\)\s*\^\s*(\w+)\s*;\s*else\s*r\s*=\s*\(\s*r\s*<<\s*1\s*\)\s*;",
             t, "times256 shift/xor step")
    out += coq_def_N("crc_topbit", int_literal(m.group(1)))
    out += coq_def_N("crc_poly", int_literal(m.group(2)))

    # ---- T_0_0x80 ----
    out += coq_def_N("crc_T_0_0x80", define_int(c, "T_0_0x80"))
    _one(r"assert\s*\(\s*T0\s*\[\s*0x80\s*\]\s*==\s*T_0_0x80\s*\)", c, "init() assert T0[0x80] == T_0_0x80")
    _one(r"ctx->state\s*=\s*T_0_0x80\s*;", _func_body(c, "CRC32C_Init"), "CRC32C_Init initial state")

    # ---- reverse ----
    r = _func_body(c, "reverse")
    rows = re.findall(r"x\s*=\s*\(\s*\(\s*x\s*&\s*(\w+)\s*\)\s*>>\s*(\d+)\s*\)\s*\|\s*\(\s*\(\s*x\s*&\s*(\w+)\s*\)\s*<<\s*(\d+)\s*\)\s*;", r)
    if not rows or len(re.findall(r"\bx\s*=", r)) != len(rows):
        raise NotFound("reverse(): mask/shift lines")
    out += coq_tuples("crc_reverse_steps", [[int_literal(v) for v in row] for row in rows], "N * N * N * N")

    # ---- table fill: r = reverse(i); T0[i] = reverse(r = times256(r)); ... ----
    ini = _func_body(c, "init")
    _one(r"for\s*\(\s*i\s*=\s*0\s*;\s*i\s*<\s*256\s*;\s*i\+\+\s*\)", ini, "init loop over 256 entries")
    _one(r"r\s*=\s*reverse\s*\(\s*\(\s*uint32_t\s*\)\s*i\s*\)\s*;", ini, "init: r = reverse(i)")
    fills = re.findall(r"T(\d)\s*\[\s*i\s*\]\s*=\s*reverse\s*\(\s*r\s*=\s*times256\s*\(\s*r\s*\)\s*\)\s*;", ini)
    if not fills:
        raise NotFound("init: table fill lines")
    out += coq_def_list("crc_fill_order", [int(x) for x in fills])

    # ---- CRC32C_Update ----
    u = _func_body(c, "CRC32C_Update")
    m = _one(r"if\s*\(\s*\(\s*len\s*>=\s*(\w+)\s*\)\s*&&\s*\(\s*hwaccel\s*==\s*HW_X86_CRC32\s*\)\s*\)\s*\{\s*"
             r"ctx->state\s*=\s*CRC32C_Update_SSE42\s*\(\s*ctx->state\s*,\s*buf\s*,\s*len\s*\)\s*;\s*return\s*;",
             u, "CRC32C_Update: len >= N routing to CRC32C_Update_SSE42")
    out += coq_def_N("crc_hw_minlen", int_literal(m.group(1)))
    m = _one(r"for\s*\(\s*;\s*len\s*>=\s*(\w+)\s*;\s*len\s*-=\s*(\w+)\s*,\s*buf\s*\+=\s*(\w+)\s*\)\s*\{\s*ctx->state\s*=(.*?);\s*\}",
             u, "CRC32C_Update: slice loop", re.S)
    if len({int_literal(m.group(k)) for k in (1, 2, 3)}) != 1:
        raise NotFound("slice loop: bound/step mismatch")
    out += coq_def_N("crc_slice_width", int_literal(m.group(1)))
    terms = [x.strip() for x in re.split(r"\^\s*(?=T\d\s*\[)", m.group(4))]
    rows = []
    for term in terms:
        mm = re.fullmatch(r"T(\d)\s*\[\s*\(\s*\(\s*ctx->state\s*(?:>>\s*(\d+)\s*)?\)\s*&\s*(\w+)\s*\)\s*\^\s*buf\s*\[\s*(\d+)\s*\]\s*\]", term)
        if not mm:
            raise NotFound("slice term %r" % term)
        rows.append([int(mm.group(1)), int(mm.group(2) or 0), int_literal(mm.group(3)), int(mm.group(4))])
    out += coq_tuples("crc_slice_terms", rows, "N * N * N * N")
    m = _one(r"for\s*\(\s*;\s*len\s*>\s*0\s*;\s*len--\s*,\s*buf\+\+\s*\)\s*\{\s*ctx->state\s*=\s*\(\s*ctx->state\s*>>\s*(\d+)\s*\)\s*\^\s*"
             r"T(\d)\s*\[\s*\(\s*\(\s*ctx->state\s*\)\s*&\s*(\w+)\s*\)\s*\^\s*buf\s*\[\s*0\s*\]\s*\]\s*;\s*\}",
             u, "CRC32C_Update: byte loop")
    out += coq_tuples("crc_byte_term", [[int(m.group(2)), int(m.group(1)), int_literal(m.group(3))]], "N * N * N")

    # ---- CRC32C_Final: little-endian ----
    f = _func_body(c, "CRC32C_Final")
    rows = re.findall(r"cbuf\s*\[\s*(\d)\s*\]\s*=\s*\(?\s*ctx->state\s*(?:>>\s*(\d+)\s*)?\)?\s*&\s*(\w+)\s*;", f)
    if len(rows) != 4:
        raise NotFound("CRC32C_Final: four output bytes")
    rows = sorted([int(a), int(b or 0), int_literal(cc)] for a, b, cc in rows)
    out += coq_tuples("crc_final_bytes", rows, "N * N * N")

    # ---- self-test vector ----
    m = _one(r"\.buf\s*=\s*(%s)\s*,\s*\.crc\s*=\s*\{([^}]*)\}" % STR, c, "hwtest vector")
    out += coq_def_list("crc_hwtest_buf", concat_literals(m.group(1)))
    out += coq_def_list("crc_hwtest_crc", [int_literal(x) for x in m.group(3).split(",") if x.strip()])

    # ---- SSE4.2 path ----
    b = _func_body(s, "CRC32C_Update_SSE42")
    m = _one(r"assert\s*\(\s*len\s*>=\s*(\w+)\s*\)", b, "sse42: assert(len >= N)")
    out += coq_def_N("sse42_minlen", int_literal(m.group(1)))
    m = _one(r"pre_block\s*=\s*\(\s*(\w+)\s*-\s*\(\s*uintptr_t\s*\)\s*buf\s*\)\s*&\s*(\w+)\s*;", b, "sse42: pre_block")
    out += coq_def_N("sse42_align_from", int_literal(m.group(1)))
    out += coq_def_N("sse42_align_mask", int_literal(m.group(2)))
    _one(r"remaining_bytes\s*=\s*len\s*-\s*pre_block\s*;", b, "sse42: remaining_bytes")
    m = _one(r"in_block\s*=\s*remaining_bytes\s*-\s*\(\s*remaining_bytes\s*%\s*(\w+)\s*\)\s*;", b, "sse42: in_block")
    out += coq_def_N("sse42_block_mod", int_literal(m.group(1)))
    m = _one(r"assert\s*\(\s*!\s*\(\s*\(\s*i\s*<\s*in_block\s*\)\s*&&\s*!\s*\(\s*\(\s*\(\s*\(\s*uintptr_t\s*\)\s*&\s*buf\s*\[\s*i\s*\]\s*\)\s*&\s*(\w+)\s*\)\s*==\s*0\s*\)\s*\)\s*\)",
             b, "sse42: alignment assert")
    out += coq_def_N("sse42_assert_mask", int_literal(m.group(1)))
    m = _one(r"for\s*\(\s*;\s*i\s*<\s*in_block\s*;\s*i\s*\+=\s*(\w+)\s*\)", b, "sse42: block loop")
    out += coq_def_N("sse42_stride", int_literal(m.group(1)))
    m = _one(r"assert\s*\(\s*\(\s*len\s*-\s*i\s*\)\s*<\s*(\w+)\s*\)", b, "sse42: tail assert")
    out += coq_def_N("sse42_tail_bound", int_literal(m.group(1)))
    return {"Repo_crc.v": out}
