"""Translator for the AES area: everything the Coq models of crypto_aes_aesni.c / crypto_aes.c /
crypto_aesctr*.c take from the C text.

  crypto_aes_aesni.c   the (i, rcon) list of MKRKEY128 invocations, the (i, shuffle, rcon) list of
                       MKRKEY256 invocations, the immediates inside the two macro bodies (byte shifts,
                       the 0xff shuffle of MKRKEY128, the rkeys[i - d] offsets), the round counts
                       (kexp->nr = ..), the aes_key[..] indices of the aesenc chain before / inside the
                       `if (nr > T)` branch and T, the call list of crypto_aes_key_free_aesni
  crypto_aes.c         the two FIPS self-test vectors; the call list of crypto_aes_key_free
  crypto_aesctr.c      the start value 0xff of pblk[15], allocation size expression, call list of
                       crypto_aesctr_free
(The control flow of crypto_aesctr_shared.c / crypto_aesctr_aesni.c is modelled by hand and bound by the
correspondence run; no shape is demanded of those functions here, so that a behaviour-preserving
rewrite of them does not disturb the tie.)
"""
import re

from common import *


def func_body(src, name):
    """Body text (between the outermost braces) of the C function definition `name(`."""
    for m in re.finditer(r"^%s\s*\(" % re.escape(name), src, flags=re.M):
        i = src.find("{", m.end())
        semi = src.find(";", m.end())
        if i < 0 or (0 <= semi < i):
            continue  # a prototype
        depth, j = 0, i
        while j < len(src):
            if src[j] == "{":
                depth += 1
            elif src[j] == "}":
                depth -= 1
                if depth == 0:
                    return src[i + 1:j]
            j += 1
    raise NotFound("function body " + name)


def macro_body(src, name):
    m = re.search(r"#\s*define\s+%s\s*\([^)]*\)((?:[^\n]*\\\n)*[^\n]*)" % re.escape(name), src)
    if not m:
        raise NotFound("macro " + name)
    return m.group(1).replace("\\\n", "\n")


def invocations(body, name, nargs):
    out = []
    for m in re.finditer(r"\b%s\s*\(([^;]*?)\)\s*;" % re.escape(name), body):
        args = [a.strip() for a in m.group(1).split(",")]
        if len(args) != nargs:
            raise NotFound("%s invocation with %d args" % (name, len(args)))
        out.append(args)
    if not out:
        raise NotFound("no invocation of " + name)
    return out


def coq_str(s):
    return coq_list_N(list(s.encode()), per_line=16)


def squeeze(s):
    return re.sub(r"\s+", "", s)


def wipe_calls(body):
    """Sequence of (kind, size-expression) for the insecure_memzero(..) / free(..) calls of a body,
    kind 1 = insecure_memzero(obj, SIZE), kind 2 = free(obj)."""
    calls = []
    for m in re.finditer(r"\b(insecure_memzero|free)\s*\(([^;]*)\)\s*;", body):
        if m.group(1) == "free":
            calls.append((2, ""))
        else:
            args = m.group(2).split(",", 1)
            if len(args) != 2:
                raise NotFound("insecure_memzero arguments")
            calls.append((1, squeeze(args[1])))
    return calls


def coq_calls(name, calls):
    items = ";\n   ".join("(%d%%N, %s)" % (k, coq_str(e)) for k, e in calls)
    return "Definition %s : list (N * list N) :=\n  [%s].\n" % (name, items)


def malloc_expr(body):
    m = re.search(r"\bmalloc\s*\((.*?)\)\s*\)\s*==\s*NULL", body, flags=re.S)
    if not m:
        raise NotFound("malloc size expression")
    return squeeze(m.group(1))


def struct_vector(text, field):
    m = re.search(r"\.%s\s*=\s*\{(.*?)\}" % field, text, flags=re.S)
    if not m:
        raise NotFound("test vector field " + field)
    return [int_literal(t) for t in (x.strip() for x in m.group(1).split(",")) if t]


def extract(repo):
    ni = strip_comments(read(repo, "crypto/crypto_aes_aesni.c"))
    aes = strip_comments(read(repo, "crypto/crypto_aes.c"))
    ctr = strip_comments(read(repo, "crypto/crypto_aesctr.c"))
    out = HEADER

    # --- MKRKEY invocation lists
    b128 = func_body(ni, "crypto_aes_key_expand_128_aesni")
    b256 = func_body(ni, "crypto_aes_key_expand_256_aesni")
    l128 = [(int_literal(a[1]), int_literal(a[2])) for a in invocations(b128, "MKRKEY128", 3)]
    l256 = [(int_literal(a[1]), int_literal(a[2]), int_literal(a[3])) for a in invocations(b256, "MKRKEY256", 4)]
    out += "Definition mkrkey128 : list (N * N) :=\n  [%s].\n" % "; ".join("(%d%%N, %d%%N)" % t for t in l128)
    out += "Definition mkrkey256 : list (N * N * N) :=\n  [%s].\n" % "; ".join("(%d%%N, %d%%N, %d%%N)" % t for t in l256)

    # --- number of round keys loaded directly from the key (rkeys[j] = _mm_loadu_si128(&key_unexpanded[o]))
    def loads(body):
        r = [(int_literal(a), int_literal(b)) for a, b in
             re.findall(r"rkeys\[(\w+)\]\s*=\s*_mm_loadu_si128\s*\(\s*\(const __m128i \*\)\s*&key_unexpanded\[(\w+)\]\s*\)", body)]
        if not r:
            raise NotFound("initial round key loads")
        return r
    out += "Definition loads128 : list (N * N) := [%s].\n" % "; ".join("(%d%%N, %d%%N)" % t for t in loads(b128))
    out += "Definition loads256 : list (N * N) := [%s].\n" % "; ".join("(%d%%N, %d%%N)" % t for t in loads(b256))

    # --- immediates inside the macro bodies
    for nm, tag in (("MKRKEY128", "128"), ("MKRKEY256", "256")):
        mb = macro_body(ni, nm)
        s_off = re.search(r"_s\s*=\s*rkeys\[i\s*-\s*(\d+)\]", mb)
        t_off = re.search(r"_t\s*=\s*rkeys\[i\s*-\s*(\d+)\]", mb)
        sh = re.findall(r"_s\s*=\s*_mm_xor_si128\s*\(\s*_s\s*,\s*_mm_slli_si128\s*\(\s*_s\s*,\s*(\w+)\s*\)\s*\)", mb)
        kg = re.search(r"_t\s*=\s*_mm_aeskeygenassist_si128\s*\(\s*_t\s*,\s*rcon\s*\)", mb)
        shuf = re.search(r"_t\s*=\s*_mm_shuffle_epi32\s*\(\s*_t\s*,\s*(\w+)\s*\)", mb)
        fin = re.search(r"rkeys\[i\]\s*=\s*_mm_xor_si128\s*\(\s*_s\s*,\s*_t\s*\)", mb)
        if not (s_off and t_off and len(sh) == 2 and kg and shuf and fin):
            raise NotFound("shape of macro " + nm)
        out += coq_def_N("mk%s_s_off" % tag, int(s_off.group(1)))
        out += coq_def_N("mk%s_t_off" % tag, int(t_off.group(1)))
        out += coq_def_list("mk%s_slli" % tag, [int_literal(x) for x in sh])
        if tag == "128":
            out += coq_def_N("mk128_shuffle", int_literal(shuf.group(1)))
        elif shuf.group(1) != "shuffle":
            raise NotFound("MKRKEY256 shuffle argument")

    # --- round counts
    kb = func_body(ni, "crypto_aes_key_expand_aesni")
    m = re.search(r"len\s*==\s*16\s*\)\s*\{\s*kexp->nr\s*=\s*(\d+)\s*;.*?len\s*==\s*32\s*\)\s*\{\s*kexp->nr\s*=\s*(\d+)\s*;", kb, flags=re.S)
    if not m:
        raise NotFound("round counts kexp->nr")
    out += coq_def_N("nr128", int(m.group(1)))
    out += coq_def_N("nr256", int(m.group(2)))
    m = re.search(r"ALIGN_PTR_DECL\s*\(\s*__m128i\s*,\s*rkeys\s*,\s*(\d+)\s*,", ni)
    if not m:
        raise NotFound("rkeys array size")
    out += coq_def_N("rkeys_slots", int(m.group(1)))

    # --- the aesenc chain of crypto_aes_encrypt_block_aesni_m128i
    eb = func_body(ni, "crypto_aes_encrypt_block_aesni_m128i")
    m = re.search(r"^(.*?)if\s*\(\s*nr\s*>\s*(\d+)\s*\)\s*\{(.*?)\}(.*)$", eb, flags=re.S)
    if not m:
        raise NotFound("shape of crypto_aes_encrypt_block_aesni_m128i (if (nr > T) branch)")
    pre, thr, br, post = m.group(1), int(m.group(2)), m.group(3), m.group(4)
    enc = r"aes_state\s*=\s*_mm_aesenc_si128\s*\(\s*aes_state\s*,\s*aes_key\[(\d+)\]\s*\)"
    first = re.search(r"aes_state\s*=\s*_mm_xor_si128\s*\(\s*aes_state\s*,\s*aes_key\[(\d+)\]\s*\)", pre)
    last = re.search(r"aes_state\s*=\s*_mm_aesenclast_si128\s*\(\s*aes_state\s*,\s*aes_key\[nr\]\s*\)", post)
    if not (first and last) or re.search(enc, post) or "aesenclast" in pre + br:
        raise NotFound("shape of the aesenc chain")
    out += coq_def_N("enc_first", int(first.group(1)))
    out += coq_def_list("enc_pre", [int(x) for x in re.findall(enc, pre)])
    out += coq_def_N("enc_threshold", thr)
    out += coq_def_list("enc_branch", [int(x) for x in re.findall(enc, br)])

    # --- FIPS self-test vectors of crypto_aes.c
    m = re.search(r"testcases\s*\[\s*\]\s*=\s*\{(.*?)\n\}\s*;", aes, flags=re.S)
    if not m:
        raise NotFound("testcases[] of crypto_aes.c")
    entries = re.split(r"\}\s*,\s*\{", m.group(1))
    if len(entries) != 2:
        raise NotFound("expected two self-test vectors, found %d" % len(entries))
    for n, e in enumerate(entries, 1):
        ln = re.search(r"\.len\s*=\s*(\d+)", e)
        if not ln:
            raise NotFound("test vector len")
        key = struct_vector(e, "key")
        out += coq_def_list("selftest%d_key" % n, key[:int(ln.group(1))] if len(key) >= int(ln.group(1)) else key)
        out += coq_def_N("selftest%d_len" % n, int(ln.group(1)))
        out += coq_def_list("selftest%d_ptext" % n, struct_vector(e, "ptext"))
        out += coq_def_list("selftest%d_ctext" % n, struct_vector(e, "ctext"))

    # --- CTR constants
    ib = func_body(ctr, "crypto_aesctr_init2")
    m = re.search(r"stream->pblk\[(\d+)\]\s*=\s*(\w+)\s*;", ib)
    if not m or not re.search(r"be64enc\s*\(\s*stream->pblk\s*,\s*nonce\s*\)", ib) or \
            not re.search(r"stream->bytectr\s*=\s*0\s*;", ib):
        raise NotFound("shape of crypto_aesctr_init2")
    out += coq_def_N("ctr_init_index", int(m.group(1)))
    out += coq_def_N("ctr_init_byte", int_literal(m.group(2)))
    # --- wipe-on-free: size expressions and call order (C20)
    out += "Definition alloc_expr_key_aesni : list N :=\n  %s.\n" % coq_str(malloc_expr(func_body(ni, "crypto_aes_key_expand_aesni")))
    out += coq_calls("free_calls_key_aesni", wipe_calls(func_body(ni, "crypto_aes_key_free_aesni")))
    out += "Definition alloc_expr_key_sw : list N :=\n  %s.\n" % coq_str(malloc_expr(func_body(aes, "crypto_aes_key_expand")))
    kf = func_body(aes, "crypto_aes_key_free")
    kf = kf[kf.rfind("#endif"):] if "#endif" in kf else kf     # the software tail of the function
    out += coq_calls("free_calls_key_sw", wipe_calls(kf))
    out += "Definition alloc_expr_ctr : list N :=\n  %s.\n" % coq_str(malloc_expr(func_body(ctr, "crypto_aesctr_alloc")))
    out += coq_calls("free_calls_ctr", wipe_calls(func_body(ctr, "crypto_aesctr_free")))
    return {"Repo_aes.v": out}
