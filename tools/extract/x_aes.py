"""Translator for the AES area: everything the Coq models of crypto_aes_aesni.c / crypto_aes.c /
crypto_aesctr*.c take from the C text.

  crypto_aes_aesni.c   the (i, rcon) list of MKRKEY128 invocations, the (i, shuffle, rcon) list of
                       MKRKEY256 invocations, the immediates inside the two macro bodies (byte shifts,
                       the 0xff shuffle of MKRKEY128, the rkeys[i - d] offsets), the round counts
                       (kexp->nr = ..), the aes_key[..] indices of the aesenc chain before / inside the
                       `if (nr > T)` branch and T, the call list of crypto_aes_key_free_aesni
  crypto_aes.c         the two FIPS self-test vectors; the call list of crypto_aes_key_free
  crypto_aesctr.c      the start value 0xff of pblk[15], allocation size expression, call list of
                       crypto_aesctr_free
(The control flow of crypto_aesctr_shared.c / crypto_aesctr_aesni.c is modelled by hand and bound by the
correspondence run; no shape is demanded of those functions here, so that a behaviour-preserving
rewrite of them does not disturb the tie.)

Second output file Repo_aes_sel.v: the IMPLEMENTATION SELECTION of the two modules as data, for the
build configuration with CPUSUPPORT_X86_AESNI defined (the #if/#ifdef lines are evaluated here) and
for the configuration with no CPU feature defined:
  cpusupport.h         the body of CPUSUPPORT_VALIDATE (text, whitespace removed)
  crypto_aes.c         hwaccel's initialiser; hwaccel_init as a statement list (latch, default,
                       CPUSUPPORT_VALIDATE(hwaccel, VALUE, cpu predicate, self-test), abort-if);
                       crypto_aes_can_use_intrinsics / _key_expand / _encrypt_block as dispatch lists
                       (call hwaccel_init; if (hwaccel == V) -> result; default result)
  crypto_aesctr.c      hwaccel's initialiser; hwaccel_init as a statement list (the switch is emitted
                       with its SCRUTINEE TEXT and one entry per case; an `if (P) hwaccel = V;` is
                       emitted with the text of P); whether crypto_aesctr_init2 calls hwaccel_init;
                       crypto_aesctr_stream as a dispatch list (condition text + hwaccel value ->
                       callee)
A statement the translator has no form for is emitted as kind 0 with its text: the Gallina
interpreter (Crypto/AesSelect.v) answers Fault for it, so the proofs break instead of the extraction.
"""
import re

from common import *


def func_body(src, name):
    """Body text (between the outermost braces) of the C function definition `name(`."""
    for m in re.finditer(r"^%s\s*\(" % re.escape(name), src, flags=re.M):
        i = src.find("{", m.end())
        semi = src.find(";", m.end())
        if i < 0 or (0 <= semi < i):
            continue  # a prototype
        depth, j = 0, i
        while j < len(src):
            if src[j] == "{":
                depth += 1
            elif src[j] == "}":
                depth -= 1
                if depth == 0:
                    return src[i + 1:j]
            j += 1
    raise NotFound("function body " + name)


def macro_body(src, name):
    m = re.search(r"#\s*define\s+%s\s*\([^)]*\)((?:[^\n]*\\\n)*[^\n]*)" % re.escape(name), src)
    if not m:
        raise NotFound("macro " + name)
    return m.group(1).replace("\\\n", "\n")


def invocations(body, name, nargs):
    out = []
    for m in re.finditer(r"\b%s\s*\(([^;]*?)\)\s*;" % re.escape(name), body):
        args = [a.strip() for a in m.group(1).split(",")]
        if len(args) != nargs:
            raise NotFound("%s invocation with %d args" % (name, len(args)))
        out.append(args)
    if not out:
        raise NotFound("no invocation of " + name)
    return out


def coq_str(s):
    return coq_list_N(list(s.encode()), per_line=16)


def squeeze(s):
    return re.sub(r"\s+", "", s)


def wipe_calls(body):
    """Sequence of (kind, size-expression) for the insecure_memzero(..) / free(..) calls of a body,
    kind 1 = insecure_memzero(obj, SIZE), kind 2 = free(obj)."""
    calls = []
    for m in re.finditer(r"\b(insecure_memzero|free)\s*\(([^;]*)\)\s*;", body):
        if m.group(1) == "free":
            calls.append((2, ""))
        else:
            args = m.group(2).split(",", 1)
            if len(args) != 2:
                raise NotFound("insecure_memzero arguments")
            calls.append((1, squeeze(args[1])))
    return calls


def coq_calls(name, calls):
    items = ";\n   ".join("(%d%%N, %s)" % (k, coq_str(e)) for k, e in calls)
    return "Definition %s : list (N * list N) :=\n  [%s].\n" % (name, items)


def malloc_expr(body):
    m = re.search(r"\bmalloc\s*\((.*?)\)\s*\)\s*==\s*NULL", body, flags=re.S)
    if not m:
        raise NotFound("malloc size expression")
    return squeeze(m.group(1))


def struct_vector(text, field):
    m = re.search(r"\.%s\s*=\s*\{(.*?)\}" % field, text, flags=re.S)
    if not m:
        raise NotFound("test vector field " + field)
    return [int_literal(t) for t in (x.strip() for x in m.group(1).split(",")) if t]


# ---------------------------------------------------------------------------- selection logic

def preprocess(src, defined):
    """Evaluate the conditional-compilation lines of (comment-free) C text for the macro set
    `defined`: #if / #elif over defined(X) with ! && || and parentheses, #ifdef, #ifndef, #else,
    #endif; an active object-like `#define NAME` with empty body adds NAME.  Other directives and
    text of active regions are kept, inactive regions are dropped."""
    defined = set(defined)
    out, stack = [], []          # stack of [parent_active, this_branch_active, some_branch_taken]
    lines = src.split("\n")
    i = 0

    def active():
        return all(f[0] and f[1] for f in stack)

    def cond(expr):
        e = re.sub(r"defined\s*\(\s*(\w+)\s*\)|defined\s+(\w+)",
                   lambda m: " True " if (m.group(1) or m.group(2)) in defined else " False ", expr)
        e = e.replace("&&", " and ").replace("||", " or ").replace("!", " not ")
        if not re.fullmatch(r"[\s()]*(?:(?:True|False|and|or|not)[\s()]*)+", e):
            raise NotFound("preprocessor condition not understood: " + expr.strip())
        return bool(eval(e, {"__builtins__": {}}))

    while i < len(lines):
        line = lines[i]
        full = line
        while full.rstrip().endswith("\\") and i + 1 < len(lines):
            i += 1
            full += "\n" + lines[i]
        i += 1
        m = re.match(r"\s*#\s*(\w+)\b(.*)$", line, flags=re.S)
        if not m:
            if active():
                out.append(full)
            continue
        d, rest = m.group(1), m.group(2)
        if d in ("if", "ifdef", "ifndef"):
            par = active()
            if d == "if":
                v = cond(rest) if par else False
            else:
                v = (rest.strip() in defined) == (d == "ifdef")
            stack.append([True, v, v])
        elif d == "elif":
            if not stack:
                raise NotFound("#elif without #if")
            f = stack[-1]
            v = (not f[2]) and cond(rest)
            f[1] = v
            f[2] = f[2] or v
        elif d == "else":
            if not stack:
                raise NotFound("#else without #if")
            f = stack[-1]
            f[1] = not f[2]
            f[2] = True
        elif d == "endif":
            if not stack:
                raise NotFound("#endif without #if")
            stack.pop()
        elif active():
            dm = re.match(r"\s*#\s*define\s+(\w+)\s*$", line)
            if dm:
                defined.add(dm.group(1))
            out.append(full)
    if stack:
        raise NotFound("unterminated #if")
    return "\n".join(out)


def balanced(text, i, open_c="(", close_c=")"):
    """text[i] == open_c: index just past the matching close_c."""
    if i >= len(text) or text[i] != open_c:
        raise NotFound("expected '%s'" % open_c)
    depth = 0
    for j in range(i, len(text)):
        if text[j] == open_c:
            depth += 1
        elif text[j] == close_c:
            depth -= 1
            if depth == 0:
                return j + 1
    raise NotFound("unbalanced '%s'" % open_c)


def top_level_args(text):
    args, depth, cur = [], 0, ""
    for ch in text:
        if ch in "([{":
            depth += 1
        elif ch in ")]}":
            depth -= 1
        if ch == "," and depth == 0:
            args.append(cur)
            cur = ""
        else:
            cur += ch
    args.append(cur)
    return [squeeze(a) for a in args]


def strip_parens(e):
    e = squeeze(e)
    while e.startswith("(") and balanced(e, 0) == len(e):
        e = e[1:-1]
    return e


# statement kinds of an hwaccel_init body (interpreted by Crypto/AesSelect.v: run_init)
K_UNKNOWN, K_LATCH, K_ASSIGN, K_VALIDATE, K_ABORT_IF, K_CASE, K_CASE_NOP, K_DEFAULT_ASSERT, K_IF_ASSIGN = range(9)
# entries of a dispatching function (AesSelect.v: dispatch)
D_UNKNOWN, D_INIT, D_IF_HW, D_DEFAULT = 20, 21, 22, 23


def init_statements(body, var="hwaccel"):
    """hwaccel_init body -> [(kind, hw value, expression text, number)]"""
    out, i = [], 0
    v = re.escape(var)
    while True:
        while i < len(body) and body[i].isspace():
            i += 1
        if i >= len(body):
            return out
        rest = body[i:]
        m = re.match(r"if\s*\(\s*%s\s*!=\s*(\w+)\s*\)\s*return\s*;" % v, rest)
        if m:
            out.append((K_LATCH, m.group(1), "", 0)); i += m.end(); continue
        m = re.match(r"%s\s*=\s*(\w+)\s*;" % v, rest)
        if m:
            out.append((K_ASSIGN, m.group(1), "", 0)); i += m.end(); continue
        m = re.match(r"CPUSUPPORT_VALIDATE\s*(?=\()", rest)
        if m:
            j = balanced(rest, m.end())
            args = top_level_args(rest[m.end() + 1:j - 1])
            m2 = re.match(r"\s*;", rest[j:])
            if len(args) == 4 and args[0] == var and m2:
                out.append((K_VALIDATE, args[1], args[2] + "\0" + args[3], 0)); i += j + m2.end(); continue
        m = re.match(r"switch\s*(?=\()", rest)
        if m:
            j = balanced(rest, m.end())
            scrut = strip_parens(rest[m.end():j])
            m2 = re.match(r"\s*(?=\{)", rest[j:])
            if m2:
                k = balanced(rest, j + m2.end(), "{", "}")
                inner = rest[j + m2.end() + 1:k - 1]
                pos, entries, ok = 0, [], True
                while True:
                    m3 = re.match(r"\s*case\s+(\w+)\s*:\s*(?:%s\s*=\s*(\w+)\s*;)?\s*break\s*;" % v, inner[pos:])
                    if m3:
                        if m3.group(2):
                            entries.append((K_CASE, m3.group(2), scrut, int_literal(m3.group(1))))
                        else:
                            entries.append((K_CASE_NOP, "", scrut, int_literal(m3.group(1))))
                        pos += m3.end(); continue
                    m3 = re.match(r"\s*default\s*:\s*assert\s*\(\s*0\s*\)\s*;", inner[pos:])
                    if m3:
                        entries.append((K_DEFAULT_ASSERT, "", scrut, 0)); pos += m3.end(); continue
                    ok = not inner[pos:].strip()
                    break
                if ok:
                    out += entries; i += k; continue
        m = re.match(r"if\s*(?=\()", rest)
        if m:
            j = balanced(rest, m.end())
            pred = strip_parens(rest[m.end():j])
            m2 = re.match(r"\s*%s\s*=\s*(\w+)\s*;" % v, rest[j:])
            if m2:
                out.append((K_IF_ASSIGN, m2.group(1), pred, 0)); i += j + m2.end(); continue
            m2 = re.match(r"\s*(?=\{)", rest[j:])
            if m2:
                k = balanced(rest, j + m2.end(), "{", "}")
                blk = rest[j + m2.end() + 1:k - 1]
                if re.search(r"\babort\s*\(\s*\)\s*;\s*$", blk) and var not in blk:
                    out.append((K_ABORT_IF, "", pred, 0)); i += k; continue
        # no form for this statement: emit its text
        m = re.match(r"[^;{]*(;|\{)", rest)
        if m and m.group(1) == "{":
            j = balanced(rest, m.end() - 1, "{", "}")
        else:
            j = m.end() if m else len(rest)
        out.append((K_UNKNOWN, "", squeeze(rest[:j]), 0)); i += j


def dispatch_entries(body, default_rx, default_name, var="hwaccel"):
    """A function that tests hwaccel: the calls of hwaccel_init() and the `if (.. hwaccel == V ..)`
    statements in source order, then what the fall-through code does."""
    ev = []
    for m in re.finditer(r"\bhwaccel_init\s*\(\s*\)\s*;", body):
        ev.append((m.start(), (D_INIT, "", "", "")))
    last = 0
    for m in re.finditer(r"\bif\s*(?=\()", body):
        j = balanced(body, m.end())
        c = strip_parens(body[m.end():j])
        if var not in c:
            continue
        parts = [strip_parens(p) for p in re.split(r"&&", c)]
        hws = [p for p in parts if re.fullmatch(r"%s==\w+" % re.escape(var), p)]
        others = [p for p in parts if p not in hws]
        tail = body[j:]
        m2 = re.match(r"\s*return\s*\(?\s*(\w+)", tail) or re.match(r"\s*\{\s*(\w+)\s*\([^;]*;\s*return\s*;\s*\}", tail)
        if len(hws) == 1 and len(others) <= 1 and "||" not in c and m2:
            ev.append((m.start(), (D_IF_HW, hws[0].split("==")[1], m2.group(1), others[0] if others else "")))
            last = max(last, j + m2.end())
        else:
            ev.append((m.start(), (D_UNKNOWN, "", squeeze(body[m.start():j]), "")))
    ev.sort()
    out = [e for _, e in ev]
    if re.search(default_rx, body[last:], flags=re.S):
        out.append((D_DEFAULT, "", default_name, ""))
    else:
        out.append((D_UNKNOWN, "", "fall-through code", ""))
    return out


def coq_prog(name, entries):
    """list (N * list N * list N * list N * N): (kind, hwaccel value, text, text2, number)"""
    rows = []
    for e in entries:
        kind, hw, a, b = e
        if isinstance(b, int):
            t2, num = "", b
        else:
            t2, num = b, 0
        if kind == K_VALIDATE:
            a, t2 = a.split("\0")
        rows.append("(%d%%N, %s, %s, %s, %d%%N)" % (kind, coq_text(hw), coq_text(a), coq_text(t2), num))
    return "Definition %s : list (N * list N * list N * list N * N) :=\n  [%s].\n" % (name, ";\n   ".join(rows))


def coq_text(s):
    """a short C text as list N, with the text itself in a comment"""
    safe = s.replace("(*", "( *").replace("*)", "* )").replace('"', "'")
    return "(%s (* %s *))" % (coq_list_N(list(s.encode()), per_line=32), safe) if s else "[]"


def static_init(src, var="hwaccel"):
    m = re.search(r"\}\s*%s\s*=\s*(\w+)\s*;" % re.escape(var), src)
    if not m:
        raise NotFound("initialiser of static " + var)
    return m.group(1)


def selection(repo):
    cs = strip_comments(read(repo, "cpusupport/cpusupport.h"))
    aes0 = strip_comments(read(repo, "crypto/crypto_aes.c"))
    ctr0 = strip_comments(read(repo, "crypto/crypto_aesctr.c"))
    out = HEADER
    out += "(* cpusupport.h: #define CPUSUPPORT_VALIDATE(hwvar, success_value, cpusupport_checks, check) *)\n"
    out += "Definition validate_macro : list N :=\n  %s.\n" % coq_text(squeeze(macro_body(cs, "CPUSUPPORT_VALIDATE")))
    for tag, defined in (("ni", {"CPUSUPPORT_X86_AESNI"}), ("none", set())):
        aes, ctr = preprocess(aes0, defined), preprocess(ctr0, defined)
        out += "\n(* ---- build configuration: %s *)\n" % (", ".join(sorted(defined)) or "no CPUSUPPORT_* feature macro")
        hw = "HWACCEL" in re.findall(r"#\s*define\s+(\w+)\s*$", aes, flags=re.M)
        if hw:
            out += "Definition %s_aes_unset : list N := %s.\n" % (tag, coq_text(static_init(aes)))
            out += coq_prog("%s_aes_init" % tag, init_statements(func_body(aes, "hwaccel_init")))
        else:
            out += "Definition %s_aes_unset : list N := [].\n" % tag
            out += coq_prog("%s_aes_init" % tag, [])
        out += coq_prog("%s_aes_can_use" % tag, dispatch_entries(func_body(aes, "crypto_aes_can_use_intrinsics"),
                                                                  r"\breturn\s*\(\s*0\s*\)\s*;\s*$", "0"))
        out += coq_prog("%s_aes_key_expand" % tag, dispatch_entries(func_body(aes, "crypto_aes_key_expand"),
                                                                     r"\bAES_set_encrypt_key\s*\(", "AES_set_encrypt_key"))
        out += coq_prog("%s_aes_encrypt_block" % tag, dispatch_entries(func_body(aes, "crypto_aes_encrypt_block"),
                                                                        r"\bAES_encrypt\s*\([^;]*;\s*$", "AES_encrypt"))
        hwc = "HWACCEL" in re.findall(r"#\s*define\s+(\w+)\s*$", ctr, flags=re.M)
        if hwc:
            out += "Definition %s_ctr_unset : list N := %s.\n" % (tag, coq_text(static_init(ctr)))
            out += coq_prog("%s_ctr_init" % tag, init_statements(func_body(ctr, "hwaccel_init")))
        else:
            out += "Definition %s_ctr_unset : list N := [].\n" % tag
            out += coq_prog("%s_ctr_init" % tag, [])
        out += coq_prog("%s_ctr_init2" % tag, [e for e in dispatch_entries(func_body(ctr, "crypto_aesctr_init2"), r"", "")
                                               if e[0] != D_DEFAULT])
        out += coq_prog("%s_ctr_stream" % tag, dispatch_entries(
            func_body(ctr, "crypto_aesctr_stream"),
            r"crypto_aesctr_stream_pre_wholeblock\s*\(.*crypto_aesctr_stream_cipherblock_generate\s*\(.*"
            r"crypto_aesctr_stream_post_wholeblock\s*\(", "portable"))
    return out


def extract(repo):
    ni = strip_comments(read(repo, "crypto/crypto_aes_aesni.c"))
    aes = strip_comments(read(repo, "crypto/crypto_aes.c"))
    ctr = strip_comments(read(repo, "crypto/crypto_aesctr.c"))
    out = HEADER

    # --- MKRKEY invocation lists
    b128 = func_body(ni, "crypto_aes_key_expand_128_aesni")
    b256 = func_body(ni, "crypto_aes_key_expand_256_aesni")
    l128 = [(int_literal(a[1]), int_literal(a[2])) for a in invocations(b128, "MKRKEY128", 3)]
    l256 = [(int_literal(a[1]), int_literal(a[2]), int_literal(a[3])) for a in invocations(b256, "MKRKEY256", 4)]
    out += "Definition mkrkey128 : list (N * N) :=\n  [%s].\n" % "; ".join("(%d%%N, %d%%N)" % t for t in l128)
    out += "Definition mkrkey256 : list (N * N * N) :=\n  [%s].\n" % "; ".join("(%d%%N, %d%%N, %d%%N)" % t for t in l256)

    # --- number of round keys loaded directly from the key (rkeys[j] = _mm_loadu_si128(&key_unexpanded[o]))
    def loads(body):
        r = [(int_literal(a), int_literal(b)) for a, b in
             re.findall(r"rkeys\[(\w+)\]\s*=\s*_mm_loadu_si128\s*\(\s*\(const __m128i \*\)\s*&key_unexpanded\[(\w+)\]\s*\)", body)]
        if not r:
            raise NotFound("initial round key loads")
        return r
    out += "Definition loads128 : list (N * N) := [%s].\n" % "; ".join("(%d%%N, %d%%N)" % t for t in loads(b128))
    out += "Definition loads256 : list (N * N) := [%s].\n" % "; ".join("(%d%%N, %d%%N)" % t for t in loads(b256))

    # --- immediates inside the macro bodies
    for nm, tag in (("MKRKEY128", "128"), ("MKRKEY256", "256")):
        mb = macro_body(ni, nm)
        s_off = re.search(r"_s\s*=\s*rkeys\[i\s*-\s*(\d+)\]", mb)
        t_off = re.search(r"_t\s*=\s*rkeys\[i\s*-\s*(\d+)\]", mb)
        sh = re.findall(r"_s\s*=\s*_mm_xor_si128\s*\(\s*_s\s*,\s*_mm_slli_si128\s*\(\s*_s\s*,\s*(\w+)\s*\)\s*\)", mb)
        kg = re.search(r"_t\s*=\s*_mm_aeskeygenassist_si128\s*\(\s*_t\s*,\s*rcon\s*\)", mb)
        shuf = re.search(r"_t\s*=\s*_mm_shuffle_epi32\s*\(\s*_t\s*,\s*(\w+)\s*\)", mb)
        fin = re.search(r"rkeys\[i\]\s*=\s*_mm_xor_si128\s*\(\s*_s\s*,\s*_t\s*\)", mb)
        if not (s_off and t_off and len(sh) == 2 and kg and shuf and fin):
            raise NotFound("shape of macro " + nm)
        out += coq_def_N("mk%s_s_off" % tag, int(s_off.group(1)))
        out += coq_def_N("mk%s_t_off" % tag, int(t_off.group(1)))
        out += coq_def_list("mk%s_slli" % tag, [int_literal(x) for x in sh])
        if tag == "128":
            out += coq_def_N("mk128_shuffle", int_literal(shuf.group(1)))
        elif shuf.group(1) != "shuffle":
            raise NotFound("MKRKEY256 shuffle argument")

    # --- round counts
    kb = func_body(ni, "crypto_aes_key_expand_aesni")
    m = re.search(r"len\s*==\s*16\s*\)\s*\{\s*kexp->nr\s*=\s*(\d+)\s*;.*?len\s*==\s*32\s*\)\s*\{\s*kexp->nr\s*=\s*(\d+)\s*;", kb, flags=re.S)
    if not m:
        raise NotFound("round counts kexp->nr")
    out += coq_def_N("nr128", int(m.group(1)))
    out += coq_def_N("nr256", int(m.group(2)))
    m = re.search(r"ALIGN_PTR_DECL\s*\(\s*__m128i\s*,\s*rkeys\s*,\s*(\d+)\s*,", ni)
    if not m:
        raise NotFound("rkeys array size")
    out += coq_def_N("rkeys_slots", int(m.group(1)))

    # --- the aesenc chain of crypto_aes_encrypt_block_aesni_m128i
    eb = func_body(ni, "crypto_aes_encrypt_block_aesni_m128i")
    m = re.search(r"^(.*?)if\s*\(\s*nr\s*>\s*(\d+)\s*\)\s*\{(.*?)\}(.*)$", eb, flags=re.S)
    if not m:
        raise NotFound("shape of crypto_aes_encrypt_block_aesni_m128i (if (nr > T) branch)")
    pre, thr, br, post = m.group(1), int(m.group(2)), m.group(3), m.group(4)
    enc = r"aes_state\s*=\s*_mm_aesenc_si128\s*\(\s*aes_state\s*,\s*aes_key\[(\d+)\]\s*\)"
    first = re.search(r"aes_state\s*=\s*_mm_xor_si128\s*\(\s*aes_state\s*,\s*aes_key\[(\d+)\]\s*\)", pre)
    last = re.search(r"aes_state\s*=\s*_mm_aesenclast_si128\s*\(\s*aes_state\s*,\s*aes_key\[nr\]\s*\)", post)
    if not (first and last) or re.search(enc, post) or "aesenclast" in pre + br:
        raise NotFound("shape of the aesenc chain")
    out += coq_def_N("enc_first", int(first.group(1)))
    out += coq_def_list("enc_pre", [int(x) for x in re.findall(enc, pre)])
    out += coq_def_N("enc_threshold", thr)
    out += coq_def_list("enc_branch", [int(x) for x in re.findall(enc, br)])

    # --- FIPS self-test vectors of crypto_aes.c
    m = re.search(r"testcases\s*\[\s*\]\s*=\s*\{(.*?)\n\}\s*;", aes, flags=re.S)
    if not m:
        raise NotFound("testcases[] of crypto_aes.c")
    entries = re.split(r"\}\s*,\s*\{", m.group(1))
    if len(entries) != 2:
        raise NotFound("expected two self-test vectors, found %d" % len(entries))
    for n, e in enumerate(entries, 1):
        ln = re.search(r"\.len\s*=\s*(\d+)", e)
        if not ln:
            raise NotFound("test vector len")
        key = struct_vector(e, "key")
        out += coq_def_list("selftest%d_key" % n, key[:int(ln.group(1))] if len(key) >= int(ln.group(1)) else key)
        out += coq_def_N("selftest%d_len" % n, int(ln.group(1)))
        out += coq_def_list("selftest%d_ptext" % n, struct_vector(e, "ptext"))
        out += coq_def_list("selftest%d_ctext" % n, struct_vector(e, "ctext"))

    # --- CTR constants
    ib = func_body(ctr, "crypto_aesctr_init2")
    m = re.search(r"stream->pblk\[(\d+)\]\s*=\s*(\w+)\s*;", ib)
    if not m or not re.search(r"be64enc\s*\(\s*stream->pblk\s*,\s*nonce\s*\)", ib) or \
            not re.search(r"stream->bytectr\s*=\s*0\s*;", ib):
        raise NotFound("shape of crypto_aesctr_init2")
    out += coq_def_N("ctr_init_index", int(m.group(1)))
    out += coq_def_N("ctr_init_byte", int_literal(m.group(2)))
    # --- wipe-on-free: size expressions and call order (C20)
    out += "Definition alloc_expr_key_aesni : list N :=\n  %s.\n" % coq_str(malloc_expr(func_body(ni, "crypto_aes_key_expand_aesni")))
    out += coq_calls("free_calls_key_aesni", wipe_calls(func_body(ni, "crypto_aes_key_free_aesni")))
    out += "Definition alloc_expr_key_sw : list N :=\n  %s.\n" % coq_str(malloc_expr(func_body(aes, "crypto_aes_key_expand")))
    kf = func_body(aes, "crypto_aes_key_free")
    kf = kf[kf.rfind("#endif"):] if "#endif" in kf else kf     # the software tail of the function
    out += coq_calls("free_calls_key_sw", wipe_calls(kf))
    out += "Definition alloc_expr_ctr : list N :=\n  %s.\n" % coq_str(malloc_expr(func_body(ctr, "crypto_aesctr_alloc")))
    out += coq_calls("free_calls_ctr", wipe_calls(func_body(ctr, "crypto_aesctr_free")))
    return {"Repo_aes.v": out, "Repo_aes_sel.v": selection(repo)}
