"""Translator for the AES area: everything the Coq models of crypto_aes_aesni.c / crypto_aes.c /
crypto_aesctr*.c take from the C text.

  crypto_aes_aesni.c   the (i, rcon) list of MKRKEY128 invocations, the (i, shuffle, rcon) list of
                       MKRKEY256 invocations, the immediates inside the two macro bodies (byte shifts,
                       the 0xff shuffle of MKRKEY128, the rkeys[i - d] offsets), the round counts
                       (kexp->nr = ..), the aes_key[..] indices of the aesenc chain before / inside the
                       `if (nr > T)` branch and T, the call list of crypto_aes_key_free_aesni
  crypto_aes.c         the two FIPS self-test vectors; the call list of crypto_aes_key_free
  crypto_aesctr.c      the start value 0xff of pblk[15], allocation size expression, call list of
                       crypto_aesctr_free
Third output file Repo_aes_arith.v: the BOOKKEEPING ARITHMETIC of the three CTR files as expression trees
(see arithmetic() below and Crypto/AesCtrArith.v):
  crypto_aesctr_shared.c   struct field types; cipherblock_generate (assert expression, pblk[K]++, the wrap
                           condition, be64enc(pblk + off, e)); cipherblock_use (the statements after the byte
                           loop: bytectr / *inbuf / *outbuf / *buflen updates, parameter types); pre_wholeblock
                           (bytemod = .., both conditions, the (nbytes, bytemod) arguments of both use calls);
                           post_wholeblock (condition, arguments)
  crypto_aesctr.c          the portable loop: its condition and the arguments of its use call
  crypto_aesctr_aesni.c    crypto_aesctr_aesni_stream's condition; wholeblocks: local types, prologue
                           statements, loop body (be64enc, the __m128i statements as SVec, the scalar
                           statements), loop condition, epilogue statements and the memcpy into pblk
Integer literals keep the C type their spelling gives them (15U is a 32-bit unsigned, 15 an int, (size_t)15 a
cast of an int); variables are numbered by role (parameters by position, locals by order of first assignment),
so renaming a local or reordering declarations changes nothing.  The control skeleton of each function (which
helper is called where) is matched against the expected shape; a statement or expression with no form is
emitted as SUnknown / EUnknown, for which the model answers Fault - the proofs break, not the extraction.

Second output file Repo_aes_sel.v: the IMPLEMENTATION SELECTION of the two modules as data, for the
build configuration with CPUSUPPORT_X86_AESNI defined (the #if/#ifdef lines are evaluated here) and
for the configuration with no CPU feature defined:
  cpusupport.h         the body of CPUSUPPORT_VALIDATE (text, whitespace removed)
  crypto_aes.c         hwaccel's initialiser; hwaccel_init as a statement list (latch, default,
                       CPUSUPPORT_VALIDATE(hwaccel, VALUE, cpu predicate, self-test), abort-if);
                       crypto_aes_can_use_intrinsics / _key_expand / _encrypt_block as dispatch lists
                       (call hwaccel_init; if (hwaccel == V) -> result; default result)
  crypto_aesctr.c      hwaccel's initialiser; hwaccel_init as a statement list (the switch is emitted
                       with its SCRUTINEE TEXT and one entry per case; an `if (P) hwaccel = V;` is
                       emitted with the text of P); whether crypto_aesctr_init2 calls hwaccel_init;
                       crypto_aesctr_stream as a dispatch list (condition text + hwaccel value ->
                       callee)
A statement the translator has no form for is emitted as kind 0 with its text: the Gallina
interpreter (Crypto/AesSelect.v) answers Fault for it, so the proofs break instead of the extraction.
"""
import re

from common import *


def func_body(src, name):
    """Body text (between the outermost braces) of the C function definition `name(`."""
    for m in re.finditer(r"^%s\s*\(" % re.escape(name), src, flags=re.M):
        i = src.find("{", m.end())
        semi = src.find(";", m.end())
        if i < 0 or (0 <= semi < i):
            continue  # a prototype
        depth, j = 0, i
        while j < len(src):
            if src[j] == "{":
                depth += 1
            elif src[j] == "}":
                depth -= 1
                if depth == 0:
                    return src[i + 1:j]
            j += 1
    raise NotFound("function body " + name)


def macro_body(src, name):
    m = re.search(r"#\s*define\s+%s\s*\([^)]*\)((?:[^\n]*\\\n)*[^\n]*)" % re.escape(name), src)
    if not m:
        raise NotFound("macro " + name)
    return m.group(1).replace("\\\n", "\n")


def invocations(body, name, nargs):
    out = []
    for m in re.finditer(r"\b%s\s*\(([^;]*?)\)\s*;" % re.escape(name), body):
        args = [a.strip() for a in m.group(1).split(",")]
        if len(args) != nargs:
            raise NotFound("%s invocation with %d args" % (name, len(args)))
        out.append(args)
    if not out:
        raise NotFound("no invocation of " + name)
    return out


def coq_str(s):
    return coq_list_N(list(s.encode()), per_line=16)


def squeeze(s):
    return re.sub(r"\s+", "", s)


def strip_casts(e):
    """an argument with redundant parentheses and pointer / size_t casts removed"""
    e = strip_parens(e)
    while True:
        m = re.match(r"\((?:const)?(?:void|size_t|struct\w+|uint8_t|char|unsignedchar|AES_KEY)\**\)", e)
        if not m or not e[m.end():]:
            return e
        e = strip_parens(e[m.end():])


def canon_size(text, ptr_types):
    """sizeof(T), sizeof(*p) with p a pointer of known pointee type, with redundant parentheses and
    (size_t) casts -> 'sizeof(T)' (T without white space); anything else is refused"""
    e = strip_casts(squeeze(text))
    m = re.fullmatch(r"sizeof\((.*)\)", e) or re.fullmatch(r"sizeof(\*\w+)", e)
    if not m or (m.group(0).startswith("sizeof(") and balanced(e, 6) != len(e)):
        raise NotFound("size expression with no form: " + text.strip()[:80])
    x = strip_parens(m.group(1))
    if x.startswith("*"):
        nm = strip_parens(x[1:])
        if nm not in ptr_types:
            raise NotFound("sizeof(*%s): pointee type not known" % nm)
        return "sizeof(%s)" % ptr_types[nm]
    if re.fullmatch(r"(?:struct)?[A-Za-z_]\w*", x) and x not in ptr_types:
        return "sizeof(%s)" % x
    raise NotFound("size expression with no form: " + text.strip()[:80])


def pointer_types(sig, nodes):
    """pointer parameters / locals -> squeezed pointee type"""
    out = {}
    for ty, stars, name in sig:
        if stars == 1:
            out[name] = squeeze(ty)
    for nd in nodes:
        if nd[0] == "decl":
            m = re.fullmatch(r"(.*?)\s*\*\s*(?:const\s+)?(\w+)", re.sub(r"\bconst\b", " ", nd[1]).strip(), flags=re.S)
            if m and "*" not in m.group(1):
                out[m.group(2)] = squeeze(m.group(1))
    return out


def free_path(src, fname):
    """The release path of a free function as [(kind, canonical size text)]: kind 1 =
    insecure_memzero(obj, SIZE), kind 2 = free(obj), where obj is the function's parameter or a local
    alias of it.  Understood around them: `if (obj == NULL) return;`, `if (obj != NULL) { ... }`,
    declarations, alias assignments `tmp = (cast)obj`, asserts (an assert that fires aborts before
    anything is released).  Any other statement: refused."""
    sig = func_sig(src, fname)
    if len(sig) != 1 or sig[0][1] != 1:
        raise NotFound("parameter of " + fname)
    nodes = parse_block(func_body(src, fname))
    types = pointer_types(sig, nodes)
    alias = {sig[0][2]}
    calls = []

    def is_obj(e):
        return strip_casts(squeeze(e)) in alias

    def null_test(c):
        c = strip_parens(squeeze(c))
        for a in alias:
            if c in ("%s==NULL" % a, "NULL==%s" % a, "!%s" % a):
                return "null"
            if c in ("%s!=NULL" % a, "NULL!=%s" % a, a):
                return "nonnull"
        return None

    def walk(nl, top):
        for k, nd in enumerate(nl):
            if nd[0] == "decl":
                continue
            if nd[0] == "if" and not nd[3] and null_test(nd[1]) == "null" and nd[2] == [("return", "")] and top:
                continue
            if nd[0] == "if" and not nd[3] and null_test(nd[1]) == "nonnull" and top and k == len(nl) - 1:
                walk(nd[2], False)
                continue
            # hand-over to the free function of an accelerated implementation (the object is then not ours)
            if nd[0] == "if" and not nd[3] and top and not calls and len(nd[2]) == 2 and nd[2][1] == ("return", "") and \
                    nd[2][0][0] == "expr" and (re.fullmatch(r"hwaccel==\w+", strip_parens(squeeze(nd[1]))) or
                                               re.fullmatch(r"\w+==hwaccel", strip_parens(squeeze(nd[1])))):
                mm = re.fullmatch(r"(%s_\w+)\s*\((.*)\)" % re.escape(fname), nd[2][0][1].strip(), flags=re.S)
                if mm and is_obj(mm.group(2)):
                    continue
            if nd[0] == "expr":
                t = nd[1].strip()
                a = call_args(t, "assert")
                if a is not None:
                    continue
                a = call_args(t, "insecure_memzero")
                if a is not None and len(a) == 2 and is_obj(a[0]):
                    calls.append((1, canon_size(a[1], types)))
                    continue
                a = call_args(t, "free")
                if a is not None and len(a) == 1 and is_obj(a[0]):
                    calls.append((2, ""))
                    continue
                m = re.fullmatch(r"(\w+)\s*=(?!=)\s*(.+)", t, flags=re.S)
                if m and m.group(1) in types and is_obj(m.group(2)) and not calls:
                    alias.add(m.group(1))
                    continue
            raise NotFound("%s: statement with no form: %s" % (fname, squeeze(str(nd[1]))[:100]))

    walk(nodes, True)
    if not calls:
        raise NotFound("no release calls in " + fname)
    return calls


def coq_calls(name, calls):
    items = ";\n   ".join("(%d%%N, %s)" % (k, coq_str(e)) for k, e in calls)
    return "Definition %s : list (N * list N) :=\n  [%s].\n" % (name, items)


def malloc_expr(src, fname):
    """canonical size expression of the one `(p = malloc(SIZE)) == NULL` of the function"""
    body = func_body(src, fname)
    ms = list(re.finditer(r"\bmalloc\s*(?=\()", body))
    if len(ms) != 1:
        raise NotFound("malloc call of " + fname)
    j = balanced(body, ms[0].end())
    return canon_size(body[ms[0].end() + 1:j - 1], pointer_types(func_sig(src, fname), parse_block(body)))


def struct_vector(text, field):
    m = re.search(r"\.%s\s*=\s*\{(.*?)\}" % field, text, flags=re.S)
    if not m:
        raise NotFound("test vector field " + field)
    return [int_literal(t) for t in (x.strip() for x in m.group(1).split(",")) if t]


# ---------------------------------------------------------------------------- selection logic

def preprocess(src, defined):
    """Evaluate the conditional-compilation lines of (comment-free) C text for the macro set
    `defined`: #if / #elif over defined(X) with ! && || and parentheses, #ifdef, #ifndef, #else,
    #endif; an active object-like `#define NAME` with empty body adds NAME.  Other directives and
    text of active regions are kept, inactive regions are dropped."""
    defined = set(defined)
    out, stack = [], []          # stack of [parent_active, this_branch_active, some_branch_taken]
    lines = src.split("\n")
    i = 0

    def active():
        return all(f[0] and f[1] for f in stack)

    def cond(expr):
        e = re.sub(r"defined\s*\(\s*(\w+)\s*\)|defined\s+(\w+)",
                   lambda m: " True " if (m.group(1) or m.group(2)) in defined else " False ", expr)
        e = e.replace("&&", " and ").replace("||", " or ").replace("!", " not ")
        if not re.fullmatch(r"[\s()]*(?:(?:True|False|and|or|not)[\s()]*)+", e):
            raise NotFound("preprocessor condition not understood: " + expr.strip())
        return bool(eval(e, {"__builtins__": {}}))

    while i < len(lines):
        line = lines[i]
        full = line
        while full.rstrip().endswith("\\") and i + 1 < len(lines):
            i += 1
            full += "\n" + lines[i]
        i += 1
        m = re.match(r"\s*#\s*(\w+)\b(.*)$", line, flags=re.S)
        if not m:
            if active():
                out.append(full)
            continue
        d, rest = m.group(1), m.group(2)
        if d in ("if", "ifdef", "ifndef"):
            par = active()
            if d == "if":
                v = cond(rest) if par else False
            else:
                v = (rest.strip() in defined) == (d == "ifdef")
            stack.append([True, v, v])
        elif d == "elif":
            if not stack:
                raise NotFound("#elif without #if")
            f = stack[-1]
            v = (not f[2]) and cond(rest)
            f[1] = v
            f[2] = f[2] or v
        elif d == "else":
            if not stack:
                raise NotFound("#else without #if")
            f = stack[-1]
            f[1] = not f[2]
            f[2] = True
        elif d == "endif":
            if not stack:
                raise NotFound("#endif without #if")
            stack.pop()
        elif active():
            dm = re.match(r"\s*#\s*define\s+(\w+)\s*$", line)
            if dm:
                defined.add(dm.group(1))
            out.append(full)
    if stack:
        raise NotFound("unterminated #if")
    return "\n".join(out)


def balanced(text, i, open_c="(", close_c=")"):
    """text[i] == open_c: index just past the matching close_c."""
    if i >= len(text) or text[i] != open_c:
        raise NotFound("expected '%s'" % open_c)
    depth = 0
    for j in range(i, len(text)):
        if text[j] == open_c:
            depth += 1
        elif text[j] == close_c:
            depth -= 1
            if depth == 0:
                return j + 1
    raise NotFound("unbalanced '%s'" % open_c)


def top_level_args(text):
    args, depth, cur = [], 0, ""
    for ch in text:
        if ch in "([{":
            depth += 1
        elif ch in ")]}":
            depth -= 1
        if ch == "," and depth == 0:
            args.append(cur)
            cur = ""
        else:
            cur += ch
    args.append(cur)
    return [squeeze(a) for a in args]


def strip_parens(e):
    e = squeeze(e)
    while e.startswith("(") and balanced(e, 0) == len(e):
        e = e[1:-1]
    return e


# statement kinds of an hwaccel_init body (interpreted by Crypto/AesSelect.v: run_init)
K_UNKNOWN, K_LATCH, K_ASSIGN, K_VALIDATE, K_ABORT_IF, K_CASE, K_CASE_NOP, K_DEFAULT_ASSERT, K_IF_ASSIGN = range(9)
# entries of a dispatching function (AesSelect.v: dispatch)
D_UNKNOWN, D_INIT, D_IF_HW, D_DEFAULT = 20, 21, 22, 23


def init_statements(body, var="hwaccel"):
    """hwaccel_init body -> [(kind, hw value, expression text, number)]"""
    out, i = [], 0
    v = re.escape(var)
    while True:
        while i < len(body) and body[i].isspace():
            i += 1
        if i >= len(body):
            return out
        rest = body[i:]
        m = re.match(r"if\s*\(\s*%s\s*!=\s*(\w+)\s*\)\s*return\s*;" % v, rest)
        if m:
            out.append((K_LATCH, m.group(1), "", 0)); i += m.end(); continue
        m = re.match(r"%s\s*=\s*(\w+)\s*;" % v, rest)
        if m:
            out.append((K_ASSIGN, m.group(1), "", 0)); i += m.end(); continue
        m = re.match(r"CPUSUPPORT_VALIDATE\s*(?=\()", rest)
        if m:
            j = balanced(rest, m.end())
            args = top_level_args(rest[m.end() + 1:j - 1])
            m2 = re.match(r"\s*;", rest[j:])
            if len(args) == 4 and args[0] == var and m2:
                out.append((K_VALIDATE, args[1], args[2] + "\0" + args[3], 0)); i += j + m2.end(); continue
        m = re.match(r"switch\s*(?=\()", rest)
        if m:
            j = balanced(rest, m.end())
            scrut = strip_parens(rest[m.end():j])
            m2 = re.match(r"\s*(?=\{)", rest[j:])
            if m2:
                k = balanced(rest, j + m2.end(), "{", "}")
                inner = rest[j + m2.end() + 1:k - 1]
                pos, entries, ok = 0, [], True
                while True:
                    m3 = re.match(r"\s*case\s+(\w+)\s*:\s*(?:%s\s*=\s*(\w+)\s*;)?\s*break\s*;" % v, inner[pos:])
                    if m3:
                        if m3.group(2):
                            entries.append((K_CASE, m3.group(2), scrut, int_literal(m3.group(1))))
                        else:
                            entries.append((K_CASE_NOP, "", scrut, int_literal(m3.group(1))))
                        pos += m3.end(); continue
                    m3 = re.match(r"\s*default\s*:\s*assert\s*\(\s*0\s*\)\s*;", inner[pos:])
                    if m3:
                        entries.append((K_DEFAULT_ASSERT, "", scrut, 0)); pos += m3.end(); continue
                    ok = not inner[pos:].strip()
                    break
                if ok:
                    out += entries; i += k; continue
        m = re.match(r"if\s*(?=\()", rest)
        if m:
            j = balanced(rest, m.end())
            pred = strip_parens(rest[m.end():j])
            m2 = re.match(r"\s*%s\s*=\s*(\w+)\s*;" % v, rest[j:])
            if m2:
                out.append((K_IF_ASSIGN, m2.group(1), pred, 0)); i += j + m2.end(); continue
            m2 = re.match(r"\s*(?=\{)", rest[j:])
            if m2:
                k = balanced(rest, j + m2.end(), "{", "}")
                blk = rest[j + m2.end() + 1:k - 1]
                if re.search(r"\babort\s*\(\s*\)\s*;\s*$", blk) and var not in blk:
                    out.append((K_ABORT_IF, "", pred, 0)); i += k; continue
        # no form for this statement: emit its text
        m = re.match(r"[^;{]*(;|\{)", rest)
        if m and m.group(1) == "{":
            j = balanced(rest, m.end() - 1, "{", "}")
        else:
            j = m.end() if m else len(rest)
        # no form for this statement: refuse the function (the pinned output is then used and the
        # correspondence run decides), never emit a reading the interpreter would have to guess at
        raise NotFound("hwaccel_init statement with no form: " + squeeze(rest[:j])[:120])


def const_fold(text):
    """value of a C integer constant expression made of literals, + - * << >> and parentheses, else None"""
    t = re.sub(r"(?<=[0-9a-fA-F])[uUlL]+\b", "", squeeze(text))
    if not re.fullmatch(r"[0-9xXa-fA-F()+\-*<>]+", t) or not re.search(r"\d", t):
        return None
    try:
        v = eval(t, {"__builtins__": {}})
    except Exception:
        return None
    return v if isinstance(v, int) and not isinstance(v, bool) else None


def canon_threshold(cond):
    """`buflen >= K` in any equivalent spelling (K a constant expression, mirrored operands,
    `> K-1`) -> 'buflen>=<K>'; None if the text is not of that kind"""
    c = strip_parens(cond)
    for rx, swap, strict in ((r"(\w+)>=(.+)", False, False), (r"(.+)<=(\w+)", True, False),
                             (r"(\w+)>(?!=)(.+)", False, True), (r"(.+)<(?!=)(\w+)", True, True)):
        m = re.fullmatch(rx, c)
        if not m:
            continue
        var, k = (m.group(2), m.group(1)) if swap else (m.group(1), m.group(2))
        v = const_fold(k)
        if re.fullmatch(r"[A-Za-z_]\w*", var) and v is not None:
            return "%s>=%d" % (var, v + 1 if strict else v)
    return None


def dispatch_entries(body, default_rx, default_name, var="hwaccel"):
    """A function that tests hwaccel: the calls of hwaccel_init() and the `if (.. hwaccel == V ..)`
    statements in source order, then what the fall-through code does.  Conditions are emitted in one
    canonical spelling (`hwaccel==V`, `buflen>=<K>`); a test of hwaccel in any other form is refused."""
    ev = []
    for m in re.finditer(r"\bhwaccel_init\s*\(\s*\)\s*;", body):
        ev.append((m.start(), (D_INIT, "", "", "")))
    last = 0
    for m in re.finditer(r"\bif\s*(?=\()", body):
        j = balanced(body, m.end())
        c = strip_parens(body[m.end():j])
        if var not in c:
            continue
        parts = [strip_parens(p) for p in re.split(r"&&", c)]
        hws, others = [], []
        for p_ in parts:
            mm = re.fullmatch(r"%s==(\w+)" % re.escape(var), p_) or re.fullmatch(r"(\w+)==%s" % re.escape(var), p_)
            if mm:
                hws.append(mm.group(1))
            else:
                others.append(p_)
        tail = body[j:]
        m2 = re.match(r"\s*return\s*\(?\s*(\w+)", tail) or re.match(r"\s*\{\s*(\w+)\s*\([^;]*;\s*return\s*;\s*\}", tail)
        other = ""
        if len(others) == 1:
            other = canon_threshold(others[0])
        if len(hws) == 1 and len(others) <= 1 and other is not None and "||" not in c and m2:
            ev.append((m.start(), (D_IF_HW, hws[0], m2.group(1), other)))
            last = max(last, j + m2.end())
        else:
            raise NotFound("test of %s with no form: %s" % (var, squeeze(body[m.start():j])[:120]))
    ev.sort()
    out = [e for _, e in ev]
    if re.search(default_rx, body[last:], flags=re.S):
        out.append((D_DEFAULT, "", default_name, ""))
    else:
        raise NotFound("fall-through code of a function testing %s: no form" % var)
    return out


def coq_prog(name, entries):
    """list (N * list N * list N * list N * N): (kind, hwaccel value, text, text2, number)"""
    rows = []
    for e in entries:
        kind, hw, a, b = e
        if isinstance(b, int):
            t2, num = "", b
        else:
            t2, num = b, 0
        if kind == K_VALIDATE:
            a, t2 = a.split("\0")
        rows.append("(%d%%N, %s, %s, %s, %d%%N)" % (kind, coq_text(hw), coq_text(a), coq_text(t2), num))
    return "Definition %s : list (N * list N * list N * list N * N) :=\n  [%s].\n" % (name, ";\n   ".join(rows))


def coq_text(s):
    """a short C text as list N, with the text itself in a comment"""
    safe = s.replace("(*", "( *").replace("*)", "* )").replace('"', "'")
    return "(%s (* %s *))" % (coq_list_N(list(s.encode()), per_line=32), safe) if s else "[]"


def static_init(src, var="hwaccel"):
    m = re.search(r"\}\s*%s\s*=\s*(\w+)\s*;" % re.escape(var), src)
    if not m:
        raise NotFound("initialiser of static " + var)
    return m.group(1)


# CPUSUPPORT_VALIDATE as the selection interpreter (Crypto/AesSelect.v, known_validate_macro) knows it
KNOWN_VALIDATE = ('do{if((cpusupport_checks)){if((check)==0){(hwvar)=(success_value);return;}else{'
                  'warn0("Disabling"#success_value"duetofailedself-test");}}}while(0)')


def macro_normal_form(t):
    """token-level normal form of a (whitespace-free) macro body: adjacent string literals joined,
    redundant parentheses around a parenthesised identifier removed"""
    prev = None
    while prev != t:
        prev = t
        t = t.replace('""', '')
        t = re.sub(r"\(\((\w+)\)\)", r"(\1)", t)
        t = re.sub(r"\bif\((\w+)\)\{", r"if((\1)){", t)     # if (x) {  ==  if ((x)) {
        t = re.sub(r"\(\((\w+)\)\)", r"(\1)", t)
    return t


def validate_macro_text(cs):
    """Read-or-refuse: the interpreter can only run the macro it knows.  A body that is the known one
    up to string-literal splitting and redundant parentheses IS the known one and is emitted in the
    known spelling; any other body is not understood here (NotFound: pinned data + correspondence)."""
    t = squeeze(macro_body(cs, "CPUSUPPORT_VALIDATE"))
    if t == KNOWN_VALIDATE:
        return t
    if macro_normal_form(t) == macro_normal_form(KNOWN_VALIDATE):
        return KNOWN_VALIDATE
    raise NotFound("CPUSUPPORT_VALIDATE has a body this module does not read: " + t[:120])


def selection(repo):
    cs = strip_comments(read(repo, "cpusupport/cpusupport.h"))
    aes0 = strip_comments(read(repo, "crypto/crypto_aes.c"))
    ctr0 = strip_comments(read(repo, "crypto/crypto_aesctr.c"))
    out = HEADER
    out += "(* cpusupport.h: #define CPUSUPPORT_VALIDATE(hwvar, success_value, cpusupport_checks, check) *)\n"
    out += "Definition validate_macro : list N :=\n  %s.\n" % coq_text(validate_macro_text(cs))
    for tag, defined in (("ni", {"CPUSUPPORT_X86_AESNI"}), ("none", set())):
        aes, ctr = preprocess(aes0, defined), preprocess(ctr0, defined)
        out += "\n(* ---- build configuration: %s *)\n" % (", ".join(sorted(defined)) or "no CPUSUPPORT_* feature macro")
        hw = "HWACCEL" in re.findall(r"#\s*define\s+(\w+)\s*$", aes, flags=re.M)
        if hw:
            out += "Definition %s_aes_unset : list N := %s.\n" % (tag, coq_text(static_init(aes)))
            out += coq_prog("%s_aes_init" % tag, init_statements(func_body(aes, "hwaccel_init")))
        else:
            out += "Definition %s_aes_unset : list N := [].\n" % tag
            out += coq_prog("%s_aes_init" % tag, [])
        out += coq_prog("%s_aes_can_use" % tag, dispatch_entries(func_body(aes, "crypto_aes_can_use_intrinsics"),
                                                                  r"\breturn\s*\(\s*0\s*\)\s*;\s*$", "0"))
        out += coq_prog("%s_aes_key_expand" % tag, dispatch_entries(func_body(aes, "crypto_aes_key_expand"),
                                                                     r"\bAES_set_encrypt_key\s*\(", "AES_set_encrypt_key"))
        out += coq_prog("%s_aes_encrypt_block" % tag, dispatch_entries(func_body(aes, "crypto_aes_encrypt_block"),
                                                                        r"\bAES_encrypt\s*\([^;]*;\s*$", "AES_encrypt"))
        hwc = "HWACCEL" in re.findall(r"#\s*define\s+(\w+)\s*$", ctr, flags=re.M)
        if hwc:
            out += "Definition %s_ctr_unset : list N := %s.\n" % (tag, coq_text(static_init(ctr)))
            out += coq_prog("%s_ctr_init" % tag, init_statements(func_body(ctr, "hwaccel_init")))
        else:
            out += "Definition %s_ctr_unset : list N := [].\n" % tag
            out += coq_prog("%s_ctr_init" % tag, [])
        out += coq_prog("%s_ctr_init2" % tag, [e for e in dispatch_entries(func_body(ctr, "crypto_aesctr_init2"), r"", "")
                                               if e[0] != D_DEFAULT])
        out += coq_prog("%s_ctr_stream" % tag, dispatch_entries(
            func_body(ctr, "crypto_aesctr_stream"),
            r"crypto_aesctr_stream_pre_wholeblock\s*\(.*crypto_aesctr_stream_cipherblock_generate\s*\(.*"
            r"crypto_aesctr_stream_post_wholeblock\s*\(", "portable"))
    return out


# ---------------------------------------------------------------------------- bookkeeping arithmetic
# The scalar statements of the three CTR files as expression trees (Crypto/AesCtrArith.v gives them
# their C meaning).  Nothing here evaluates anything: spelling -> tree.

CTYPES = {
    "size_t": "U64", "uint64_t": "U64", "uintptr_t": "U64", "unsigned long": "U64", "unsigned long long": "U64",
    "unsigned long int": "U64", "long unsigned int": "U64",
    "uint32_t": "U32", "unsigned": "U32", "unsigned int": "U32",
    "uint16_t": "U16", "unsigned short": "U16", "uint8_t": "U8", "unsigned char": "U8",
    "int64_t": "S64", "ssize_t": "S64", "long": "S64", "long long": "S64", "long int": "S64", "ptrdiff_t": "S64",
    "int32_t": "S32", "int": "S32", "int16_t": "S16", "short": "S16", "int8_t": "S8", "signed char": "S8",
}
TYPE_WORDS = set(w for t in CTYPES for w in t.split())
V_BYTECTR, V_BUFLEN, V_INOFF, V_OUTOFF, V_NBYTES, V_BYTEMOD, V_PBLKB, V_LOCAL0 = 1, 2, 3, 4, 5, 6, 7, 16

TOKEN = re.compile(r"\s*(0[xX][0-9a-fA-F]+[uUlL]*|\d+[uUlL]*|[A-Za-z_]\w*|->|<<=|>>=|<<|>>|<=|>=|==|!=|&&|\|\||"
                   r"\+\+|--|[-+*/%&|^]=|[-+*/%&|^~!<>()\[\]=?:,.])")
BINOPS = {"*": (10, "OMul"), "/": (10, "ODiv"), "%": (10, "OMod"), "+": (9, "OAdd"), "-": (9, "OSub"),
          "<<": (8, "OShl"), ">>": (8, "OShr"), "<": (7, "OLt"), "<=": (7, "OLe"), ">": (7, "OGt"), ">=": (7, "OGe"),
          "==": (6, "OEq"), "!=": (6, "ONe"), "&": (5, "OAnd"), "^": (4, "OXor"), "|": (3, "OOr")}
ASSIGN_OPS = {"=": None, "+=": "OAdd", "-=": "OSub", "*=": "OMul", "/=": "ODiv", "%=": "OMod", "&=": "OAnd",
              "|=": "OOr", "^=": "OXor", "<<=": "OShl", ">>=": "OShr"}


def tokens(text):
    out, i = [], 0
    text = text.strip()
    while i < len(text):
        m = TOKEN.match(text, i)
        if not m:
            return None
        out.append(m.group(1))
        i = m.end()
    return out


def literal(tok):
    """C11 6.4.4.1 on LP64: (type, value) of an integer literal as spelled."""
    m = re.fullmatch(r"(0[xX][0-9a-fA-F]+|\d+)([uUlL]*)", tok)
    body, suf = m.group(1), m.group(2).lower()
    v = int(body, 0) if not (len(body) > 1 and body[0] == "0" and body[1] not in "xX") else int(body, 8)
    dec = not (body[0] == "0" and len(body) > 1)
    u, nl = "u" in suf, suf.count("l")
    if u and nl == 0:
        cands = ["U32", "U64"]
    elif u:
        cands = ["U64"]
    elif nl and dec:
        cands = ["S64"]
    elif nl:
        cands = ["S64", "U64"]
    elif dec:
        cands = ["S32", "S64"]
    else:
        cands = ["S32", "U32", "S64", "U64"]
    lim = {"S32": 1 << 31, "U32": 1 << 32, "S64": 1 << 63, "U64": 1 << 64}
    for c in cands:
        if v < lim[c]:
            return c, v
    return None


class ExprParser:
    """vars: C lvalue spelling (no white space) -> variable number; pblk: (spelling of stream->pblk, K)"""

    def __init__(self, toks, vars, pblk=None):
        self.t, self.i, self.vars, self.pblk = toks, 0, vars, pblk
        self.bad = False

    def peek(self, k=0):
        return self.t[self.i + k] if self.i + k < len(self.t) else None

    def take(self):
        self.i += 1
        return self.t[self.i - 1]

    def unknown(self):
        self.bad = True
        return "EUnknown"

    def type_at(self, i):
        """a type name in parentheses starting at token i ('(' already seen)? -> (ctype, index after ')')"""
        j, words = i, []
        while j < len(self.t) and self.t[j] in TYPE_WORDS | {"const"}:
            if self.t[j] != "const":
                words.append(self.t[j])
            j += 1
        if words and j < len(self.t) and self.t[j] == ")" and " ".join(words) in CTYPES:
            return CTYPES[" ".join(words)], j + 1
        return None

    def lvalue(self):
        """[*] name [-> field] [ [expr] ]  ->  variable reference or None (position restored)"""
        save, text = self.i, ""
        if self.peek() == "*":
            text += self.take()
        if self.peek() == "(" and text == "":
            return None
        if not (self.peek() and re.fullmatch(r"[A-Za-z_]\w*", self.peek())):
            self.i = save
            return None
        text += self.take()
        while self.peek() in ("->", "."):
            text += self.take()
            text += self.take() or ""
        if self.peek() == "[":
            if self.pblk and text == self.pblk[0] and self.peek(2) == "]" and self.peek(1) and \
                    re.fullmatch(r"\d+|0[xX][0-9a-fA-F]+", self.peek(1)) and int(self.peek(1), 0) == self.pblk[1]:
                self.i += 3
                return "(EVar %d%%N)" % V_PBLKB
            self.i = save
            return None
        if text in self.vars:
            return "(EVar %d%%N)" % self.vars[text]
        self.i = save
        return None

    def unary(self):
        t = self.peek()
        if t is None:
            return self.unknown()
        if t == "(":
            ty = self.type_at(self.i + 1)
            if ty:
                self.i = ty[1]
                return "(ECast %s %s)" % (ty[0], self.unary())
            self.take()
            # (*name) is an lvalue in parentheses
            e = self.expr(0)
            if self.peek() != ")":
                return self.unknown()
            self.take()
            return e
        if t in ("~", "-", "!"):
            self.take()
            return "(EUn %s %s)" % ({"~": "UNot", "-": "UNeg", "!": "ULnot"}[t], self.unary())
        if t == "+":
            self.take()
            return self.unary()
        if re.fullmatch(r"(0[xX][0-9a-fA-F]+|\d+)[uUlL]*", t):
            self.take()
            lt = literal(t)
            if not lt:
                return self.unknown()
            return "(ELit %s %d (* %s *))" % (lt[0], lt[1], t)
        lv = self.lvalue()
        if lv:
            return lv
        self.take()
        return self.unknown()

    def expr(self, minprec):
        left = self.unary()
        while self.peek() in BINOPS and BINOPS[self.peek()][0] >= minprec:
            prec, name = BINOPS[self.take()]
            right = self.expr(prec + 1)
            left = "(EBin %s %s %s)" % (name, left, right)
        return left


def refuse(what):
    """The statement / expression / function shape has no form here: the whole module is refused (the
    pinned output is installed and the correspondence run decides); a guessed reading is never emitted."""
    raise NotFound("CTR bookkeeping: no form for " + re.sub(r"\s+", " ", what).strip()[:140])


def parse_expr(text, vars, pblk=None):
    toks = tokens(text)
    if not toks:
        refuse("expression `%s`" % text)
    p = ExprParser(toks, vars, pblk)
    e = p.expr(0)
    if p.i != len(toks) or p.bad:
        refuse("expression `%s`" % text)
    return e


def parse_lvalue(text, vars, pblk=None):
    toks = tokens(text)
    if not toks:
        return None
    while len(toks) >= 2 and toks[0] == "(" and toks[-1] == ")" and balanced("".join(toks), 0) == len("".join(toks)):
        toks = toks[1:-1]
    p = ExprParser(toks, vars, pblk)
    lv = p.lvalue()
    if lv is None or p.i != len(toks):
        return None
    return int(re.search(r"\d+", lv).group(0))


def comment(text):
    return "(* %s *)" % re.sub(r"\s+", " ", text).strip().replace("(*", "( *").replace("*)", "* )")


def ptr_off(text):
    """`base + N`, `&base[N]`, `base` (parentheses ignored) -> (base without white space, N) or None"""
    e = strip_parens(squeeze(text))
    m = re.fullmatch(r"&(.+)\[(\d+)\]", e)
    if m:
        return strip_parens(m.group(1)), int(m.group(2))
    m = re.fullmatch(r"(.+?)\+(\d+)", e)
    if m and balanced_ok(m.group(1)):
        return strip_parens(m.group(1)), int(m.group(2))
    m = re.fullmatch(r"(\d+)\+(.+)", e)
    if m and balanced_ok(m.group(2)):
        return strip_parens(m.group(2)), int(m.group(1))
    if re.fullmatch(r"[\w>.-]+", e):
        return e, 0
    return None


def balanced_ok(e):
    d = 0
    for ch in e:
        d += ch in "([" 
        d -= ch in ")]"
        if d < 0:
            return False
    return d == 0


def is_vec_stmt(text):
    return re.search(r"_mm_|load_si64|crypto_aes_encrypt_block_aesni_m128i", text) is not None


def parse_stmt(text, vars, pblk=None, arr=None, pblk_name=None):
    """one expression statement (no trailing ';') -> Coq cstmt; refused if it has no form"""
    text = text.strip()
    c = " " + comment(text)
    a = call_args(text, "assert")
    if a is not None:
        if len(a) != 1:
            refuse(text)
        return "SAssert %s%s" % (parse_expr(a[0], vars, pblk), c)
    m = re.fullmatch(r"(.+?)\s*(\+\+|--)", text, flags=re.S) or None
    pre = re.fullmatch(r"(\+\+|--)\s*(.+)", text, flags=re.S)
    if m or pre:
        lvt, op = (m.group(1), m.group(2)) if m else (pre.group(2), pre.group(1))
        lv = parse_lvalue(lvt, vars, pblk)
        if lv is None:
            refuse(text)
        return "SAssign %d%%N (Some %s) (ELit S32 1)%s" % (lv, "OAdd" if op == "++" else "OSub", c)
    a = call_args(text, "be64enc")
    if a is not None:
        d = ptr_off(a[0]) if len(a) == 2 else None
        if d and arr and d == (arr, 0):
            return "SBe64 0%%N 0%%N %s%s" % (parse_expr(a[1], vars, pblk), c)
        if d and pblk_name and d[0] == pblk_name:
            return "SBe64 1%%N %d%%N %s%s" % (d[1], parse_expr(a[1], vars, pblk), c)
        refuse(text)
    a = call_args(text, "memcpy")
    if a is not None:
        d = ptr_off(a[0]) if len(a) == 3 else None
        src = ptr_off(a[1]) if len(a) == 3 else None
        ln = None
        if len(a) == 3:
            ln = const_fold(a[2])
            if ln is None and arr and strip_parens(squeeze(a[2])) in ("sizeof(%s)" % arr, "sizeof%s" % arr):
                ln = 8
        if d and src and pblk_name and d[0] == pblk_name and arr and src == (arr, 0) and ln is not None and 0 < ln <= 8:
            return "SMemcpy %d%%N %d%%N%s" % (d[1], ln, c)
        refuse(text)
    # assignment: the first top-level assignment operator
    toks = tokens(text)
    if toks:
        depth = 0
        for k, t in enumerate(toks):
            if t in "([":
                depth += 1
            elif t in ")]":
                depth -= 1
            elif depth == 0 and t in ASSIGN_OPS:
                lhs = " ".join(toks[:k])
                rhs = " ".join(toks[k + 1:])
                lv = parse_lvalue(lhs, vars, pblk)
                if lv is not None:
                    op = ASSIGN_OPS[t]
                    return "SAssign %d%%N %s %s%s" % (lv, "(Some %s)" % op if op else "None", parse_expr(rhs, vars, pblk), c)
                break
    if is_vec_stmt(text):
        return "SVec" + c
    refuse(text)


def top_level_args_ws(text):
    args, depth, cur = [], 0, ""
    for ch in text:
        if ch in "([{":
            depth += 1
        elif ch in ")]}":
            depth -= 1
        if ch == "," and depth == 0:
            args.append(cur)
            cur = ""
        else:
            cur += ch
    args.append(cur)
    return [a.strip() for a in args]


# ---- a small statement parser: C block text -> nodes
def parse_block(text):
    """-> list of ('decl', text) | ('expr', text) | ('return', text) | ('if', cond, then, else)
               | ('while', cond, body) | ('do', body, cond) | ('for', init, cond, step, body) | ('other', text)"""
    out, i, n = [], 0, len(text)

    def ws(i):
        while i < n and text[i].isspace():
            i += 1
        return i

    def stmt(i):
        """parse one statement at i -> (node list, next index)"""
        i = ws(i)
        if i >= n:
            return [], i
        if text[i] == "{":
            j = balanced(text, i, "{", "}")
            return parse_block(text[i + 1:j - 1]), j
        if text[i] == ";":
            return [], i + 1
        m = re.match(r"(if|while|for)\s*(?=\()", text[i:])
        if m:
            kw = m.group(1)
            j = balanced(text, i + m.end())
            head = text[i + m.end() + 1:j - 1]
            body, k = stmt(j)
            if kw == "if":
                k2 = ws(k)
                m2 = re.match(r"else\b", text[k2:])
                if m2:
                    els, k = stmt(k2 + m2.end())
                else:
                    els = []
                return [("if", head, body, els)], k
            if kw == "while":
                return [("while", head, body)], k
            parts = head.split(";")
            if len(parts) != 3:
                return [("other", text[i:k])], k
            return [("for", parts[0].strip(), parts[1].strip(), parts[2].strip(), body)], k
        m = re.match(r"do\b", text[i:])
        if m:
            body, k = stmt(i + m.end())
            k = ws(k)
            m2 = re.match(r"while\s*(?=\()", text[k:])
            if not m2:
                return [("other", text[i:k])], k
            j = balanced(text, k + m2.end())
            cond = text[k + m2.end() + 1:j - 1]
            j = ws(j)
            if j < n and text[j] == ";":
                j += 1
            return [("do", body, cond)], j
        # simple statement up to the ';' at depth 0
        depth, j = 0, i
        while j < n and not (text[j] == ";" and depth == 0):
            if text[j] in "([{":
                depth += 1
            elif text[j] in ")]}":
                depth -= 1
            j += 1
        s = text[i:j].strip()
        if re.match(r"return\b", s):
            return [("return", s[6:].strip())], j + 1
        if re.match(r"(?:(?:const|static|volatile|struct|unsigned|signed|long|short)\s+)*[A-Za-z_]\w*(?:\s*\*+\s*(?:const\s+)?|\s+)"
                    r"[A-Za-z_]\w*\s*(?:\[[^\]]*\])?\s*(?:=(?!=).*)?$", s, flags=re.S) \
                and not re.match(r"(?:return|goto|else|do|case)\b", s):
            # `T name = init` is a declaration followed by the assignment `name = init`
            dm = re.fullmatch(r"(.*?\b(\w+)\s*)=(?!=)(.*)", s, flags=re.S)
            if dm and "[" not in dm.group(1):
                return [("decl", dm.group(1).strip()), ("expr", "%s = %s" % (dm.group(2), dm.group(3).strip()))], j + 1
            return [("decl", s)], j + 1
        return [("expr", s)], j + 1

    while True:
        i = ws(i)
        if i >= n:
            return out
        nodes, i = stmt(i)
        out += nodes


def func_sig(src, name):
    """parameter list of the definition of `name`: [(type text, number of '*', name)]"""
    for m in re.finditer(r"^%s\s*(?=\()" % re.escape(name), src, flags=re.M):
        j = balanced(src, m.end())
        if not re.match(r"\s*\{", src[j:]):
            continue
        out = []
        for p in top_level_args_ws(src[m.end() + 1:j - 1]):
            if p.strip() in ("void", ""):
                continue
            mm = re.fullmatch(r"(.*?)([\s*]+)(\w+)", p.strip(), flags=re.S)
            if not mm:
                raise NotFound("parameter '%s' of %s" % (p, name))
            ty = re.sub(r"\bconst\b", " ", mm.group(1))
            out.append((" ".join(ty.split()), mm.group(2).count("*"), mm.group(3)))
        return out
    raise NotFound("definition of " + name)


def ctype_of(text):
    t = " ".join(re.sub(r"\bconst\b|\bvolatile\b|\bstatic\b", " ", text).split())
    return CTYPES.get(t)


def struct_fields(src, name):
    m = re.search(r"struct\s+%s\s*\{(.*?)\}\s*;" % re.escape(name), src, flags=re.S)
    if not m:
        raise NotFound("struct " + name)
    out = {}
    for d in m.group(1).split(";"):
        mm = re.fullmatch(r"\s*(.*?)[\s*]+(\w+)\s*(?:\[(\w+)\])?\s*", d, flags=re.S)
        if mm:
            out[mm.group(2)] = (ctype_of(mm.group(1)), mm.group(3))
    return out


def stream_vars(sig, by_value):
    """variable table of a function whose first four parameters are (stream, inbuf, outbuf, buflen);
    by_value: the last three are passed by value (crypto_aesctr_stream) instead of through pointers"""
    if len(sig) < 4:
        raise NotFound("stream function with fewer than four parameters")
    d = "" if by_value else "*"
    if [p[1] for p in sig[1:4]] != ([1, 1, 0] if by_value else [2, 2, 1]):
        raise NotFound("pointer levels of the (inbuf, outbuf, buflen) parameters")
    return {sig[0][2] + "->bytectr": V_BYTECTR, d + sig[3][2]: V_BUFLEN, d + sig[1][2]: V_INOFF, d + sig[2][2]: V_OUTOFF}


def coq_ty(name, t, c=""):
    if t is None:
        raise NotFound("integer type of " + name)
    return "Definition %s : cty := %s.%s\n" % (name, t, "  " + comment(c) if c else "")


def coq_expr(name, e, c):
    return "Definition %s : cexpr :=\n  %s.  %s\n" % (name, e, comment(c))


def coq_stmts(name, l):
    return "Definition %s : list cstmt :=\n  [%s].\n" % (name, ";\n   ".join(l))


def coq_decls(name, l):
    return "Definition %s : list (N * cty) := [%s].\n" % (name, "; ".join("(%d%%N, %s)" % x for x in l))


def call_args(text, callee):
    m = re.fullmatch(r"%s\s*\((.*)\)" % re.escape(callee), text.strip(), flags=re.S)
    return top_level_args_ws(m.group(1)) if m else None


USE, GEN = "crypto_aesctr_stream_cipherblock_use", "crypto_aesctr_stream_cipherblock_generate"
PRE, POST = "crypto_aesctr_stream_pre_wholeblock", "crypto_aesctr_stream_post_wholeblock"


def use_call(node, first4, vars):
    """node = ('expr', 'crypto_aesctr_stream_cipherblock_use(a, b, c, d, NBYTES, BYTEMOD)') with the
    first four arguments as expected -> (expr, expr, text)"""
    a = call_args(node[1], USE) if node[0] == "expr" else None
    if not a or len(a) != 6 or [strip_parens(squeeze(x)) for x in a[:4]] != first4:
        refuse("call of %s: %s" % (USE, node[1] if len(node) > 1 else node[0]))
    return parse_expr(a[4], vars), parse_expr(a[5], vars), node[1]


def coq_call(name, r):
    return "Definition %s : cexpr * cexpr :=\n  (%s,\n   %s).  %s\n" % (name, r[0], r[1], comment(r[2]))


def is_call(text, callee, args):
    a = call_args(strip_parens_ws(text), callee)
    return a is not None and [strip_parens(squeeze(x)) for x in a] == args


def strip_parens_ws(t):
    t = t.strip()
    while t.startswith("(") and balanced(t, 0) == len(t):
        t = t[1:-1].strip()
    return t


def truth_of_call(cond, callee, args):
    """`f(args)`, `f(args) != 0`, `0 != f(args)` (any parentheses): the condition "f returned non-zero" """
    c = strip_parens_ws(cond)
    m = re.fullmatch(r"(.+?)\s*!=\s*0", c, flags=re.S) or re.fullmatch(r"0\s*!=\s*(.+)", c, flags=re.S)
    if m and is_call(m.group(1), callee, args):
        return True
    return is_call(c, callee, args)


def assigned_names(text):
    """identifiers on the left of an assignment / ++ / -- of one expression statement"""
    t = text.strip()
    m = re.fullmatch(r"(.+?)\s*(?:\+\+|--)", t, flags=re.S) or re.fullmatch(r"(?:\+\+|--)\s*(.+)", t, flags=re.S)
    if m:
        return set(re.findall(r"[A-Za-z_]\w*", m.group(1)))
    toks = tokens(t) or []
    depth = 0
    for k, tk in enumerate(toks):
        if tk in "([":
            depth += 1
        elif tk in ")]":
            depth -= 1
        elif depth == 0 and tk in ASSIGN_OPS:
            return set(x for x in toks[:k] if re.fullmatch(r"[A-Za-z_]\w*", x))
    return set()


def plain_assign(text):
    """`name = rhs` -> (name, rhs) else None"""
    m = re.fullmatch(r"([A-Za-z_]\w*)\s*=(?!=)\s*(.+)", text.strip(), flags=re.S)
    return (m.group(1), m.group(2)) if m else None


def scalar_decls(nodes):
    """declared scalar integer locals: name -> (ctype, type text)"""
    decl = {}
    for nd in nodes:
        if nd[0] == "decl":
            m = re.fullmatch(r"(.*?)[\s*]+(\w+)\s*(\[[^\]]*\])?\s*", nd[1], flags=re.S)
            if m and not m.group(3) and "*" not in nd[1] and ctype_of(m.group(1)):
                decl[m.group(2)] = (ctype_of(m.group(1)), " ".join(re.sub(r"\bconst\b", " ", m.group(1)).split()))
    return decl


def simplify_locals(parts, decl):
    """parts: list of lists of statement texts in execution order (e.g. prologue, loop body, epilogue);
    only the FIRST and LAST lists are straight-line code executed once.
    (1) a store `x = <constant>` to a local that is overwritten by a later plain assignment of the same
        straight-line list before x is read is dead: dropped;
    (2) a local temporary assigned exactly once, by a plain assignment in straight-line code, none of
        whose operands is assigned anywhere afterwards, is replaced by ((T)(its definition)) at its uses.
    Returns the new parts."""
    word = lambda n, t: re.search(r"\b%s\b" % re.escape(n), t) is not None
    # (1)
    for li in (0, len(parts) - 1):
        l = parts[li]
        k = 0
        while k < len(l):
            pa = plain_assign(l[k])
            if pa and pa[0] in decl and const_fold(pa[1]) is not None:
                for j in range(k + 1, len(l)):
                    pj = plain_assign(l[j])
                    if pj and pj[0] == pa[0] and not word(pa[0], pj[1]):
                        del l[k]
                        k -= 1
                        break
                    if word(pa[0], l[j]):
                        break
            k += 1
    # (2)
    changed = True
    while changed:
        changed = False
        flat = [(li, k) for li, l in enumerate(parts) for k in range(len(l))]
        for name in list(decl):
            defs = [(li, k) for (li, k) in flat if name in assigned_names(parts[li][k])]
            if len(defs) != 1:
                continue
            li, k = defs[0]
            pa = plain_assign(parts[li][k])
            if not pa or li not in (0, len(parts) - 1) or word(name, pa[1]):
                continue
            pos = flat.index((li, k))
            later = [parts[a][b2] for (a, b2) in flat[pos + 1:]]
            earlier = [parts[a][b2] for (a, b2) in flat[:pos]]
            if li == 0 and len(parts) > 1 and any(word(name, t) for t in parts[1]) and len(parts) == 3:
                # used inside the loop: its operands must not change there either (covered by `later`)
                pass
            if any(word(name, t) for t in earlier):
                continue
            operands = set(re.findall(r"[A-Za-z_]\w*", pa[1]))
            if any(operands & assigned_names(t) for t in later):
                continue
            if not any(word(name, t) for t in later):
                continue                       # never used: leave it (it is then numbered like any local)
            repl = "((%s)(%s))" % (decl[name][1], pa[1])
            for (a, b2) in flat[pos + 1:]:
                parts[a][b2] = re.sub(r"\b%s\b" % re.escape(name), lambda _m: repl, parts[a][b2])
            del parts[li][k]
            del decl[name]
            changed = True
            break
    return parts


def number_locals(texts, decl, vars):
    ids, nxt = [], V_LOCAL0
    for t in texts:
        for n in sorted(assigned_names(t) & set(decl)):
            if n not in vars:
                vars[n] = nxt
                ids.append((nxt, decl[n][0]))
                nxt += 1
    return ids


def flat_texts(nodes):
    out = []
    for nd in nodes:
        if nd[0] == "expr":
            out.append(nd[1])
        elif nd[0] == "if":
            out += flat_texts(nd[2]) + flat_texts(nd[3])
        elif nd[0] == "while":
            out += flat_texts(nd[2])
        elif nd[0] == "do":
            out += flat_texts(nd[1])
        elif nd[0] == "for":
            out += [nd[1], nd[3]] + flat_texts(nd[4])
    return out


def expr_texts(nodes, what):
    out = []
    for nd in nodes:
        if nd[0] != "expr":
            refuse("%s: a `%s` statement" % (what, nd[0]))
        out.append(nd[1])
    return out


def early_returns(nodes, vars):
    """leading `if (c) return;` statements -> ([cexpr], remaining nodes)"""
    out = []
    while nodes and nodes[0][0] == "if" and not nodes[0][3] and nodes[0][2] == [("return", "")] and \
            not re.search(r"\w\s*\(", nodes[0][1]):
        out.append((parse_expr(nodes[0][1], vars), nodes[0][1]))
        nodes = nodes[1:]
    return out, nodes


def coq_exprs(name, l):
    return "Definition %s : list cexpr :=\n  [%s].\n" % (name, ";\n   ".join("%s %s" % (e, comment("if (%s) return" % t)) for e, t in l))


def canon_vec(texts, names):
    """the __m128i statements with their local names replaced by v0, v1, .. in order of appearance"""
    order = []
    joined = ";".join(squeeze(t) for t in texts)
    for m in re.finditer(r"[A-Za-z_]\w*", joined):
        if m.group(0) in names and m.group(0) not in order:
            order.append(m.group(0))
    for k, n in enumerate(order):
        joined = re.sub(r"\b%s\b" % re.escape(n), "v%d" % k, joined)
    return joined


def arithmetic(repo):
    shared = strip_comments(read(repo, "crypto/crypto_aesctr_shared.c"))
    ctr = preprocess(strip_comments(read(repo, "crypto/crypto_aesctr.c")), set())
    ni = strip_comments(read(repo, "crypto/crypto_aesctr_aesni.c"))
    out = "From Coq Require Import NArith ZArith List.\nFrom LCP Require Import Crypto.AesCtrArith.\nImport ListNotations.\nLocal Open Scope Z_scope.\n\n"
    out += "(* variables: 1 stream->bytectr, 2 *buflen, 3 *inbuf, 4 *outbuf (offsets), 5 nbytes, 6 bytemod,\n" \
           "   7 stream->pblk[gen_pblk_idx]; 16.. the function's integer locals in the order of their first assignment\n" \
           "   (dead constant initialisers dropped, single-definition temporaries replaced by their definition) *)\n\n"
    fields = struct_fields(shared, "crypto_aesctr")
    if "bytectr" not in fields or "pblk" not in fields:
        raise NotFound("fields of struct crypto_aesctr")
    out += coq_ty("ty_bytectr", fields["bytectr"][0], "struct crypto_aesctr: bytectr")
    out += coq_ty("ty_pblk", fields["pblk"][0], "struct crypto_aesctr: pblk[%s]" % fields["pblk"][1])

    # ---- crypto_aesctr_stream_cipherblock_generate:
    #      assert(A); S->pblk[K]++; if (C) be64enc(S->pblk + off, E); crypto_aes_encrypt_block(S->pblk, S->buf, S->key);
    out += "\n(* ---- %s *)\n" % GEN
    sig = func_sig(shared, GEN)
    if len(sig) != 1:
        refuse("parameters of " + GEN)
    S = sig[0][2]
    nodes = [x for x in parse_block(func_body(shared, GEN)) if x[0] != "decl"]
    if not (len(nodes) == 4 and [x[0] for x in nodes] == ["expr", "expr", "if", "expr"] and not nodes[2][3] and
            len(nodes[2][2]) == 1 and nodes[2][2][0][0] == "expr" and
            is_call(nodes[3][1], "crypto_aes_encrypt_block", [S + "->pblk", S + "->buf", S + "->key"])):
        refuse("shape of " + GEN)
    a = call_args(nodes[0][1], "assert")
    m = re.fullmatch(r"\(?\s*(?:\+\+|--)?\s*\(?\s*%s\s*->\s*pblk\s*\[\s*(\d+)\s*\]\s*\)?\s*(?:\+\+|--|[-+*/%%&|^]?=.*)" % re.escape(S),
                     nodes[1][1].strip(), flags=re.S)
    if not (a and len(a) == 1 and m):
        refuse("assert / counter byte update of " + GEN)
    K = int(m.group(1))
    pb = (S + "->pblk", K)
    gv = {S + "->bytectr": V_BYTECTR}
    out += coq_expr("gen_assert", parse_expr(a[0], gv, pb), nodes[0][1])
    out += coq_def_N("gen_pblk_idx", K)
    out += coq_stmts("gen_stmts", [parse_stmt(nodes[1][1], gv, pb)])
    out += coq_expr("gen_wrap_cond", parse_expr(nodes[2][1], gv, pb), "if (%s)" % nodes[2][1])
    be = parse_stmt(nodes[2][2][0][1], gv, pb, pblk_name=S + "->pblk")
    if not be.startswith("SBe64 1%N"):
        refuse("re-encoding statement of " + GEN)
    out += coq_stmts("gen_be64", [be])

    # ---- crypto_aesctr_stream_cipherblock_use: the byte loop, then scalar statements
    out += "\n(* ---- %s *)\n" % USE
    sig = func_sig(shared, USE)
    if len(sig) != 6 or sig[4][1] or sig[5][1]:
        refuse("parameters of " + USE)
    uv = stream_vars(sig, False)
    uv[sig[4][2]] = V_NBYTES
    uv[sig[5][2]] = V_BYTEMOD
    out += coq_ty("use_ty_buflen", ctype_of(sig[3][0]), "%s * %s" % (sig[3][0], sig[3][2]))
    out += coq_ty("use_ty_nbytes", ctype_of(sig[4][0]), "%s %s" % (sig[4][0], sig[4][2]))
    out += coq_ty("use_ty_bytemod", ctype_of(sig[5][0]), "%s %s" % (sig[5][0], sig[5][2]))
    allnodes = parse_block(func_body(shared, USE))
    nodes = [x for x in allnodes if x[0] != "decl"]
    idx = [m.group(2) for m in (re.fullmatch(r"(size_t|unsigned|unsigned int|int|uint\d+_t)\s+(\w+)", x[1].strip())
                                for x in allnodes if x[0] == "decl") if m]
    # the byte loop (hand-modelled: out[i] = in[i] ^ buf[bytemod + i], 0 <= i < nbytes, ascending) in its one known spelling
    ok = nodes and nodes[0][0] == "for" and len(idx) == 1 and len(nodes[0][4]) == 1 and nodes[0][4][0][0] == "expr"
    if ok:
        i_ = idx[0]
        ob, ib, nb_, bm_ = sig[2][2], sig[1][2], sig[4][2], sig[5][2]
        ok = squeeze(nodes[0][1]) == "%s=0" % i_ and squeeze(nodes[0][2]) == "%s<%s" % (i_, nb_) and \
            squeeze(nodes[0][3]) in ("%s++" % i_, "++%s" % i_, "%s+=1" % i_) and \
            squeeze(nodes[0][4][0][1]) in ("(*%s)[%s]=(*%s)[%s]^%s->buf[%s+%s]" % (ob, i_, ib, i_, sig[0][2], bm_, i_),
                                           "(*%s)[%s]=(*%s)[%s]^%s->buf[%s+%s]" % (ob, i_, ib, i_, sig[0][2], i_, bm_))
    if not ok:
        refuse("byte loop of " + USE)
    out += "(* hand-modelled: for (%s; %s; %s) %s *)\n" % (nodes[0][1], nodes[0][2], nodes[0][3],
                                                          "; ".join(flat_texts(nodes[0][4])).replace("(*", "( *").replace("*)", "* )"))
    out += coq_stmts("use_stmts", [parse_stmt(t, uv) for t in expr_texts(nodes[1:], USE)])

    # ---- crypto_aesctr_stream_pre_wholeblock
    #      bytemod = E; if (C1) { if (C2) { use(.., A, B); return (1); } use(.., A', B'); } return (0);
    out += "\n(* ---- %s *)\n" % PRE
    sig = func_sig(shared, PRE)
    pv = stream_vars(sig, False)
    first4 = [p[2] for p in sig[:4]]
    out += coq_ty("pre_ty_buflen", ctype_of(sig[3][0]), "%s * %s" % (sig[3][0], sig[3][2]))
    allnodes = parse_block(func_body(shared, PRE))
    nodes = [x for x in allnodes if x[0] != "decl"]
    if not (len(nodes) == 3 and [x[0] for x in nodes] == ["expr", "if", "return"] and strip_parens(squeeze(nodes[2][1])) == "0" and
            not nodes[1][3] and len(nodes[1][2]) == 2 and nodes[1][2][0][0] == "if" and not nodes[1][2][0][3] and
            len(nodes[1][2][0][2]) == 2 and nodes[1][2][0][2][1][0] == "return" and
            strip_parens(squeeze(nodes[1][2][0][2][1][1])) == "1"):
        refuse("shape of " + PRE)
    decl = scalar_decls(allnodes)
    out += coq_decls("pre_decls", number_locals([nodes[0][1]], decl, pv))
    c1 = use_call(nodes[1][2][0][2][0], first4, pv)
    c2 = use_call(nodes[1][2][1], first4, pv)
    st0 = parse_stmt(nodes[0][1], pv)
    if not st0.startswith("SAssign"):
        refuse("first statement of " + PRE)
    out += coq_stmts("pre_stmts", [st0])
    out += coq_expr("pre_cond1", parse_expr(nodes[1][1], pv), "if (%s)" % nodes[1][1])
    out += coq_expr("pre_cond2", parse_expr(nodes[1][2][0][1], pv), "if (%s)" % nodes[1][2][0][1])
    out += coq_call("pre_call1", c1) + coq_call("pre_call2", c2)

    # ---- crypto_aesctr_stream_post_wholeblock:  if (C) { generate(stream); use(.., A, B); }
    out += "\n(* ---- %s *)\n" % POST
    sig = func_sig(shared, POST)
    qv = stream_vars(sig, False)
    first4 = [p[2] for p in sig[:4]]
    out += coq_ty("post_ty_buflen", ctype_of(sig[3][0]), "%s * %s" % (sig[3][0], sig[3][2]))
    nodes = [x for x in parse_block(func_body(shared, POST)) if x[0] != "decl"]
    if not (len(nodes) == 1 and nodes[0][0] == "if" and not nodes[0][3] and len(nodes[0][2]) == 2 and
            nodes[0][2][0][0] == "expr" and is_call(nodes[0][2][0][1], GEN, [sig[0][2]])):
        refuse("shape of " + POST)
    out += coq_expr("post_cond", parse_expr(nodes[0][1], qv), "if (%s)" % nodes[0][1])
    out += coq_call("post_call", use_call(nodes[0][2][1], first4, qv))

    # ---- crypto_aesctr_stream (no CPU feature macro: the portable loop is the whole function)
    #      [if (c) return;]* if (pre(stream, &inbuf, &outbuf, &buflen)) return;
    #      while (C) { generate(stream); use(.., A, B); } post(..);
    out += "\n(* ---- crypto_aesctr_stream, portable loop *)\n"
    sig = func_sig(ctr, "crypto_aesctr_stream")
    sv = stream_vars(sig, True)
    st, ib, ob, bl = [p[2] for p in sig[:4]]
    amp = [st, "&" + ib, "&" + ob, "&" + bl]
    out += coq_ty("sw_ty_buflen", ctype_of(sig[3][0]), "%s %s" % (sig[3][0], sig[3][2]))
    nodes = [x for x in parse_block(func_body(ctr, "crypto_aesctr_stream")) if x[0] != "decl"]
    early, nodes = early_returns(nodes, {st + "->bytectr": V_BYTECTR, bl: V_BUFLEN})
    if not (len(nodes) == 3 and nodes[0][0] == "if" and truth_of_call(nodes[0][1], PRE, amp) and
            nodes[0][2] == [("return", "")] and not nodes[0][3] and
            nodes[1][0] == "while" and len(nodes[1][2]) == 2 and nodes[1][2][0][0] == "expr" and
            is_call(nodes[1][2][0][1], GEN, [st]) and
            nodes[2][0] == "expr" and is_call(nodes[2][1], POST, amp)):
        refuse("shape of crypto_aesctr_stream")
    out += coq_exprs("sw_early", early)
    out += coq_expr("sw_cond", parse_expr(nodes[1][1], sv), "while (%s)" % nodes[1][1])
    out += coq_call("sw_call", use_call(nodes[1][2][1], amp, sv))

    # ---- crypto_aesctr_aesni_stream:  [if (c) return;]* if (pre(..)) return; if (C) wholeblocks(..); post(..);
    out += "\n(* ---- crypto_aesctr_aesni_stream *)\n"
    WB = "crypto_aesctr_aesni_stream_wholeblocks"
    sig = func_sig(ni, "crypto_aesctr_aesni_stream")
    nv = stream_vars(sig, True)
    st, ib, ob, bl = [p[2] for p in sig[:4]]
    amp = [st, "&" + ib, "&" + ob, "&" + bl]
    out += coq_ty("ni_ty_buflen", ctype_of(sig[3][0]), "%s %s" % (sig[3][0], sig[3][2]))
    nodes = [x for x in parse_block(func_body(ni, "crypto_aesctr_aesni_stream")) if x[0] != "decl"]
    early, nodes = early_returns(nodes, {st + "->bytectr": V_BYTECTR, bl: V_BUFLEN})
    if not (len(nodes) == 3 and nodes[0][0] == "if" and truth_of_call(nodes[0][1], PRE, amp) and
            nodes[0][2] == [("return", "")] and not nodes[0][3] and
            nodes[1][0] == "if" and not nodes[1][3] and len(nodes[1][2]) == 1 and nodes[1][2][0][0] == "expr" and
            is_call(nodes[1][2][0][1], WB, amp) and
            nodes[2][0] == "expr" and is_call(nodes[2][1], POST, amp)):
        refuse("shape of crypto_aesctr_aesni_stream")
    out += coq_exprs("ni_early", early)
    out += coq_expr("ni_cond", parse_expr(nodes[1][1], nv), "if (%s)" % nodes[1][1])

    # ---- crypto_aesctr_aesni_stream_wholeblocks: straight-line prologue; do { .. } while (C); straight-line epilogue
    out += "\n(* ---- %s *)\n" % WB
    sig = func_sig(ni, WB)
    wv = stream_vars(sig, False)
    S, IB, OB = sig[0][2], sig[1][2], sig[2][2]
    out += coq_ty("wb_ty_buflen", ctype_of(sig[3][0]), "%s * %s" % (sig[3][0], sig[3][2]))
    allnodes = parse_block(func_body(ni, WB))
    nodes = [x for x in allnodes if x[0] != "decl"]
    arrs, m128 = [], set()
    for x in allnodes:
        if x[0] == "decl":
            m = re.fullmatch(r"uint8_t\s+(\w+)\s*\[\s*8\s*\]\s*(?:=\s*\{[\s0,]*\})?", x[1].strip())
            if m:
                arrs.append(m.group(1))           # (a zero initialiser is dead: be64enc fills all 8 bytes first)
            m = re.fullmatch(r"__m128i\s+(\w+)", x[1].strip())
            if m:
                m128.add(m.group(1))
    if len(arrs) != 1:
        refuse("the 8-byte counter array of " + WB)
    arr = arrs[0]
    loops = [k for k, x in enumerate(nodes) if x[0] != "expr"]
    if len(loops) != 1 or nodes[loops[0]][0] != "do":
        refuse("loop structure of " + WB)
    k = loops[0]
    decl = scalar_decls(allnodes)
    parts = simplify_locals([expr_texts(nodes[:k], WB), expr_texts(nodes[k][1], WB), expr_texts(nodes[k + 1:], WB)], decl)
    out += coq_decls("wb_decls", number_locals(parts[0] + parts[1] + parts[2], decl, wv))
    # the __m128i statements are hand-modelled: they must be the known sequence (up to the names of the locals)
    vec = canon_vec([t for t in parts[0] + parts[1] if is_vec_stmt(t)], m128)
    want = "v0=load_si64(%s->pblk);v1=load_si64(%s);v1=_mm_unpacklo_epi64(v0,v1);v1=crypto_aes_encrypt_block_aesni_m128i(v1,%s->key);" \
           "v2=_mm_loadu_si128((const__m128i*)(*%s));v1=_mm_xor_si128(v2,v1);_mm_storeu_si128((__m128i*)(*%s),v1)" % (S, arr, S, IB, OB)
    if vec != want or any(is_vec_stmt(t) for t in parts[2]):
        refuse("the __m128i statements of %s: %s" % (WB, vec))

    def stmts(tl):
        return [parse_stmt(t, wv, arr=arr, pblk_name=S + "->pblk") for t in tl]
    pro, body, epi = stmts(parts[0]), stmts(parts[1]), stmts(parts[2])
    if any(x.startswith(("SBe64", "SMemcpy")) for x in pro) or \
            not body or not body[0].startswith("SBe64 0%N") or any(x.startswith(("SBe64", "SMemcpy")) for x in body[1:]) or \
            sum(x.startswith(("SBe64 1%N", "SMemcpy")) for x in epi) != 1 or any(x.startswith("SBe64 0%N") for x in epi):
        refuse("placement of the be64enc / memcpy statements of " + WB)
    out += coq_stmts("wb_prologue", pro)
    out += coq_stmts("wb_body", body)
    out += coq_expr("wb_cond", parse_expr(nodes[k][2], wv), "do { ... } while (%s)" % nodes[k][2])
    out += coq_stmts("wb_epilogue", epi)
    return out


def extract(repo):
    ni = strip_comments(read(repo, "crypto/crypto_aes_aesni.c"))
    aes = strip_comments(read(repo, "crypto/crypto_aes.c"))
    ctr = strip_comments(read(repo, "crypto/crypto_aesctr.c"))
    out = HEADER

    # --- MKRKEY invocation lists
    b128 = func_body(ni, "crypto_aes_key_expand_128_aesni")
    b256 = func_body(ni, "crypto_aes_key_expand_256_aesni")
    l128 = [(int_literal(a[1]), int_literal(a[2])) for a in invocations(b128, "MKRKEY128", 3)]
    l256 = [(int_literal(a[1]), int_literal(a[2]), int_literal(a[3])) for a in invocations(b256, "MKRKEY256", 4)]
    out += "Definition mkrkey128 : list (N * N) :=\n  [%s].\n" % "; ".join("(%d%%N, %d%%N)" % t for t in l128)
    out += "Definition mkrkey256 : list (N * N * N) :=\n  [%s].\n" % "; ".join("(%d%%N, %d%%N, %d%%N)" % t for t in l256)

    # --- number of round keys loaded directly from the key (rkeys[j] = _mm_loadu_si128(&key_unexpanded[o]))
    def loads(body):
        r = [(int_literal(a), int_literal(b)) for a, b in
             re.findall(r"rkeys\[(\w+)\]\s*=\s*_mm_loadu_si128\s*\(\s*\(const __m128i \*\)\s*&key_unexpanded\[(\w+)\]\s*\)", body)]
        if not r:
            raise NotFound("initial round key loads")
        return r
    out += "Definition loads128 : list (N * N) := [%s].\n" % "; ".join("(%d%%N, %d%%N)" % t for t in loads(b128))
    out += "Definition loads256 : list (N * N) := [%s].\n" % "; ".join("(%d%%N, %d%%N)" % t for t in loads(b256))

    # --- immediates inside the macro bodies
    for nm, tag in (("MKRKEY128", "128"), ("MKRKEY256", "256")):
        mb = macro_body(ni, nm)
        s_off = re.search(r"_s\s*=\s*rkeys\[i\s*-\s*(\d+)\]", mb)
        t_off = re.search(r"_t\s*=\s*rkeys\[i\s*-\s*(\d+)\]", mb)
        sh = re.findall(r"_s\s*=\s*_mm_xor_si128\s*\(\s*_s\s*,\s*_mm_slli_si128\s*\(\s*_s\s*,\s*(\w+)\s*\)\s*\)", mb)
        kg = re.search(r"_t\s*=\s*_mm_aeskeygenassist_si128\s*\(\s*_t\s*,\s*rcon\s*\)", mb)
        shuf = re.search(r"_t\s*=\s*_mm_shuffle_epi32\s*\(\s*_t\s*,\s*(\w+)\s*\)", mb)
        fin = re.search(r"rkeys\[i\]\s*=\s*_mm_xor_si128\s*\(\s*_s\s*,\s*_t\s*\)", mb)
        if not (s_off and t_off and len(sh) == 2 and kg and shuf and fin):
            raise NotFound("shape of macro " + nm)
        out += coq_def_N("mk%s_s_off" % tag, int(s_off.group(1)))
        out += coq_def_N("mk%s_t_off" % tag, int(t_off.group(1)))
        out += coq_def_list("mk%s_slli" % tag, [int_literal(x) for x in sh])
        if tag == "128":
            out += coq_def_N("mk128_shuffle", int_literal(shuf.group(1)))
        elif shuf.group(1) != "shuffle":
            raise NotFound("MKRKEY256 shuffle argument")

    # --- round counts
    kb = func_body(ni, "crypto_aes_key_expand_aesni")
    m = re.search(r"len\s*==\s*16\s*\)\s*\{\s*kexp->nr\s*=\s*(\d+)\s*;.*?len\s*==\s*32\s*\)\s*\{\s*kexp->nr\s*=\s*(\d+)\s*;", kb, flags=re.S)
    if not m:
        raise NotFound("round counts kexp->nr")
    out += coq_def_N("nr128", int(m.group(1)))
    out += coq_def_N("nr256", int(m.group(2)))
    m = re.search(r"ALIGN_PTR_DECL\s*\(\s*__m128i\s*,\s*rkeys\s*,\s*(\d+)\s*,", ni)
    if not m:
        raise NotFound("rkeys array size")
    out += coq_def_N("rkeys_slots", int(m.group(1)))

    # --- the aesenc chain of crypto_aes_encrypt_block_aesni_m128i
    eb = func_body(ni, "crypto_aes_encrypt_block_aesni_m128i")
    m = re.search(r"^(.*?)if\s*\(\s*nr\s*>\s*(\d+)\s*\)\s*\{(.*?)\}(.*)$", eb, flags=re.S)
    if not m:
        raise NotFound("shape of crypto_aes_encrypt_block_aesni_m128i (if (nr > T) branch)")
    pre, thr, br, post = m.group(1), int(m.group(2)), m.group(3), m.group(4)
    enc = r"aes_state\s*=\s*_mm_aesenc_si128\s*\(\s*aes_state\s*,\s*aes_key\[(\d+)\]\s*\)"
    first = re.search(r"aes_state\s*=\s*_mm_xor_si128\s*\(\s*aes_state\s*,\s*aes_key\[(\d+)\]\s*\)", pre)
    last = re.search(r"aes_state\s*=\s*_mm_aesenclast_si128\s*\(\s*aes_state\s*,\s*aes_key\[nr\]\s*\)", post)
    if not (first and last) or re.search(enc, post) or "aesenclast" in pre + br:
        raise NotFound("shape of the aesenc chain")
    out += coq_def_N("enc_first", int(first.group(1)))
    out += coq_def_list("enc_pre", [int(x) for x in re.findall(enc, pre)])
    out += coq_def_N("enc_threshold", thr)
    out += coq_def_list("enc_branch", [int(x) for x in re.findall(enc, br)])

    # --- FIPS self-test vectors of crypto_aes.c
    m = re.search(r"testcases\s*\[\s*\]\s*=\s*\{(.*?)\n\}\s*;", aes, flags=re.S)
    if not m:
        raise NotFound("testcases[] of crypto_aes.c")
    entries = re.split(r"\}\s*,\s*\{", m.group(1))
    if len(entries) != 2:
        raise NotFound("expected two self-test vectors, found %d" % len(entries))
    for n, e in enumerate(entries, 1):
        ln = re.search(r"\.len\s*=\s*(\d+)", e)
        if not ln:
            raise NotFound("test vector len")
        key = struct_vector(e, "key")
        out += coq_def_list("selftest%d_key" % n, key[:int(ln.group(1))] if len(key) >= int(ln.group(1)) else key)
        out += coq_def_N("selftest%d_len" % n, int(ln.group(1)))
        out += coq_def_list("selftest%d_ptext" % n, struct_vector(e, "ptext"))
        out += coq_def_list("selftest%d_ctext" % n, struct_vector(e, "ctext"))

    # --- CTR constants
    ib = func_body(ctr, "crypto_aesctr_init2")
    m = re.search(r"stream->pblk\[(\d+)\]\s*=\s*(\w+)\s*;", ib)
    if not m or not re.search(r"be64enc\s*\(\s*stream->pblk\s*,\s*nonce\s*\)", ib) or \
            not re.search(r"stream->bytectr\s*=\s*0\s*;", ib):
        raise NotFound("shape of crypto_aesctr_init2")
    out += coq_def_N("ctr_init_index", int(m.group(1)))
    out += coq_def_N("ctr_init_byte", int_literal(m.group(2)))
    # --- wipe-on-free: size expressions and call order (C20)
    aes_sw = preprocess(aes, set())                    # the software tail of crypto_aes_key_free
    out += "Definition alloc_expr_key_aesni : list N :=\n  %s.\n" % coq_str(malloc_expr(ni, "crypto_aes_key_expand_aesni"))
    out += coq_calls("free_calls_key_aesni", free_path(ni, "crypto_aes_key_free_aesni"))
    out += "Definition alloc_expr_key_sw : list N :=\n  %s.\n" % coq_str(malloc_expr(aes_sw, "crypto_aes_key_expand"))
    out += coq_calls("free_calls_key_sw", free_path(aes_sw, "crypto_aes_key_free"))
    # the same software tail as compiled WITH CPUSUPPORT_X86_AESNI (taken at run time when hwaccel is not
    # the AES-NI value: CPU without AES-NI, failed self-test)
    out += coq_calls("free_calls_key_sw_ni", free_path(preprocess(aes, {"CPUSUPPORT_X86_AESNI"}), "crypto_aes_key_free"))
    out += "Definition alloc_expr_ctr : list N :=\n  %s.\n" % coq_str(malloc_expr(ctr, "crypto_aesctr_alloc"))
    out += coq_calls("free_calls_ctr", free_path(ctr, "crypto_aesctr_free"))
    return {"Repo_aes.v": out, "Repo_aes_sel.v": selection(repo), "Repo_aes_arith.v": arithmetic(repo)}
