"""network/network_{read,write,accept}.c and netbuf/netbuf_{read,write}.c: the numeric constants and
the errno sets of the retry conditions, pulled out of the C text.

The model (coq/Net/*.v) is parametric in these; Properties_C06/C07 need them to have the values
the property text names (retry on EAGAIN/EWOULDBLOCK/EINTR, accept also on ECONNABORTED,
4096-byte buffers, doubling growth), so removing e.g. the EINTR disjunct breaks a lemma."""
import re
from common import *

# symbolic errno numbering shared by model/net_main.ml, harness/wrap_net.c and areas/net.py
ERRNO = ["EAGAIN", "EWOULDBLOCK", "EINTR", "ECONNABORTED", "ECONNRESET", "EPIPE", "ECONNREFUSED",
         "ETIMEDOUT", "EMFILE", "ENOMEM", "EBADF", "EIO", "ENFILE", "EPROTO", "ENOBUFS",
         "EHOSTUNREACH", "ENETUNREACH", "EINPROGRESS", "EPERM", "ENOTCONN"]
CODE = {n: i + 1 for i, n in enumerate(ERRNO)}


def func_body(src, name):
    """Text of the (first) definition of function `name` (K&R-ish layout used by the repo:
    name at the start of a line, closing brace at the start of a line)."""
    m = re.search(r"^%s\s*\([^;{]*?\)\s*\{(.*?)^\}" % re.escape(name), src, flags=re.S | re.M)
    if not m:
        raise NotFound("function " + name)
    return m.group(1)


def retry_set(body, what):
    """errno names compared in the condition that guards `goto tryagain`."""
    m = re.search(r"if\s*\(\s*\(errno\s*==(.*?)\)\s*goto\s+tryagain\s*;", body, flags=re.S)
    if not m:
        raise NotFound("retry condition in " + what)
    names = re.findall(r"errno\s*==\s*([A-Z]+)", "errno ==" + m.group(1))
    if not names:
        raise NotFound("errno names in retry condition of " + what)
    for n in names:
        if n not in CODE:
            raise NotFound("unknown errno name %s in %s" % (n, what))
    return [CODE[n] for n in names]


def extract(repo):
    rd = strip_comments(read(repo, "network/network_read.c"))
    wr = strip_comments(read(repo, "network/network_write.c"))
    ac = strip_comments(read(repo, "network/network_accept.c"))
    nr = strip_comments(read(repo, "netbuf/netbuf_read.c"))
    nw = strip_comments(read(repo, "netbuf/netbuf_write.c"))
    out = HEADER
    out += "(* symbolic errno codes (shared numbering of the harness; not the host's values) *)\n"
    for n in ERRNO:
        out += coq_def_N(n, CODE[n])
    out += coq_def_list("read_retry", retry_set(func_body(rd, "callback_buf"), "network_read.c callback_buf"))
    out += coq_def_list("write_retry", retry_set(func_body(wr, "callback_buf"), "network_write.c callback_buf"))
    out += coq_def_list("accept_retry", retry_set(func_body(ac, "callback_accept"), "network_accept.c callback_accept"))
    # netbuf_write.c
    out += coq_def_N("WBUFLEN", define_int(nw, "WBUFLEN"))
    # netbuf_read.c: initial buffer and growth factor
    m = re.search(r"R->buflen\s*=\s*(\d+)\s*;", func_body(nr, "netbuf_read_init2"))
    if not m:
        raise NotFound("initial reader buffer length in netbuf_read_init2")
    out += coq_def_N("RBUF_INIT", int(m.group(1)))
    m = re.search(r"nbuflen\s*=\s*R->buflen\s*\*\s*(\d+)\s*;", func_body(nr, "netbuf_read_resize_buffer"))
    if not m:
        raise NotFound("growth factor in netbuf_read_resize_buffer")
    out += coq_def_N("RBUF_GROW", int(m.group(1)))
    return {"Repo_net.v": out}
