"""Translator for the dhdrbg area: crypto/crypto_dh.c, crypto_dh_group14.c, crypto_dh.h (C10, C20-M3)
and crypto/crypto_entropy.c (C11).  Everything the Coq models take as a parameter is located in
the C text here; nothing is defaulted."""
from common import *


def func_body(src, name):
    """Text of the definition of function `name` (from its header to the closing brace in column 0)."""
    m = re.search(r"^%s\s*\([^;{]*\)\s*\{.*?^\}" % re.escape(name), src, flags=re.S | re.M)
    if not m:
        raise NotFound("function body " + name)
    return strip_comments(m.group(0))


def one_int(pattern, text, what):
    ms = re.findall(pattern, text, flags=re.S)
    if len(ms) != 1:
        raise NotFound("%s (found %d matches)" % (what, len(ms)))
    return int_literal(ms[0])


def declared_len(src, name):
    m = re.search(r"\b%s\s*\[\s*([0-9a-fA-Fx]*)\s*\]\s*=" % re.escape(name), src)
    if not m:
        raise NotFound("declaration of " + name)
    return int_literal(m.group(1)) if m.group(1) else None


def padded_array(src, name):
    vals = array_init(src, name)
    n = declared_len(src, name)
    if n is not None:
        if len(vals) > n:
            raise NotFound("%s has more initialisers than its declared length" % name)
        vals = vals + [0] * (n - len(vals))          # C zero-fills the rest
    for v in vals:
        if not 0 <= v < 256:
            raise NotFound("%s: initialiser out of byte range" % name)
    return vals


# ---- C20-M3: the release structure of blinded_modexp as a program ----
CALL_RE = re.compile(
    r"(?P<binalloc>(?P<bdst>\w+)\s*=\s*BN_bin2bn\s*\(\s*(?P<bsrc>\w+))"
    r"|(?P<newalloc>(?P<ndst>\w+)\s*=\s*BN_new\s*\(\s*\))"
    r"|(?P<ctxnew>\w+\s*=\s*BN_CTX_new\s*\(\s*\))"
    r"|(?P<op>\b(?:BN_add|BN_sub|BN_mod_exp|BN_mod_mul|BN_set_word)\s*\((?P<oargs>[^()]*)\))"
    r"|(?P<entropy>\bcrypto_entropy_read\s*\()"
    r"|(?P<clear>\bBN_clear_free\s*\(\s*(?P<cv>\w+)\s*\))"
    r"|(?P<free>\bBN_free\s*\(\s*(?P<fv>\w+)\s*\))"
    r"|(?P<ctxfree>\bBN_CTX_free\s*\()"
    r"|(?P<goto>\bgoto\s+err(?P<glbl>\d+)\s*;)"
    r"|(?P<label>\berr(?P<llbl>\d+)\s*:)"
    r"|(?P<ret0>\breturn\s*\(\s*0\s*\)\s*;)"
    r"|(?P<other>\bBN_\w+\s*\()")

SECRET_ARRAYS = ("priv", "blinding")
HARMLESS_BN = ("BN_num_bits", "BN_num_bytes", "BN_bn2bin")


def wipe_program(body, params):
    """body of blinded_modexp (comments stripped) -> (steps, success releases, ladder) as Coq text.
    params: BIGNUM parameter names, numbered first."""
    ids = {p: i for i, p in enumerate(params)}
    body = re.sub(r"\bBN_num_bytes\b", "BN_num_bits", body)      # macro over BN_num_bits

    def vid(name):
        name = name.strip()
        if name not in ids:
            raise NotFound("blinded_modexp: bignum variable %s used before its allocation" % name)
        return ids[name]

    steps, pending, succ, ladder = [], [], [], []
    phase = "main"
    for m in CALL_RE.finditer(body):
        k = m.lastgroup if m.lastgroup in ("binalloc", "newalloc", "ctxnew", "op", "entropy", "clear", "free",
                                           "ctxfree", "goto", "label", "ret0", "other") else None
        # lastgroup may be an inner group: resolve by testing the outer ones
        for g in ("binalloc", "newalloc", "ctxnew", "op", "entropy", "clear", "free", "ctxfree", "goto", "label", "ret0", "other"):
            if m.group(g):
                k = g
                break
        if k == "other":
            fn = m.group("other").split("(")[0].strip()
            if fn in HARMLESS_BN:
                continue
            raise NotFound("blinded_modexp: unrecognised OpenSSL call %s" % fn)
        if phase == "main":
            if k == "binalloc":
                d = m.group("bdst")
                if d in ids:
                    raise NotFound("blinded_modexp: %s allocated twice" % d)
                ids[d] = len(ids)
                pending.append("SAllocBin %d %s" % (ids[d], "true" if m.group("bsrc") in SECRET_ARRAYS else "false"))
            elif k == "newalloc":
                d = m.group("ndst")
                if d in ids:
                    raise NotFound("blinded_modexp: %s allocated twice" % d)
                ids[d] = len(ids)
                pending.append("SAllocNew %d" % ids[d])
            elif k == "ctxnew":
                pending.append("SCtxNew")
            elif k == "op":
                args = [a.strip() for a in m.group("oargs").split(",")]
                bn = [a for a in args if a in ids]
                if not bn or bn[0] != args[0]:
                    raise NotFound("blinded_modexp: destination of %s is not a known bignum" % m.group("op")[:30])
                pending.append("SOp %d [%s]" % (vid(bn[0]), "; ".join(str(vid(a)) for a in bn[1:])))
            elif k == "entropy":
                pending.append("SEntropy")
            elif k == "goto":
                lbl = int(m.group("glbl"))
                if not pending:
                    pending.append("SCheck")
                steps += ["%s %d" % (p, lbl) for p in pending]
                pending = []
            elif k in ("clear", "free", "ctxfree"):
                if pending:
                    raise NotFound("blinded_modexp: a fallible call without a goto before a release")
                succ.append("RClear %d" % vid(m.group("cv")) if k == "clear" else
                            "RFree %d" % vid(m.group("fv")) if k == "free" else "RCtxFree")
            elif k == "ret0":
                if pending:
                    raise NotFound("blinded_modexp: a fallible call without a goto before return (0)")
                phase = "err"
            elif k == "label":
                raise NotFound("blinded_modexp: label before return (0)")
        else:
            if k == "label":
                ladder.append((int(m.group("llbl")), []))
            elif k in ("clear", "free", "ctxfree"):
                if not ladder:
                    raise NotFound("blinded_modexp: release before the first error label")
                ladder[-1][1].append("RClear %d" % vid(m.group("cv")) if k == "clear" else
                                     "RFree %d" % vid(m.group("fv")) if k == "free" else "RCtxFree")
            elif k in ("goto", "ret0", "binalloc", "newalloc", "ctxnew", "op", "entropy"):
                raise NotFound("blinded_modexp: unexpected statement in the error ladder")
    if phase != "err" or not ladder:
        raise NotFound("blinded_modexp: return (0) / error ladder not found")
    out = "From LCP Require Import Crypto.DhWipeDefs.\n\n"
    out += "Definition dh_bm_steps : list wstep :=\n  [" + ";\n   ".join(steps) + "].\n"
    out += "Definition dh_bm_success_releases : list wrel :=\n  [" + "; ".join(succ) + "].\n"
    out += "Definition dh_bm_ladder : list (nat * list wrel) :=\n  [" + ";\n   ".join(
        "(%d, [%s])" % (l, "; ".join(r)) for l, r in ladder) + "].\n"
    out += "Definition dh_bm_nvars : nat := %d.\n" % len(ids)
    return out


def extract(repo):
    dh = read(repo, "crypto/crypto_dh.c")
    dhh = read(repo, "crypto/crypto_dh.h")
    g14 = read(repo, "crypto/crypto_dh_group14.c")
    ent = read(repo, "crypto/crypto_entropy.c")
    out = HEADER

    # ---- Diffie-Hellman ----
    out += coq_def_list("dh_group14", padded_array(g14, "crypto_dh_group14"))
    out += coq_def_list("dh_two_exp_256", padded_array(dh, "two_exp_256"))
    bm = func_body(dh, "blinded_modexp")
    out += coq_def_N("dh_two_exp_256_len",
                     one_int(r"BN_bin2bn\s*\(\s*two_exp_256\s*,\s*([^,]+?)\s*,", bm, "BN_bin2bn(two_exp_256, n"))
    nadd = len(re.findall(r"BN_add\s*\(\s*priv_bn\s*,\s*priv_bn\s*,\s*two_exp_256_bn\s*\)", bm))
    nbadd = len(re.findall(r"BN_add\s*\(\s*blinding_bn\s*,\s*blinding_bn\s*,\s*two_exp_256_bn\s*\)", bm))
    if len(re.findall(r"\bBN_add\s*\(", bm)) != nadd + nbadd:
        raise NotFound("a BN_add call in blinded_modexp that is neither priv_bn += 2^256 nor blinding_bn += 2^256")
    out += coq_def_N("dh_priv_add_count", nadd)
    out += coq_def_N("dh_blinding_add_count", nbadd)
    out += coq_def_N("dh_modulus_len",
                     one_int(r"BN_bin2bn\s*\(\s*crypto_dh_group14\s*,\s*([^,]+?)\s*,", bm, "BN_bin2bn(crypto_dh_group14, n"))
    sc = func_body(dh, "crypto_dh_sanitycheck")
    out += coq_def_N("dh_memcmp_len",
                     one_int(r"memcmp\s*\(\s*pub\s*,\s*crypto_dh_group14\s*,\s*([^)]+?)\s*\)", sc, "memcmp(pub, crypto_dh_group14, n)"))
    gp = func_body(dh, "crypto_dh_generate_pub")
    out += coq_def_N("dh_generator",
                     one_int(r"BN_set_word\s*\(\s*two\s*,\s*([^)]+?)\s*\)", gp, "BN_set_word(two, g)"))
    for nm in ("CRYPTO_DH_PRIVLEN", "CRYPTO_DH_PUBLEN", "CRYPTO_DH_KEYLEN"):
        out += coq_def_N("dh_" + nm[10:].lower(), define_int(dhh, nm))

    # ---- HMAC_DRBG ----
    out += coq_def_N("drbg_reseed_interval", define_int(ent, "RESEED_INTERVAL"))
    out += coq_def_N("drbg_generate_maxlen", define_int(ent, "GENERATE_MAXLEN"))
    ins = func_body(ent, "instantiate")
    rsd = func_body(ent, "reseed")
    upd = func_body(ent, "update")
    gen = func_body(ent, "generate")
    out += coq_def_N("drbg_instantiate_seedlen",
                     one_int(r"entropy_read\s*\(\s*seed_material\s*,\s*([^)]+?)\s*\)", ins, "instantiate: entropy_read length"))
    if one_int(r"update\s*\(\s*seed_material\s*,\s*([^)]+?)\s*\)", ins, "instantiate: update length") != \
            one_int(r"entropy_read\s*\(\s*seed_material\s*,\s*([^)]+?)\s*\)", ins, "instantiate: entropy_read length"):
        raise NotFound("instantiate: update length differs from entropy_read length")
    out += coq_def_N("drbg_reseed_seedlen",
                     one_int(r"entropy_read\s*\(\s*seed_material\s*,\s*([^)]+?)\s*\)", rsd, "reseed: entropy_read length"))
    if one_int(r"update\s*\(\s*seed_material\s*,\s*([^)]+?)\s*\)", rsd, "reseed: update length") != \
            one_int(r"entropy_read\s*\(\s*seed_material\s*,\s*([^)]+?)\s*\)", rsd, "reseed: entropy_read length"):
        raise NotFound("reseed: update length differs from entropy_read length")
    seps = re.findall(r"Vx\s*\[\s*32\s*\]\s*=\s*([^;]+?)\s*;", upd)
    if len(seps) != 2:
        raise NotFound("update: expected two separator assignments Vx[32] = ..., found %d" % len(seps))
    out += coq_def_N("drbg_sep_first", int_literal(seps[0]))
    out += coq_def_N("drbg_sep_second", int_literal(seps[1]))
    out += coq_def_N("drbg_key_init",
                     one_int(r"memset\s*\(\s*drbg\.Key\s*,\s*([^,]+?)\s*,\s*32\s*\)", ins, "instantiate: memset(drbg.Key, v, 32)"))
    out += coq_def_N("drbg_v_init",
                     one_int(r"memset\s*\(\s*drbg\.V\s*,\s*([^,]+?)\s*,\s*32\s*\)", ins, "instantiate: memset(drbg.V, v, 32)"))
    out += coq_def_N("drbg_counter_init",
                     one_int(r"drbg\.reseed_counter\s*=\s*([^;]+?)\s*;", ins, "instantiate: reseed_counter = n"))
    out += coq_def_N("drbg_counter_reset",
                     one_int(r"drbg\.reseed_counter\s*=\s*([^;]+?)\s*;", rsd, "reseed: reseed_counter = n"))
    out += coq_def_N("drbg_counter_step",
                     one_int(r"drbg\.reseed_counter\s*\+=\s*([^;]+?)\s*;", gen, "generate: reseed_counter += n"))
    out += coq_def_N("drbg_block_step",
                     one_int(r"bufpos\s*\+=\s*([^)]+?)\s*\)", gen, "generate: bufpos += n"))
    wipe = HEADER + wipe_program(bm, ["a"])
    return {"Repo_dhdrbg.v": out, "Repo_dhwipe.v": wipe}
