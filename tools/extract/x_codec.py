from common import *


def extract(repo):
    hx = read(repo, "util/hexify.c")
    b64 = read(repo, "util/b64encode.c")
    out = HEADER
    out += coq_def_list("hexchars", string_var(hx, "hexchars"))
    out += coq_def_list("b64chars", string_var(b64, "b64chars"))
    return {"Repo_codec.v": out}
