"""Translator for http/http.c (and the one netbuf constant the HTTP model needs).

Everything the Coq model of the HTTP client treats as a constant is located in the C text here:
limits, the two terminator literals, the framing header names, the literals of the request
serialiser together with the numbers of the length precomputation, the status-line format, the
bases / trailing flags of the two PARSENUM_EX calls, the status ranges.

The patterns look for calls, literals and comparisons inside the named function and avoid depending
on loop shapes or on the names of locals, so that a behaviour-preserving rewrite (for -> while,
renamed local, reordered independent statements) regenerates the same file.  Before the patterns are
applied the text is normalised (_normalise: `!memcmp(..)` -> `memcmp(..) == 0`, integer value casts removed,
`1024 * 1024` / `(1 << 20)` folded, redundant parentheses around a literal or around `x + N` dropped); the
wait cap is read from either the if/else or the conditional-expression form, the header-terminator scan may
keep its position in a local, the line count may live in a helper function, and the local holding the EOL
position of the chunk-size line is found by its assignment from findeol()."""
from common import *

ID = r"[A-Za-z_][A-Za-z_0-9>\.\-\[\]\*]*"      # an lvalue-ish token (H->hepos, *bufpos, buflen ...)


def _one(pattern, src, what, flags=re.S):
    m = re.search(pattern, src, flags)
    if not m:
        raise NotFound(what)
    return m


def _all(pattern, src, what, flags=re.S):
    ms = re.findall(pattern, src, flags)
    if not ms:
        raise NotFound(what)
    return ms


def _lit(s):
    return unescape(s)


def _func(src, name):
    """Text of the function definition `name(` ... up to the next line starting with '}'."""
    m = re.search(r"^%s\(.*?^\}" % re.escape(name), src, flags=re.S | re.M)
    if not m:
        raise NotFound("function " + name)
    return m.group(0)


_CAST = r"(?<!sizeof)\(\s*(?:const\s+)?(?:size_t|ssize_t|int|unsigned(?:\s+int)?|long|uintmax_t)\s*\)\s*(?=[\w(])"
_ARGS = r"[^()]*(?:\([^()]*\)[^()]*)*"


def _normalise(src):
    """Cosmetic variation that does not change what the code computes is removed before the patterns are
    applied: `!memcmp(..)` / `!strcmp(..)` -> `.. == 0`, value casts to an integer type, products / shifts of
    two literals standing alone as an operand (`1024 * 1024`, `1 << 20`) -> their value, parentheses around a
    lone literal or around `x + N` / `x - N` directly compared or assigned."""
    src = re.sub(r"!\s*(memcmp|strcmp)\((%s)\)" % _ARGS, r"\1(\2) == 0", src)
    prev = None
    while prev != src:
        prev = src
        src = re.sub(_CAST, "", src)
        src = re.sub(r"(?<=[(=<>,?:])(\s*)(\d+)\s*(\*|<<)\s*(\d+)(?=\s*[);,:?])",
                     lambda m: m.group(1) + str(int(m.group(2)) * int(m.group(4)) if m.group(3) == "*"
                                                else int(m.group(2)) << int(m.group(4))), src)
        src = re.sub(r"(?<=[(=<>,?:+\-*!&|])(\s*)\(\s*(\d+)\s*\)", r"\1\2", src)
        # (x + N) / (x - N) as a whole operand of a comparison or an assignment
        src = re.sub(r"(?<=[=<>(,;&|])(\s*)\(\s*(\*?[A-Za-z_][\w>\.\-]*\s*[+-]\s*\d+)\s*\)(?=\s*(?:[<>=!]=?|[;),]))", r"\1\2", src)
    return src


def _block(text, start):
    """text[start] == '{': the text between it and the matching '}'."""
    depth = 0
    for i in range(start, len(text)):
        if text[i] == "{":
            depth += 1
        elif text[i] == "}":
            depth -= 1
            if depth == 0:
                return text[start + 1:i]
    raise NotFound("unbalanced braces")


def _int_expr(txt):
    txt = txt.strip()
    if not re.fullmatch(r"[0-9\s\*\+\(\)]+", txt):
        raise NotFound("not a constant expression: " + txt)
    return int(eval(txt, {"__builtins__": {}}))


def _same(vals, what):
    vals = list(vals)
    if len(set(vals)) != 1:
        raise NotFound("%s: inconsistent numbers %r" % (what, vals))
    return vals[0]


def extract(repo):
    src = _normalise(strip_comments(read(repo, "http/http.c")))
    nb = _normalise(strip_comments(read(repo, "netbuf/netbuf_read.c")))
    out = HEADER
    out += coq_def_N("maxhdr", define_int(src, "MAXHDR"))
    out += coq_def_N("maxchlen", define_int(src, "MAXCHLEN"))

    # ---- callback_readdata
    rdd = _func(src, "callback_readdata")
    # waitlen = MIN(H->readlen, cap), written as if/else or as a conditional expression: the cap is every literal
    # H->readlen is compared with by `>` and every literal that can become waitlen
    caps = _all(r"H->readlen\s*>\s*(\d+)\b", rdd, "wait cap (H->readlen > N)")
    vals = re.findall(r"waitlen\s*=\s*(\d+)\s*;", rdd) + re.findall(r"\?\s*(\d+)\s*:\s*H->readlen", rdd)
    vals = [v for v in vals if int(v) != 0]          # `size_t waitlen = 0;` initialisers
    if not vals:
        raise NotFound("wait cap (waitlen = N)")
    out += coq_def_N("waitcap", int(_same(caps + vals, "wait cap")))
    # the chunk's trailing EOL is excluded from the body: the 2 of `H->readlen <= 2` / `H->readlen - 2`
    m = _one(r"if\s*\(\s*H->chunked\s*(?:!=\s*0\s*)?\)\s*\{", rdd, "chunk EOL exclusion in callback_readdata")
    blk = _block(rdd, m.end() - 1)
    a = _one(r"H->readlen\s*<=\s*(\d+)", blk, "chunk EOL exclusion: readlen <= N").group(1)
    bs = _all(r"H->readlen\s*-\s*(\d+)", blk, "chunk EOL exclusion: readlen - N")
    out += coq_def_N("chunk_eol_len", int(_same([a] + bs, "chunk EOL exclusion")))

    # ---- callback_read_header: terminator literal, its length wherever hepos + N is written
    rh = _func(src, "callback_read_header")
    m = _one(r"memcmp\(\s*&?[^,]*,\s*%s\s*,\s*(\d+)\s*\)\s*[=!]=\s*0" % STR, rh, "header terminator memcmp")
    term = _lit(m.group(1))
    # the scan position may live in a local: every `x + N <= buflen` bound as well as every `hepos + N`
    ns = [int(m.group(2)), len(term)] + [int(x) for x in _all(r"hepos\s*\+\s*(\d+)", rh, "hepos + N")] + \
         [int(x) for x in re.findall(r"\+\s*(\d+)\s*<=\s*buflen", rh)]
    _same(ns, "header terminator length")
    out += coq_def_list("hdr_terminator", term)
    m = _one(r"netbuf_read_wait\(\s*H->R\s*,\s*\w+\s*\+\s*(\d+)\s*,\s*callback_read_header", rh, "header wait")
    out += coq_def_N("hdr_wait_more", int(m.group(1)))

    # ---- findeol / sgetline
    fe = _func(src, "findeol")
    m = _one(r"memcmp\(\s*[^,]+,\s*%s\s*,\s*(\d+)\s*\)\s*==\s*0" % STR, fe, "findeol memcmp")
    eol = _lit(m.group(1))
    b = _one(r"\+\s*(\d+)\s*<=", fe, "findeol bound").group(1)
    _same([int(m.group(2)), len(eol), int(b)], "findeol lengths")
    out += coq_def_list("eol", eol)
    sg = _func(src, "sgetline")
    m = _one(r"\*\w+\s*\+=\s*\*\w+\s*\+\s*(\d+)\s*;", sg, "sgetline advance")
    out += coq_def_N("sgetline_skip", int(m.group(1)))

    # ---- gotheaders
    gh = _func(src, "gotheaders")
    m = re.search(r"\w+\s*\+=\s*linelen\s*\+\s*(\d+)", gh) or \
        _one(r"\w+\s*\+=\s*findeol\(%s\)\s*\+\s*(\d+)\s*;" % _ARGS, src, "line count advance")
    out += coq_def_N("count_skip", int(m.group(1)))
    m = re.search(r"H->res\.nheaders\s*-=\s*(\d+)\s*;", gh) or \
        _one(r"H->res\.nheaders\s*=\s*\w+\(%s\)\s*-\s*(\d+)\s*;" % _ARGS, gh, "nheaders adjustment")
    out += coq_def_N("nonheader_lines", int(m.group(1)))
    m = _one(r"assert\(\s*\w+\s*\+\s*(\d+)\s*==\s*H->res_headlen\s*\)", gh, "end-of-block assert")
    out += coq_def_N("final_blank_len", int(m.group(1)))
    m = _one(r"sscanf\(\s*\w+\s*,\s*%s\s*,\s*&major\s*,\s*&minor\s*,\s*&H->res\.status\s*\)\s*<\s*(\d+)" % STR, gh, "status-line sscanf")
    out += coq_def_list("status_format", _lit(m.group(1)))
    out += coq_def_N("status_min_conversions", int(m.group(2)))
    m = _one(r"if\s*\(\s*major\s*!=\s*(\d+)\s*\)", gh, "major version test")
    out += coq_def_N("http_major", int(m.group(1)))
    m = _one(r"\(\s*H->res\.status\s*<\s*(\d+)\s*\)\s*\|\|\s*\(\s*H->res\.status\s*>\s*(\d+)\s*\)", gh, "status range test")
    out += coq_def_N("status_lo", int(m.group(1)))
    out += coq_def_N("status_hi", int(m.group(2)))
    m = _one(r"\(\s*H->res\.status\s*>=\s*(\d+)\s*\)\s*&&\s*\(\s*H->res\.status\s*<=\s*(\d+)\s*\)", gh, "1xx test")
    out += coq_def_N("interim_lo", int(m.group(1)))
    out += coq_def_N("interim_hi", int(m.group(2)))
    bodiless = [int(x) for x in _all(r"H->res\.status\s*==\s*(\d+)", gh, "bodiless statuses")]
    out += "Definition bodiless_statuses : list N := [%s]%%N.\n" % "; ".join(map(str, bodiless))
    if not re.search(r"H->req_ishead\s*(?:!=\s*0\s*)?(?:\|\||\))", gh):
        raise NotFound("HEAD test in gotheaders")
    # OWS
    trail = _all(r"\w+\[\w+\s*-\s*1\]\s*==\s*'(.+?)'", gh, "trailing OWS test")
    ows_trail = sorted(sum((_lit(t) for t in trail), []))
    m = _one(r"strspn\(\s*H->res\.headers\[i\]\.value\s*,\s*%s\s*\)" % STR, gh, "leading OWS strspn")
    out += coq_def_list("ows_trailing", ows_trail)
    out += coq_def_list("ows_leading", sorted(_lit(m.group(1))))
    m = _one(r"=\s*strcspn\(\s*\w+\s*,\s*%s\s*\)" % STR, gh, "header split strcspn")
    out += coq_def_list("hdr_separators", _lit(m.group(1)))
    # framing
    m = _one(r'te\s*=\s*http_findheader\([^;]*?%s\s*\)' % STR, gh, "Transfer-Encoding lookup")
    out += coq_def_list("hdr_transfer_encoding", _lit(m.group(1)))
    m = _one(r'strstr\(\s*te\s*,\s*%s\s*\)\s*!=\s*NULL' % STR, gh, "chunked test")
    out += coq_def_list("te_chunked", _lit(m.group(1)))
    m = _one(r'clen\s*=\s*http_findheader\([^;]*?%s\s*\)' % STR, gh, "Content-Length lookup")
    out += coq_def_list("hdr_content_length", _lit(m.group(1)))
    m = _one(r'PARSENUM_EX\(\s*&len\s*,\s*clen\s*,\s*(\d+)\s*,\s*(\d+)\s*\)', gh, "Content-Length PARSENUM_EX")
    out += coq_def_N("clen_base", int(m.group(1)))
    out += coq_def_N("clen_trailing", int(m.group(2)))

    # ---- callback_chunkedheader
    ch = _func(src, "callback_chunkedheader")
    m = _one(r"PARSENUM_EX\(\s*&clen\s*,\s*(?:\(\s*const\s+char\s*\*\s*\)\s*)?(\w+)\s*,\s*0\s*,\s*SIZE_MAX\s*,\s*(\d+)\s*,\s*(\d+)\s*\)", ch, "chunk size PARSENUM_EX")
    bufname = m.group(1)
    out += coq_def_N("chunk_base", int(m.group(2)))
    out += coq_def_N("chunk_trailing", int(m.group(3)))
    # is the line NUL-terminated at the EOL position before it is parsed?
    pre = ch[:m.start()]
    eolvar = _one(r"(\w+)\s*=\s*findeol\(", ch, "EOL position local").group(1)
    terminated = 1 if re.search(r"%s\[%s\]\s*=\s*(?:'\\0'|0)\s*;" % (re.escape(bufname), eolvar), pre) else 0
    out += coq_def_N("chunk_line_terminated", terminated)
    m = _one(r"netbuf_read_consume\(\s*H->R\s*,\s*%s\s*\+\s*(\d+)\s*\)" % eolvar, ch, "chunk line consume")
    out += coq_def_N("chunk_line_skip", int(m.group(1)))
    g = _one(r"clen\s*>\s*SIZE_MAX\s*-\s*(\d+)", ch, "clen + 2 overflow guard").group(1)
    a = _one(r"H->readlen\s*=\s*clen\s*\+\s*(\d+)\s*;", ch, "readlen = clen + 2").group(1)
    out += coq_def_N("chunk_readlen_extra", int(_same([g, a], "overflow guard / readlen increment")))
    if not re.search(r"clen\s*>\s*H->res_bodylen_max\s*-\s*H->res\.bodylen", ch):
        raise NotFound("chunk size limit test")
    m = _one(r"netbuf_read_wait\(\s*H->R\s*,\s*\w+\s*\+\s*(\d+)\s*,\s*callback_chunkedheader", ch, "chunk header wait")
    out += coq_def_N("chunk_wait_more", int(m.group(1)))
    te = _func(src, "callback_read_toeof")
    m = _one(r"netbuf_read_wait\(\s*H->R\s*,\s*(\d+)\s*,\s*callback_read_toeof", te, "read-to-EOF wait")
    out += coq_def_N("toeof_wait", int(m.group(1)))

    # ---- request serialiser
    rq = _func(src, "http_request2")
    m = _one(r'strcmp\(\s*request->method\s*,\s*%s\s*\)\s*==\s*0' % STR, rq, "HEAD test")
    out += coq_def_list("method_head", _lit(m.group(1)))
    m = _one(r'H->req_headlen\s*=\s*strlen\(request->method\)\s*\+\s*strlen\(%s\)\s*\+\s*strlen\(request->path\)\s*\+\s*strlen\(%s\)\s*;' % (STR, STR), rq, "request-line length")
    out += coq_def_list("reqlen_sp", _lit(m.group(1)))
    out += coq_def_list("reqlen_version", _lit(m.group(2)))
    m = _one(r"strlen\(request->headers\[i\]\.value\)\s*\+\s*(\d+)\s*\)?\s*;", rq, "header line length")
    out += coq_def_N("reqlen_per_header", int(m.group(1)))
    m = _one(r"H->req_headlen\s*\+=\s*(\d+)\s*;", rq, "blank line length")
    out += coq_def_N("reqlen_blank", int(m.group(1)))
    # the stpcpy chain, in order
    chain = re.findall(r"stpcpy\(\s*s\s*,\s*(%s|[A-Za-z_>\-\.\[\]]+)\s*\)" % STR, rq)
    args = [c[0] for c in chain]
    shape = ["request->method", None, "request->path", None, "request->headers[i].header", None,
             "request->headers[i].value", None, None]
    if len(args) != len(shape) or any(s is not None and s != a for s, a in zip(shape, args)):
        raise NotFound("stpcpy chain of http_request2 has an unexpected shape: %r" % args)
    lits = [_lit(a[1:-1]) for s, a in zip(shape, args) if s is None]
    for nm, v in zip(["req_sp", "req_version", "req_colon", "req_eol", "req_blank"], lits):
        out += coq_def_list(nm, v)

    # ---- reader geometry at creation (netbuf_read_init2)
    m = _one(r"R->buflen\s*=\s*(\d+)\s*;", _func(nb, "netbuf_read_init2"), "initial reader buffer")
    out += coq_def_N("reader_init_buflen", int(m.group(1)))
    return {"Repo_http.v": out}
