"""Translator for http/http.c (and the one netbuf constant the HTTP model needs).

Everything the Coq model of the HTTP client treats as a constant is located in the C text here:
limits, the two terminator literals, the framing header names, the literals of the request
serialiser together with the numbers of the length precomputation, the status-line format, the
bases / trailing flags of the two PARSENUM_EX calls, the status ranges."""
from common import *


def _one(pattern, src, what, flags=re.S):
    m = re.search(pattern, src, flags)
    if not m:
        raise NotFound(what)
    return m


def _lit(s):
    return unescape(s)


def _func(src, name):
    """Body text of the function definition `name(` ... up to the next line starting with '}'."""
    m = re.search(r"^%s\(.*?^\}" % re.escape(name), src, flags=re.S | re.M)
    if not m:
        raise NotFound("function " + name)
    return m.group(0)


def _int_expr(txt):
    txt = txt.strip()
    if not re.fullmatch(r"[0-9\s\*\+\(\)]+", txt):
        raise NotFound("not a constant expression: " + txt)
    return int(eval(txt, {"__builtins__": {}}))


def extract(repo):
    src = strip_comments(read(repo, "http/http.c"))
    nb = strip_comments(read(repo, "netbuf/netbuf_read.c"))
    out = HEADER
    out += coq_def_N("maxhdr", define_int(src, "MAXHDR"))
    out += coq_def_N("maxchlen", define_int(src, "MAXCHLEN"))

    # callback_readdata: if (H->readlen > 1024 * 1024) waitlen = 1024 * 1024;
    rdd = _func(src, "callback_readdata")
    m = _one(r"if\s*\(\s*H->readlen\s*>\s*([0-9\s\*]+)\)\s*waitlen\s*=\s*([0-9\s\*]+);", rdd, "wait cap")
    a, b = _int_expr(m.group(1)), _int_expr(m.group(2))
    if a != b:
        raise NotFound("wait cap test %d and value %d differ" % (a, b))
    out += coq_def_N("waitcap", a)
    # the chunk's trailing EOL is excluded from the body: the 2 of `H->readlen <= 2` / `H->readlen - 2`
    m = _one(r"if\s*\(\s*H->chunked\s*\)\s*\{\s*if\s*\(\s*H->readlen\s*<=\s*(\d+)\s*\)\s*datalen\s*=\s*0\s*;\s*"
             r"else\s+if\s*\(\s*datalen\s*>\s*H->readlen\s*-\s*(\d+)\s*\)\s*datalen\s*=\s*H->readlen\s*-\s*(\d+)\s*;", rdd,
             "chunk EOL exclusion in callback_readdata")
    if len({m.group(1), m.group(2), m.group(3)}) != 1:
        raise NotFound("chunk EOL exclusion uses different numbers")
    out += coq_def_N("chunk_eol_len", int(m.group(1)))

    # terminators
    rh = _func(src, "callback_read_header")
    m = _one(r'H->hepos\s*\+\s*(\d+)\s*<=\s*buflen\s*;\s*H->hepos\+\+\s*\)\s*\{\s*if\s*\(\s*memcmp\(\s*&buf\[H->hepos\]\s*,\s*%s\s*,\s*(\d+)\s*\)\s*==\s*0' % STR,
             rh, "header terminator scan")
    if m.group(1) != m.group(3):
        raise NotFound("terminator scan bound and memcmp length differ")
    term = _lit(m.group(2))
    if len(term) != int(m.group(1)):
        raise NotFound("terminator literal length")
    out += coq_def_list("hdr_terminator", term)
    m2 = _one(r"if\s*\(\s*H->hepos\s*\+\s*(\d+)\s*<=\s*buflen\s*\)\s*return\s*\(\s*gotheaders\(\s*H\s*,\s*buf\s*,\s*H->hepos\s*\+\s*(\d+)\s*\)", rh,
              "gotheaders call")
    if not (m2.group(1) == m2.group(2) == m.group(1)):
        raise NotFound("terminator lengths in callback_read_header differ")
    m = _one(r"netbuf_read_wait\(\s*H->R\s*,\s*buflen\s*\+\s*(\d+)\s*,\s*callback_read_header", rh, "header wait")
    out += coq_def_N("hdr_wait_more", int(m.group(1)))

    fe = _func(src, "findeol")
    m = _one(r'bufpos\s*\+\s*(\d+)\s*<=\s*buflen\s*;\s*bufpos\+\+\s*\)\s*\{\s*if\s*\(\s*memcmp\(\s*&buf\[bufpos\]\s*,\s*%s\s*,\s*(\d+)\s*\)' % STR, fe, "findeol")
    eol = _lit(m.group(2))
    if not (int(m.group(1)) == int(m.group(3)) == len(eol)):
        raise NotFound("findeol lengths differ")
    out += coq_def_list("eol", eol)
    sg = _func(src, "sgetline")
    m = _one(r"\*bufpos\s*\+=\s*\*linelen\s*\+\s*(\d+)\s*;", sg, "sgetline advance")
    out += coq_def_N("sgetline_skip", int(m.group(1)))

    gh = _func(src, "gotheaders")
    m = _one(r"bufpos\s*\+=\s*linelen\s*\+\s*(\d+)\s*\)", gh, "line count advance")
    out += coq_def_N("count_skip", int(m.group(1)))
    m = _one(r"H->res\.nheaders\s*-=\s*(\d+)\s*;", gh, "nheaders adjustment")
    out += coq_def_N("nonheader_lines", int(m.group(1)))
    m = _one(r"assert\(\s*bufpos\s*\+\s*(\d+)\s*==\s*H->res_headlen\s*\)", gh, "end-of-block assert")
    out += coq_def_N("final_blank_len", int(m.group(1)))
    m = _one(r"sscanf\(\s*s\s*,\s*%s\s*,\s*&major\s*,\s*&minor\s*,\s*&H->res\.status\s*\)\s*<\s*(\d+)" % STR, gh, "status-line sscanf")
    out += coq_def_list("status_format", _lit(m.group(1)))
    out += coq_def_N("status_min_conversions", int(m.group(2)))
    m = _one(r"if\s*\(\s*major\s*!=\s*(\d+)\s*\)", gh, "major version test")
    out += coq_def_N("http_major", int(m.group(1)))
    m = _one(r"\(\s*H->res\.status\s*<\s*(\d+)\s*\)\s*\|\|\s*\(\s*H->res\.status\s*>\s*(\d+)\s*\)", gh, "status range test")
    out += coq_def_N("status_lo", int(m.group(1)))
    out += coq_def_N("status_hi", int(m.group(2)))
    m = _one(r"\(\s*H->res\.status\s*>=\s*(\d+)\s*\)\s*&&\s*\(\s*H->res\.status\s*<=\s*(\d+)\s*\)", gh, "1xx test")
    out += coq_def_N("interim_lo", int(m.group(1)))
    out += coq_def_N("interim_hi", int(m.group(2)))
    m = _one(r"\(\s*H->req_ishead\s*!=\s*0\s*\)\s*\|\|\s*\(\s*H->res\.status\s*==\s*(\d+)\s*\)\s*\|\|\s*\(\s*H->res\.status\s*==\s*(\d+)\s*\)", gh, "bodiless statuses")
    out += "Definition bodiless_statuses : list N := [%d; %d]%%N.\n" % (int(m.group(1)), int(m.group(2)))
    # OWS
    m = _one(r"\(\s*s\[s_len\s*-\s*1\]\s*==\s*'(.+?)'\s*\)\s*\|\|\s*\(\s*s\[s_len\s*-\s*1\]\s*==\s*'(.+?)'\s*\)", gh, "trailing OWS test")
    ows_trail = sorted(_lit(m.group(1)) + _lit(m.group(2)))
    m = _one(r"strspn\(\s*H->res\.headers\[i\]\.value\s*,\s*%s\s*\)" % STR, gh, "leading OWS strspn")
    ows_lead = sorted(_lit(m.group(1)))
    out += coq_def_list("ows_trailing", ows_trail)
    out += coq_def_list("ows_leading", ows_lead)
    m = _one(r"cpos\s*=\s*strcspn\(\s*s\s*,\s*%s\s*\)" % STR, gh, "header split strcspn")
    out += coq_def_list("hdr_separators", _lit(m.group(1)))
    # framing
    m = _one(r'te\s*=\s*http_findheader\([^;]*?%s\s*\)\s*\)\s*!=\s*NULL\s*\)\s*\{\s*if\s*\(\s*strstr\(\s*te\s*,\s*%s\s*\)' % (STR, STR), gh, "Transfer-Encoding lookup")
    out += coq_def_list("hdr_transfer_encoding", _lit(m.group(1)))
    out += coq_def_list("te_chunked", _lit(m.group(2)))
    m = _one(r'clen\s*=\s*http_findheader\([^;]*?%s\s*\)\s*\)\s*!=\s*NULL\s*\)\s*\{\s*if\s*\(\s*PARSENUM_EX\(\s*&len\s*,\s*clen\s*,\s*(\d+)\s*,\s*(\d+)\s*\)' % STR, gh, "Content-Length lookup")
    out += coq_def_list("hdr_content_length", _lit(m.group(1)))
    out += coq_def_N("clen_base", int(m.group(2)))
    out += coq_def_N("clen_trailing", int(m.group(3)))

    ch = _func(src, "callback_chunkedheader")
    m = _one(r"PARSENUM_EX\(\s*&clen\s*,\s*\(const char \*\)buf\s*,\s*0\s*,\s*SIZE_MAX\s*,\s*(\d+)\s*,\s*(\d+)\s*\)", ch, "chunk size PARSENUM_EX")
    out += coq_def_N("chunk_base", int(m.group(1)))
    out += coq_def_N("chunk_trailing", int(m.group(2)))
    terminated = 1 if re.search(r"buf\[eolpos\]\s*=\s*'\\0'\s*;\s*if\s*\(\s*PARSENUM_EX", ch) else 0
    out += coq_def_N("chunk_line_terminated", terminated)
    m = _one(r"netbuf_read_consume\(\s*H->R\s*,\s*eolpos\s*\+\s*(\d+)\s*\)", ch, "chunk line consume")
    out += coq_def_N("chunk_line_skip", int(m.group(1)))
    m = _one(r"if\s*\(\s*clen\s*>\s*SIZE_MAX\s*-\s*(\d+)\s*\)\s*return\s*\(\s*toobig\(H\)\s*\)\s*;\s*H->readlen\s*=\s*clen\s*\+\s*(\d+)\s*;", ch, "readlen = clen + 2")
    if m.group(1) != m.group(2):
        raise NotFound("overflow guard and readlen increment differ")
    out += coq_def_N("chunk_readlen_extra", int(m.group(1)))
    m = _one(r"netbuf_read_wait\(\s*H->R\s*,\s*buflen\s*\+\s*(\d+)\s*,\s*callback_chunkedheader", ch, "chunk header wait")
    out += coq_def_N("chunk_wait_more", int(m.group(1)))
    te = _func(src, "callback_read_toeof")
    m = _one(r"netbuf_read_wait\(\s*H->R\s*,\s*(\d+)\s*,\s*callback_read_toeof", te, "read-to-EOF wait")
    out += coq_def_N("toeof_wait", int(m.group(1)))

    # request serialiser
    rq = _func(src, "http_request2")
    m = _one(r'strcmp\(\s*request->method\s*,\s*%s\s*\)\s*==\s*0' % STR, rq, "HEAD test")
    out += coq_def_list("method_head", _lit(m.group(1)))
    m = _one(r'H->req_headlen\s*=\s*strlen\(request->method\)\s*\+\s*strlen\(%s\)\s*\+\s*strlen\(request->path\)\s*\+\s*strlen\(%s\)\s*;' % (STR, STR), rq, "request-line length")
    out += coq_def_list("reqlen_sp", _lit(m.group(1)))
    out += coq_def_list("reqlen_version", _lit(m.group(2)))
    m = _one(r"strlen\(request->headers\[i\]\.value\)\s*\+\s*(\d+)\s*;", rq, "header line length")
    out += coq_def_N("reqlen_per_header", int(m.group(1)))
    m = _one(r"H->req_headlen\s*\+=\s*(\d+)\s*;", rq, "blank line length")
    out += coq_def_N("reqlen_blank", int(m.group(1)))
    m = _one(r'stpcpy\(s,\s*request->method\);\s*s\s*=\s*stpcpy\(s,\s*%s\);\s*s\s*=\s*stpcpy\(s,\s*request->path\);\s*s\s*=\s*stpcpy\(s,\s*%s\);' % (STR, STR), rq, "request line stpcpy chain")
    out += coq_def_list("req_sp", _lit(m.group(1)))
    out += coq_def_list("req_version", _lit(m.group(2)))
    m = _one(r'stpcpy\(s,\s*request->headers\[i\]\.header\);\s*s\s*=\s*stpcpy\(s,\s*%s\);\s*s\s*=\s*stpcpy\(s,\s*request->headers\[i\]\.value\);\s*s\s*=\s*stpcpy\(s,\s*%s\);\s*\}\s*s\s*=\s*stpcpy\(s,\s*%s\);' % (STR, STR, STR), rq, "header stpcpy chain")
    out += coq_def_list("req_colon", _lit(m.group(1)))
    out += coq_def_list("req_eol", _lit(m.group(2)))
    out += coq_def_list("req_blank", _lit(m.group(3)))

    # reader geometry at creation (netbuf_read_init2)
    m = _one(r"R->buflen\s*=\s*(\d+)\s*;\s*if\s*\(\s*\(R->buf\s*=\s*malloc\(R->buflen\)\)", nb, "initial reader buffer")
    out += coq_def_N("reader_init_buflen", int(m.group(1)))
    return {"Repo_http.v": out}
