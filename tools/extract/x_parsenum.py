"""util/humansize.c (+ a few literals of util/parsenum.h) -> coq/Gen/Repo_parsenum.v

Everything the Humansize model depends on that is a literal in the C text:
the prefix string " kMGTPE", the 1000 / 100 / 10000 / 1000 / 100 / 10 limits of humansize(), its three
asprintf format strings, and for humansize_parse() the order of the SI `case` labels, the x1000
multiplier and the two radix constants of the digit accumulation.
Patterns are keyed on operators and numbers, not on variable names, so renaming locals is harmless."""
import re
from common import *

ID = r"[A-Za-z_]\w*"


def func_body(src, name):
    m = re.search(r"^%s\s*\([^)]*\)\s*\{" % re.escape(name), src, flags=re.M)
    if not m:
        raise NotFound("function " + name)
    i = m.end()
    depth = 1
    while i < len(src) and depth:
        if src[i] == "{":
            depth += 1
        elif src[i] == "}":
            depth -= 1
        i += 1
    return strip_comments(src[m.end():i])


def need(pat, text, what, flags=re.S):
    m = re.search(pat, text, flags)
    if not m:
        raise NotFound(what)
    return m


def char_lit(tok):
    b = unescape(tok)
    if len(b) != 1:
        raise NotFound("character literal '%s'" % tok)
    return b[0]


def coq_def_Z(name, v):
    return "Definition %s : Z := %d%%Z.\n" % (name, v)


def extract(repo):
    hs = read(repo, "util/humansize.c")
    out = "From Coq Require Import NArith ZArith List.\nImport ListNotations.\n\n"

    # ---- humansize() ----
    f = func_body(hs, "humansize")
    m = need(r"if\s*\(\s*(%s)\s*<\s*(\d+)\s*\)\s*\{?\s*\w+\s*=\s*asprintf\s*\(\s*&\s*\w+\s*,\s*%s\s*,\s*\(\s*int\s*\)\s*\1\s*\)" % (ID, STR),
             f, "humansize: `if (size < 1000) asprintf(\"%d B\", (int)size)`")
    var = m.group(1)
    out += coq_def_Z("hs_small_limit", int(m.group(2)))
    out += coq_def_list("hs_fmt_small", unescape(m.group(3)))
    # the loop, written either as the `for` of the original or as an equivalent `while`
    pat_for = (r"for\s*\(\s*%s\s*/=\s*(?P<fd>\d+)\s*,\s*(?P<cnt>%s)\s*=\s*(?P<si>\d+)\s*;\s*%s\s*>=\s*(?P<ll>\d+)\s*;"
               r"\s*(?P=cnt)\s*\+\+\s*\)\s*\{?\s*%s\s*/=\s*(?P<ld>\d+)\s*;" % (var, ID, var, var))
    pat_while = (r"%s\s*/=\s*(?P<fd>\d+)\s*;\s*(?P<cnt>%s)\s*=\s*(?P<si>\d+)\s*;\s*while\s*\(\s*%s\s*>=\s*(?P<ll>\d+)\s*\)"
                 r"\s*\{\s*(?:%s\s*/=\s*(?P<ld>\d+)\s*;\s*(?P=cnt)\s*\+\+\s*;|(?P=cnt)\s*\+\+\s*;\s*%s\s*/=\s*(?P<ld2>\d+)\s*;)\s*\}"
                 % (var, ID, var, var, var))
    m = re.search(pat_for, f, re.S) or re.search(pat_while, f, re.S)
    if not m:
        raise NotFound("humansize: the `/= 100 ... >= 10000 ... /= 1000` loop")
    g = m.groupdict()
    out += coq_def_Z("hs_first_div", int(g["fd"]))
    out += coq_def_Z("hs_shift_init", int(g["si"]))
    out += coq_def_Z("hs_loop_limit", int(g["ll"]))
    out += coq_def_Z("hs_loop_div", int(g.get("ld") or g.get("ld2")))
    cnt = g["cnt"]
    m = need(r"=\s*%s\s*\[\s*%s\s*\]\s*;" % (STR, cnt), f, "humansize: prefix string indexed by the shift count")
    out += "(* the string literal including its terminating NUL: an index past it is a Fault *)\n"
    out += coq_def_list("hs_prefixes", unescape(m.group(1)) + [0])
    m = need(r"if\s*\(\s*%s\s*<\s*(\d+)\s*\)\s*\w+\s*=\s*asprintf\s*\(\s*&\s*\w+\s*,\s*%s\s*,\s*"
             r"\(\s*int\s*\)\s*%s\s*/\s*(\d+)\s*,\s*\(\s*int\s*\)\s*%s\s*%%\s*(\d+)\s*,\s*\w+\s*\)\s*;\s*"
             r"else\s*\w+\s*=\s*asprintf\s*\(\s*&\s*\w+\s*,\s*%s\s*,\s*\(\s*int\s*\)\s*%s\s*/\s*(\d+)\s*,\s*\w+\s*\)\s*;"
             % (var, STR, var, var, STR, var), f, "humansize: the two prefixed print forms")
    out += coq_def_Z("hs_frac_limit", int(m.group(1)))
    out += coq_def_list("hs_fmt_frac", unescape(m.group(2)))
    out += coq_def_Z("hs_frac_div", int(m.group(3)))
    out += coq_def_Z("hs_frac_mod", int(m.group(4)))
    out += coq_def_list("hs_fmt_int", unescape(m.group(5)))
    out += coq_def_Z("hs_int_div", int(m.group(6)))

    # ---- humansize_parse() ----
    p = func_body(hs, "humansize_parse")
    m = need(r"if\s*\(\s*\*\s*(%s)\s*>\s*UINT64_MAX\s*/\s*(\d+)\s*\)\s*\w+\s*=\s*-\s*1\s*;\s*else\s*\*\s*\1\s*\*=\s*(\d+)\s*;" % ID,
             p, "humansize_parse: `*size > UINT64_MAX / 10` ... `*size *= 10`")
    out += coq_def_Z("hp_ovf_div", int(m.group(2)))
    out += coq_def_Z("hp_radix", int(m.group(3)))
    m = need(r"if\s*\(\s*\(\s*'((?:[^'\\]|\\.)+)'\s*<=\s*\*\s*(%s)\s*\)\s*&&\s*\(\s*\*\s*\2\s*<=\s*'((?:[^'\\]|\\.)+)'\s*\)\s*\)" % ID,
             p, "humansize_parse: the digit test")
    out += coq_def_Z("hp_digit_lo", char_lit(m.group(1)))
    out += coq_def_Z("hp_digit_hi", char_lit(m.group(3)))
    sv = m.group(2)
    m = need(r"switch\s*\(\s*\*\s*%s\s*\)\s*\{(.*?)\}" % sv, p, "humansize_parse: the SI prefix switch")
    body = m.group(1)
    labels = re.findall(r"case\s*'((?:[^'\\]|\\.)+)'\s*:\s*(%s)\s*\*=\s*(\d+)\s*;" % ID, body)
    if len(labels) < 1 or len(set(l[2] for l in labels)) != 1 or len(set(l[1] for l in labels)) != 1:
        raise NotFound("humansize_parse: uniform `case 'X': multiplier *= 1000;` chain")
    if len(labels) != len(re.findall(r"\bcase\b", body)) or len(re.findall(r"\bbreak\b", body)) != 1 \
            or not re.search(r"break\s*;\s*$", body.strip()):
        raise NotFound("humansize_parse: fall-through chain with a single final break")
    out += "(* case labels in source order; each falls through to the next, every one multiplies *)\n"
    out += coq_def_list("hp_prefix_cases", [char_lit(l[0]) for l in labels])
    out += coq_def_Z("hp_prefix_mult", int(labels[0][2]))
    m = need(r"if\s*\(\s*\*\s*%s\s*==\s*'((?:[^'\\]|\\.)+)'\s*\)\s*break\s*;.*?if\s*\(\s*\*\s*%s\s*==\s*'((?:[^'\\]|\\.)+)'\s*\)\s*break\s*;"
             % (sv, sv), p, "humansize_parse: the optional ' ' and 'B' tests")
    out += coq_def_Z("hp_space", char_lit(m.group(1)))
    out += coq_def_Z("hp_unit", char_lit(m.group(2)))
    return {"Repo_parsenum.v": out}


FALLBACK = {"Repo_parsenum.v": """From Coq Require Import NArith ZArith List.
Import ListNotations.

(* FALLBACK: the translator could not locate the literals; these are the last known values *)
Definition hs_small_limit : Z := 1000%Z.
Definition hs_fmt_small : list N :=
  [37; 100; 32; 66]%N.
Definition hs_first_div : Z := 100%Z.
Definition hs_shift_init : Z := 1%Z.
Definition hs_loop_limit : Z := 10000%Z.
Definition hs_loop_div : Z := 1000%Z.
Definition hs_prefixes : list N :=
  [32; 107; 77; 71; 84; 80; 69; 0]%N.
Definition hs_frac_limit : Z := 100%Z.
Definition hs_fmt_frac : list N :=
  [37; 100; 46; 37; 100; 32; 37; 99;
   66]%N.
Definition hs_frac_div : Z := 10%Z.
Definition hs_frac_mod : Z := 10%Z.
Definition hs_fmt_int : list N :=
  [37; 100; 32; 37; 99; 66]%N.
Definition hs_int_div : Z := 10%Z.
Definition hp_ovf_div : Z := 10%Z.
Definition hp_radix : Z := 10%Z.
Definition hp_digit_lo : Z := 48%Z.
Definition hp_digit_hi : Z := 57%Z.
Definition hp_prefix_cases : list N :=
  [69; 80; 84; 71; 77; 107]%N.
Definition hp_prefix_mult : Z := 1000%Z.
Definition hp_space : Z := 32%Z.
Definition hp_unit : Z := 66%Z.
"""}
