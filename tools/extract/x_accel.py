"""Translator for the two accelerated SHA-256 block transforms -> coq/Gen/Repo_accel.v.

  alg/sha256_sse2.c   its own copy of Krnd[64]; the rotation counts of the scalar S0/S1 macros; the shift
                      counts and _MM_SHUFFLE immediates of mm_bswap_epi32, ROTR32/SHR32/s0_128, s1_128_high,
                      s1_128_low and SPAN_ONE_THREE; the block offsets of the four loads and the W offsets of
                      the stores; the (i) list of the RNDr invocations; loop bound / step / break value; the
                      (destination, four argument indices, store offset) rows of the MSG4 calls in the loop
  alg/sha256_shani.c  the SHUF byte table (memory order); the order in which IMM4 places K0..K3; the byte
                      shift of RND4; the W offsets, the alignr immediate and the `% n` of MSG4; the `i < 12`
                      limit and the `i + 4` of RNDMSG; the 16 (i, K0, K1, K2, K3) rows of the RNDMSG
                      invocations; the four state shuffles, state/block offsets

  alg/sha256.c        (run-time selection only) the rows (case label, callee) of the `switch (hwaccel)` at the
                      top of SHA256_Transform, the rows (value, tested function) of the CPUSUPPORT_VALIDATE calls
                      of hwaccel_init in their order, the length of the self-test block; the shapes of hwtest,
                      of the two _with_W_S shims and of CPUSUPPORT_VALIDATE (cpusupport/cpusupport.h) are demanded

Everything else about the two functions (which intrinsic is applied to what, in which order) is modelled by
hand in coq/Accel/Sse2Sha.v / ShaNi.v; the patterns below demand that shape (whitespace, comments and the
names of local variables are free), so an intrinsic replaced by another one is reported as a broken tie.
"""
from common import *

ID = r"[A-Za-z_][A-Za-z_0-9]*"
NUM = r"(?:0[xX][0-9a-fA-F]+|\d+)"
IMM = r"(_MM_SHUFFLE\(%s,%s,%s,%s\)|%s)" % (NUM, NUM, NUM, NUM, NUM)


def sq(s):
    return re.sub(r"\s+", "", s)


def imm(tok):
    m = re.fullmatch(r"_MM_SHUFFLE\((%s),(%s),(%s),(%s)\)" % (NUM, NUM, NUM, NUM), tok)
    if m:
        z, y, x, w = (int(g, 0) for g in m.groups())
        if max(z, y, x, w) > 3:
            raise NotFound("_MM_SHUFFLE argument out of range in " + tok)
        return (z << 6) | (y << 4) | (x << 2) | w
    return int(tok, 0)


def func_body(src, name):
    """Whitespace-free text between the braces of the last definition of `name` (comments stripped)."""
    found = None
    for m in re.finditer(r"\b%s\s*\(" % re.escape(name), src):
        i, depth = m.end(), 1
        while i < len(src) and depth:
            depth += {"(": 1, ")": -1}.get(src[i], 0)
            i += 1
        j = i
        while j < len(src) and (src[j] in " \t\r\n" or src.startswith("#endif", j)):
            j += 6 if src[j] == "#" else 1
        if j < len(src) and src[j] == "{":
            k, depth = j + 1, 1
            while k < len(src) and depth:
                depth += {"{": 1, "}": -1}.get(src[k], 0)
                k += 1
            found = src[j + 1:k - 1]
    if found is None:
        raise NotFound("definition of function " + name)
    return sq(found)


def macro(src, name):
    """(parameter list, whitespace-free replacement text) of a function-like macro."""
    m = re.search(r"^[ \t]*#[ \t]*define[ \t]+%s\(([^)]*)\)((?:[^\n]*\\\n)*[^\n]*)" % re.escape(name), src, flags=re.M)
    if not m:
        raise NotFound("macro " + name)
    return [p.strip() for p in m.group(1).split(",")], sq(m.group(2).replace("\\\n", " "))


def need(pat, text, what):
    m = re.fullmatch(pat, text, flags=re.S)
    if not m:
        raise NotFound("shape of " + what)
    return m


def strip_decls(body):
    """Drop leading `__m128i a, b;` / `int i;` declarations of a whitespace-free body."""
    while True:
        m = re.match(r"(?:const)?(?:__m128i|int)(%s(?:\[\d+\])?(?:,%s(?:\[\d+\])?)*);" % (ID, ID), body)
        if not m:
            return body
        body = body[m.end():]


def rows(name, ty, tuples):
    body = ";\n   ".join("(" + ", ".join(str(x) for x in t) + ")" for t in tuples)
    return "Definition %s : list (%s) :=\n  [%s]%%N.\n" % (name, ty, body)


# --------------------------------------------------------------------------- sha256_sse2.c
def extract_sse2(repo):
    raw = read(repo, "alg/sha256_sse2.c")
    s = strip_comments(raw)
    v = {}
    v["sse2_Krnd"] = array_init(s, "Krnd")
    if len(v["sse2_Krnd"]) != 64:
        raise NotFound("sha256_sse2.c Krnd: 64 entries")

    # ---- scalar macros: shapes and the rotation counts
    p, b = macro(s, "Ch");  need(r"\(\(x&\(y\^z\)\)\^z\)", b, "Ch (sse2)")
    p, b = macro(s, "Maj"); need(r"\(\(x&\(y\|z\)\)\|\(y&z\)\)", b, "Maj (sse2)")
    p, b = macro(s, "ROTR"); m = need(r"\(\(x>>n\)\|\(x<<\((%s)-n\)\)\)" % NUM, b, "ROTR (sse2)")
    v["sse2_rotr_width"] = int(m.group(1), 0)
    for nm in ("S0", "S1"):
        p, b = macro(s, nm)
        m = need(r"\(ROTR\(x,(%s)\)\^ROTR\(x,(%s)\)\^ROTR\(x,(%s)\)\)" % (NUM, NUM, NUM), b, nm + " (sse2)")
        v["sse2_big%s_rots" % nm] = [int(g, 0) for g in m.groups()]
    p, b = macro(s, "RND")
    need(r"h\+=S1\(e\)\+Ch\(e,f,g\)\+k;d\+=h;h\+=S0\(a\)\+Maj\(a,b,c\)", b, "RND (sse2)")
    if p != list("abcdefgh") + ["k"]:
        raise NotFound("RND parameter list (sse2)")
    p, b = macro(s, "RNDr")
    m = need(r"RND\(" + "".join(r"S\[\((\d+)-i\)%(\d+)\]," for _ in range(8)) + r"W\[i\+ii\]\+Krnd\[i\+ii\]\)", b, "RNDr (sse2)")
    g = [int(x) for x in m.groups()]
    if g[0::2] != list(range(64, 72)) or set(g[1::2]) != {8} or p != ["S", "W", "i", "ii"]:
        raise NotFound("RNDr index arithmetic (sse2)")

    # ---- mm_bswap_epi32
    b = strip_decls(func_body(s, "mm_bswap_epi32"))
    m = need(r"(%s)=_mm_or_si128\(_mm_slli_epi16\(\1,(%s)\),_mm_srli_epi16\(\1,(%s)\)\);"
             r"\1=_mm_shufflelo_epi16\(\1,%s\);\1=_mm_shufflehi_epi16\(\1,%s\);return\(\1\);" % (ID, NUM, NUM, IMM, IMM),
             b, "mm_bswap_epi32")
    v["sse2_bswap_sll16"] = int(m.group(2), 0)
    v["sse2_bswap_srl16"] = int(m.group(3), 0)
    v["sse2_bswap_shuflo"] = imm(m.group(4))
    v["sse2_bswap_shufhi"] = imm(m.group(5))

    # ---- SHR32 / ROTR32 / s0_128
    p, b = macro(s, "SHR32"); need(r"\(_mm_srli_epi32\(x,n\)\)", b, "SHR32")
    p, b = macro(s, "ROTR32"); m = need(r"\(_mm_or_si128\(SHR32\(x,n\),_mm_slli_epi32\(x,\((%s)-n\)\)\)\)" % NUM, b, "ROTR32")
    v["sse2_rotr32_width"] = int(m.group(1), 0)
    p, b = macro(s, "s0_128")
    m = need(r"_mm_xor_si128\(_mm_xor_si128\(ROTR32\(x,(%s)\),ROTR32\(x,(%s)\)\),SHR32\(x,(%s)\)\)" % (NUM, NUM, NUM), b, "s0_128")
    v["sse2_s0_rots"] = [int(m.group(1), 0), int(m.group(2), 0)]
    v["sse2_s0_shr"] = int(m.group(3), 0)

    # ---- s1_128_high / s1_128_low
    for nm, tag, fin in (("s1_128_high", "s1h", "_mm_slli_si128"), ("s1_128_low", "s1l", "_mm_srli_si128")):
        b = strip_decls(func_body(s, nm))
        m = need(r"(%s)=_mm_shuffle_epi32\((%s),%s\);"
                 r"(%s)=_mm_xor_si128\(_mm_srli_epi64\(\1,(%s)\),_mm_srli_epi64\(\1,(%s)\)\);"
                 r"\4=_mm_xor_si128\(\4,_mm_srli_epi32\(\1,(%s)\)\);"
                 r"\4=_mm_shuffle_epi32\(\4,%s\);\4=%s\(\4,(%s)\);return\(\4\);"
                 % (ID, ID, IMM, ID, NUM, NUM, NUM, IMM, fin, NUM), b, nm)
        v["sse2_%s_dup" % tag] = imm(m.group(3))
        v["sse2_%s_srl64" % tag] = [int(m.group(5), 0), int(m.group(6), 0)]
        v["sse2_%s_shr" % tag] = int(m.group(7), 0)
        v["sse2_%s_pick" % tag] = imm(m.group(8))
        v["sse2_%s_bytes" % tag] = int(m.group(9), 0)

    # ---- SPAN_ONE_THREE
    p, b = macro(s, "SPAN_ONE_THREE")
    m = need(r"\(_mm_shuffle_epi32\(_mm_castps_si128\(_mm_move_ss\(_mm_castsi128_ps\(a\),_mm_castsi128_ps\(b\)\)\),%s\)\)" % IMM,
             b, "SPAN_ONE_THREE")
    if p != ["a", "b"]:
        raise NotFound("SPAN_ONE_THREE parameter list")
    v["sse2_span_shuf"] = imm(m.group(1))

    # ---- MSG4(X0, X1, X2, X3)
    b = strip_decls(func_body(s, "MSG4"))
    need(r"(%s)=SPAN_ONE_THREE\(X2,X3\);(%s)=SPAN_ONE_THREE\(X0,X1\);"
         r"(%s)=_mm_add_epi32\(X0,\1\);\3=_mm_add_epi32\(\3,s0_128\(\2\)\);"
         r"\3=_mm_add_epi32\(\3,s1_128_low\(X3\)\);\3=_mm_add_epi32\(\3,s1_128_high\(\3\)\);return\(\3\);" % (ID, ID, ID),
         b, "MSG4 (sse2)")
    if not re.search(r"\bMSG4\s*\(\s*__m128i\s+X0\s*,\s*__m128i\s+X1\s*,\s*__m128i\s+X2\s*,\s*__m128i\s+X3\s*\)", s):
        raise NotFound("MSG4 parameter list (sse2)")

    # ---- SHA256_Transform_sse2
    b = strip_decls(func_body(s, "SHA256_Transform_sse2"))
    loads = re.findall(r"(%s)\[(\d)\]=mm_bswap_epi32\(_mm_loadu_si128\(\(const__m128i\*\)&block\[(\d+)\]\)\);"
                       r"_mm_storeu_si128\(\(__m128i\*\)&W\[(\d+)\],(%s)\[(\d)\]\);" % (ID, ID), b)
    if len(loads) != 4 or any(l[0] != l[4] or l[1] != l[5] for l in loads) or len({l[0] for l in loads}) != 1:
        raise NotFound("the four block loads of SHA256_Transform_sse2")
    Y = loads[0][0]
    load_rows = [(int(l[1]), int(l[2]), int(l[3])) for l in loads]
    rest = b
    for l in loads:
        stmt = "%s[%s]=mm_bswap_epi32(_mm_loadu_si128((const__m128i*)&block[%s]));_mm_storeu_si128((__m128i*)&W[%s],%s[%s]);" % l
        if not rest.startswith(stmt):
            raise NotFound("order of the block loads of SHA256_Transform_sse2")
        rest = rest[len(stmt):]
    v["sse2_loads"] = load_rows
    m = need(r"memcpy\(S,state,(\d+)\);"
             r"for\((%s)=0;\2<(\d+);\2\+=(\d+)\)\{((?:RNDr\(S,W,\d+,\2\);)+)if\(\2==(\d+)\)break;(.*?)\}"
             r"for\(\2=0;\2<(\d+);\2\+\+\)state\[\2\]\+=S\[\2\];" % ID, rest, "SHA256_Transform_sse2 (copy, mix loop, final addition)")
    v["sse2_copy_bytes"] = int(m.group(1))
    iv = m.group(2)
    v["sse2_loop_bound"] = int(m.group(3))
    v["sse2_loop_step"] = int(m.group(4))
    v["sse2_rndr"] = [int(x) for x in re.findall(r"RNDr\(S,W,(\d+),", m.group(5))]
    v["sse2_loop_break"] = int(m.group(6))
    v["sse2_final_words"] = int(m.group(8))
    msg = re.findall(r"%s\[(\d)\]=MSG4\(%s\[(\d)\],%s\[(\d)\],%s\[(\d)\],%s\[(\d)\]\);"
                     r"_mm_storeu_si128\(\(__m128i\*\)&W\[(\d+)\+%s\+(\d+)\],%s\[(\d)\]\);"
                     % (Y, Y, Y, Y, Y, re.escape(iv), Y), m.group(7))
    joined = "".join("%s[%s]=MSG4(%s[%s],%s[%s],%s[%s],%s[%s]);_mm_storeu_si128((__m128i*)&W[%s+%s+%s],%s[%s]);"
                     % (Y, r[0], Y, r[1], Y, r[2], Y, r[3], Y, r[4], r[5], iv, r[6], Y, r[7]) for r in msg)
    if not msg or joined != m.group(7) or any(r[0] != r[7] for r in msg):
        raise NotFound("the MSG4 calls of SHA256_Transform_sse2")
    v["sse2_msg_calls"] = [(int(r[0]), int(r[1]), int(r[2]), int(r[3]), int(r[4]), int(r[5]) + int(r[6])) for r in msg]
    return v


# --------------------------------------------------------------------------- sha256_shani.c
def extract_shani(repo):
    s = strip_comments(read(repo, "alg/sha256_shani.c"))
    v = {}
    b = func_body(s, "be32dec_128")
    m = need(r"const__m128i(%s)=_mm_set_epi8\(((?:%s,){15}%s)\);__m128i(%s);"
             r"\3=_mm_loadu_si128\(\(const__m128i\*\)src\);return\(_mm_shuffle_epi8\(\3,\1\)\);" % (ID, NUM, NUM, ID),
             b, "be32dec_128")
    tab = [int(x, 0) for x in m.group(2).split(",")]
    if any(x > 255 for x in tab):
        raise NotFound("SHUF entries are bytes")
    v["shani_SHUF"] = tab[::-1]          # _mm_set_epi8(e15, ..., e0): memory order is e0 first

    p, b = macro(s, "I32")
    need(r"\(\(UINT32_C\(a\)>=UINT32_C\(0x80000000\)\)\?-\(int32_t\)\(UINT32_C\(0xffffffff\)-UINT32_C\(a\)\)-1:\(int32_t\)INT32_C\(a\)\)",
         b, "I32")
    p, b = macro(s, "IMM4")
    m = need(r"_mm_set_epi32\(I32\((%s)\),I32\((%s)\),I32\((%s)\),I32\((%s)\)\)" % (ID, ID, ID, ID), b, "IMM4")
    if sorted(m.groups()) != sorted(p) or len(p) != 4:
        raise NotFound("IMM4 parameters")
    imm4_pos = [p.index(g) for g in m.groups()]       # _mm_set_epi32 argument k (lane 3-k) takes IMM4 parameter imm4_pos[k]
    p, b = macro(s, "RND4")
    m = need(r"do\{__m128i(%s);\1=_mm_add_epi32\(W,IMM4\((K\d),(K\d),(K\d),(K\d)\)\);"
             r"S\[1\]=_mm_sha256rnds2_epu32\(S\[1\],S\[0\],\1\);\1=_mm_srli_si128\(\1,(%s)\);"
             r"S\[0\]=_mm_sha256rnds2_epu32\(S\[0\],S\[1\],\1\);\}while\(0\)" % (ID, NUM), b, "RND4")
    if p != ["S", "W", "K0", "K1", "K2", "K3"]:
        raise NotFound("RND4 parameter list")
    passed = [int(m.group(k)[1:]) for k in (2, 3, 4, 5)]   # IMM4 parameter j receives K<passed[j]>
    # lane l of the constant vector = _mm_set_epi32 argument 3-l
    v["shani_klanes"] = [passed[imm4_pos[3 - l]] for l in range(4)]
    v["shani_rnd4_srl"] = int(m.group(6), 0)

    p, b = macro(s, "MSG4")
    w = lambda k: r"W\[\(i\+%s\)%%(\d+)\]" % k
    m = need(r"do\{" + w(r"(\d+)") + r"=_mm_sha256msg1_epu32\(" + w(r"(\d+)") + "," + w(r"(\d+)") + r"\);"
             + w(r"(\d+)") + r"=_mm_add_epi32\(" + w(r"(\d+)") + r",_mm_alignr_epi8\(" + w(r"(\d+)") + "," + w(r"(\d+)") + r",(%s)\)\);" % NUM
             + w(r"(\d+)") + r"=_mm_sha256msg2_epu32\(" + w(r"(\d+)") + "," + w(r"(\d+)") + r"\);\}while\(0\)", b, "MSG4 (shani)")
    g = m.groups()
    offs = [int(x) for x in g[0:14:2]] + [int(x) for x in g[15::2]]
    mods = [int(x) for x in g[1:14:2]] + [int(x) for x in g[16::2]]
    if len(set(mods)) != 1 or p != ["W", "i"]:
        raise NotFound("MSG4 (shani): `% n` / parameters")
    if not (offs[0] == offs[1] == offs[3] == offs[4] == offs[7] == offs[8]):
        raise NotFound("MSG4 (shani): destination word")
    v["shani_msg_mod"] = mods[0]
    v["shani_msg_offs"] = [offs[0], offs[2], offs[5], offs[6], offs[9]]   # dest, msg1 src2, alignr hi, alignr lo, msg2 src2
    v["shani_msg_alignr"] = int(g[14], 0)

    p, b = macro(s, "RNDMSG")
    m = need(r"do\{RND4\(S,W\[i%(\d+)\],K0,K1,K2,K3\);if\(i<(\d+)\)MSG4\(W,i\+(\d+)\);\}while\(0\)", b, "RNDMSG")
    if p != ["S", "W", "i", "K0", "K1", "K2", "K3"]:
        raise NotFound("RNDMSG parameter list")
    v["shani_rnd_mod"] = int(m.group(1))
    v["shani_msg_limit"] = int(m.group(2))
    v["shani_msg_ahead"] = int(m.group(3))

    b = func_body(s, "SHA256_Transform_shani")
    m = need(r"(?:__m128i%s(?:\[\d\])?(?:,%s(?:\[\d\])?)*;)+"
             r"(%s)=_mm_loadu_si128\(\(const__m128i\*\)&state\[(\d+)\]\);(%s)=_mm_loadu_si128\(\(const__m128i\*\)&state\[(\d+)\]\);"
             r"(%s)=_mm_shuffle_epi32\(\1,%s\);(%s)=_mm_shuffle_epi32\(\3,%s\);"
             r"(%s)=_mm_unpackhi_epi64\(\7,\5\);(%s)=_mm_unpacklo_epi64\(\7,\5\);"
             r"((?:W\[\d\]=be32dec_128\(&block\[\d+\]\);)+)"
             r"S\[0\]=\9;S\[1\]=\10;"
             r"((?:RNDMSG\(S,W,\d+,%s,%s,%s,%s\);)+)"
             r"\9=_mm_add_epi32\(\9,S\[0\]\);\10=_mm_add_epi32\(\10,S\[1\]\);"
             r"\5=_mm_unpackhi_epi64\(\10,\9\);\7=_mm_unpacklo_epi64\(\10,\9\);"
             r"\1=_mm_shuffle_epi32\(\5,%s\);\3=_mm_shuffle_epi32\(\7,%s\);"
             r"_mm_storeu_si128\(\(__m128i\*\)&state\[(\d+)\],\1\);_mm_storeu_si128\(\(__m128i\*\)&state\[(\d+)\],\3\);"
             % (ID, ID, ID, ID, ID, IMM, ID, IMM, ID, ID, NUM, NUM, NUM, NUM, IMM, IMM), b, "SHA256_Transform_shani")
    v["shani_state_offs"] = [int(m.group(2)), int(m.group(4)), int(m.group(15)), int(m.group(16))]
    v["shani_state_shufs"] = [imm(m.group(6)), imm(m.group(8)), imm(m.group(13)), imm(m.group(14))]
    wl = re.findall(r"W\[(\d)\]=be32dec_128\(&block\[(\d+)\]\);", m.group(11))
    if [int(a) for a, _ in wl] != list(range(len(wl))) or len(wl) != 4:
        raise NotFound("block loads of SHA256_Transform_shani")
    v["shani_block_offs"] = [int(o) for _, o in wl]
    rm = re.findall(r"RNDMSG\(S,W,(\d+),(%s),(%s),(%s),(%s)\);" % (NUM, NUM, NUM, NUM), m.group(12))
    v["shani_rndmsg"] = [(int(r[0]),) + tuple(int(x, 0) for x in r[1:]) for r in rm]
    if any(k > 0xffffffff for r in v["shani_rndmsg"] for k in r[1:]):
        raise NotFound("RNDMSG constants are 32-bit")
    return v


# --------------------------------------------------------------------------- sha256.c (selection)
HWCODE = {"HW_SOFTWARE": 0, "HW_X86_SHANI": 1, "HW_X86_SSE2": 2, "HW_ARM_SHA256": 3}
CALLEE = {"SHA256_Transform_shani(state,block)": 1, "SHA256_Transform_sse2(state,block,W,S)": 2,
          "SHA256_Transform_arm(state,block)": 3}
TESTED = {"SHA256_Transform_shani_with_W_S": 1, "SHA256_Transform_sse2": 2, "SHA256_Transform_arm_with_W_S": 3}
CPUCHK = {1: "cpusupport_x86_shani()&&cpusupport_x86_ssse3()", 2: "cpusupport_x86_sse2()", 3: "cpusupport_arm_sha256()"}


def no_cpp(text):
    """Drop preprocessor lines (continuations included)."""
    return re.sub(r"^[ \t]*#(?:[^\n]*\\\n)*[^\n]*$", " ", text, flags=re.M)


def extract_dispatch(repo):
    raw = strip_comments(read(repo, "alg/sha256.c"))
    s = no_cpp(raw)
    v = {}
    # the enum: HW_SOFTWARE must be 0 and first, HW_UNSET last and the initial value
    m = re.search(r"static\s+enum\s*\{(.*?)\}\s*hwaccel\s*=\s*(\w+)\s*;", s, flags=re.S)
    if not m:
        raise NotFound("the hwaccel enum of sha256.c")
    names = [sq(x) for x in m.group(1).split(",") if sq(x)]
    if names[0] != "HW_SOFTWARE=0" or names[-1] != "HW_UNSET" or m.group(2) != "HW_UNSET" \
            or any(n not in HWCODE for n in names[1:-1]) or len(set(names)) != len(names):
        raise NotFound("enumerators of hwaccel")
    # the switch at the top of SHA256_Transform
    b = func_body(s, "SHA256_Transform")
    m = re.match(r"inti;(?:assert\(hwaccel!=HW_UNSET\);)?switch\(hwaccel\)\{((?:case\w+:[^;{}]*;return;)*)"
                 r"caseHW_SOFTWARE:caseHW_UNSET:break;\}be32dec_vect\(W,block,64\);", b)
    if not m:
        raise NotFound("shape of the `switch (hwaccel)` of SHA256_Transform")
    rows_sw = []
    for lab, call in re.findall(r"case(\w+):([^;{}]*);return;", m.group(1)):
        if lab not in HWCODE or call not in CALLEE or HWCODE[lab] == 0:
            raise NotFound("case %s: %s of SHA256_Transform" % (lab, call))
        rows_sw.append((HWCODE[lab], CALLEE[call]))
    if len({r[0] for r in rows_sw}) != len(rows_sw):
        raise NotFound("duplicate case label in SHA256_Transform")
    v["shacfg_switch"] = rows_sw
    # the shims and hwtest
    for nm, callee in (("SHA256_Transform_shani_with_W_S", "SHA256_Transform_shani"),
                       ("SHA256_Transform_arm_with_W_S", "SHA256_Transform_arm")):
        need(r"\(void\)W;\(void\)S;%s\(state,block\);" % callee, func_body(s, nm), nm)
    need(r"uint32_tstate_sw\[8\];uint32_tstate_hw\[8\];memcpy\(state_sw,state,sizeof\(state_sw\)\);"
         r"SHA256_Transform\(state_sw,block,W,S\);memcpy\(state_hw,state,sizeof\(state_hw\)\);"
         r"func\(state_hw,block,W,S\);return\(memcmp\(state_sw,state_hw,sizeof\(state_sw\)\)\);",
         func_body(s, "hwtest"), "hwtest (sha256.c)")
    # hwaccel_init
    b = func_body(s, "hwaccel_init")
    m = need(r"uint32_tW\[64\];uint32_tS\[8\];uint8_tblock\[(\d+)\];uint8_ti;if\(hwaccel!=HW_UNSET\)return;"
             r"hwaccel=HW_SOFTWARE;for\(i=0;i<(\d+);i\+\+\)block\[i\]=i;"
             r"((?:CPUSUPPORT_VALIDATE\(hwaccel,\w+,[^;]*?,hwtest\(initial_state,block,W,S,\w+\)\);)*)",
             b, "hwaccel_init (sha256.c)")
    if m.group(1) != m.group(2):
        raise NotFound("self-test block length of hwaccel_init")
    v["shacfg_hwtest_len"] = int(m.group(2))
    rows_v = []
    for lab, chk, fn in re.findall(r"CPUSUPPORT_VALIDATE\(hwaccel,(\w+),([^;]*?),hwtest\(initial_state,block,W,S,(\w+)\)\);",
                                   m.group(3)):
        if lab not in HWCODE or fn not in TESTED or HWCODE[lab] == 0 or CPUCHK[HWCODE[lab]] != chk:
            raise NotFound("CPUSUPPORT_VALIDATE(%s, %s, %s) of hwaccel_init" % (lab, chk, fn))
        rows_v.append((HWCODE[lab], TESTED[fn]))
    v["shacfg_validate"] = rows_v
    # the macro: first passing self-test wins, a failing one leaves the variable alone
    cs = strip_comments(read(repo, "cpusupport/cpusupport.h"))
    p, mb = macro(cs, "CPUSUPPORT_VALIDATE")
    p = [re.sub(r"[\\\s]", "", x) for x in p]
    need(r"do\{if\(\(cpusupport_checks\)\)\{if\(\(check\)==0\)\{\(hwvar\)=\(success_value\);return;\}"
         r"else\{warn0\(.*?\);\}\}\}while\(0\)", mb, "CPUSUPPORT_VALIDATE")
    if p != ["hwvar", "success_value", "cpusupport_checks", "check"]:
        raise NotFound("CPUSUPPORT_VALIDATE parameter list")
    return v



def render(v):
    out = HEADER
    for prefix, title in (("sse2_", "alg/sha256_sse2.c"), ("shani_", "alg/sha256_shani.c"),
                          ("shacfg_", "alg/sha256.c (run-time selection)")):
        out += "(* %s *)\n" % title
        for k in sorted(k for k in v if k.startswith(prefix)):
            x = v[k]
            if k == "sse2_loads":
                out += rows(k, "N * N * N", x)
            elif k == "sse2_msg_calls":
                out += rows(k, "N * N * N * N * N * N", x)
            elif k == "shani_rndmsg":
                out += rows(k, "N * N * N * N * N", x)
            elif k in ("shacfg_switch", "shacfg_validate"):
                out += rows(k, "N * N", x)
            elif isinstance(x, list):
                out += coq_def_list(k, x)
            else:
                out += coq_def_N(k, x)
    return out


def extract(repo):
    v = {}
    v.update(extract_sse2(repo))
    v.update(extract_shani(repo))
    v.update(extract_dispatch(repo))
    return {"Repo_accel.v": render(v)}


_K = [0x428a2f98, 0x71374491, 0xb5c0fbcf, 0xe9b5dba5, 0x3956c25b, 0x59f111f1, 0x923f82a4, 0xab1c5ed5,
      0xd807aa98, 0x12835b01, 0x243185be, 0x550c7dc3, 0x72be5d74, 0x80deb1fe, 0x9bdc06a7, 0xc19bf174,
      0xe49b69c1, 0xefbe4786, 0x0fc19dc6, 0x240ca1cc, 0x2de92c6f, 0x4a7484aa, 0x5cb0a9dc, 0x76f988da,
      0x983e5152, 0xa831c66d, 0xb00327c8, 0xbf597fc7, 0xc6e00bf3, 0xd5a79147, 0x06ca6351, 0x14292967,
      0x27b70a85, 0x2e1b2138, 0x4d2c6dfc, 0x53380d13, 0x650a7354, 0x766a0abb, 0x81c2c92e, 0x92722c85,
      0xa2bfe8a1, 0xa81a664b, 0xc24b8b70, 0xc76c51a3, 0xd192e819, 0xd6990624, 0xf40e3585, 0x106aa070,
      0x19a4c116, 0x1e376c08, 0x2748774c, 0x34b0bcb5, 0x391c0cb3, 0x4ed8aa4a, 0x5b9cca4f, 0x682e6ff3,
      0x748f82ee, 0x78a5636f, 0x84c87814, 0x8cc70208, 0x90befffa, 0xa4506ceb, 0xbef9a3f7, 0xc67178f2]

# used when a shape can no longer be located (the tie is reported broken; the model then stands for the
# standard algorithm, so the correspondence run still yields the failing input)
FALLBACK = {"Repo_accel.v": render({
    "sse2_Krnd": _K, "sse2_rotr_width": 32, "sse2_bigS0_rots": [2, 13, 22], "sse2_bigS1_rots": [6, 11, 25],
    "sse2_bswap_sll16": 8, "sse2_bswap_srl16": 8, "sse2_bswap_shuflo": 0xB1, "sse2_bswap_shufhi": 0xB1,
    "sse2_rotr32_width": 32, "sse2_s0_rots": [7, 18], "sse2_s0_shr": 3,
    "sse2_s1h_dup": 0x50, "sse2_s1h_srl64": [17, 19], "sse2_s1h_shr": 10, "sse2_s1h_pick": 0x88, "sse2_s1h_bytes": 8,
    "sse2_s1l_dup": 0xFA, "sse2_s1l_srl64": [17, 19], "sse2_s1l_shr": 10, "sse2_s1l_pick": 0x88, "sse2_s1l_bytes": 8,
    "sse2_span_shuf": 0x39, "sse2_loads": [(0, 0, 0), (1, 16, 4), (2, 32, 8), (3, 48, 12)],
    "sse2_copy_bytes": 32, "sse2_loop_bound": 64, "sse2_loop_step": 16, "sse2_rndr": list(range(16)),
    "sse2_loop_break": 48, "sse2_final_words": 8,
    "sse2_msg_calls": [(0, 0, 1, 2, 3, 16), (1, 1, 2, 3, 0, 20), (2, 2, 3, 0, 1, 24), (3, 3, 0, 1, 2, 28)],
    "shani_SHUF": [3, 2, 1, 0, 7, 6, 5, 4, 11, 10, 9, 8, 15, 14, 13, 12],
    "shani_klanes": [0, 1, 2, 3], "shani_rnd4_srl": 8, "shani_msg_mod": 4, "shani_msg_offs": [0, 1, 3, 2, 3],
    "shani_msg_alignr": 4, "shani_rnd_mod": 4, "shani_msg_limit": 12, "shani_msg_ahead": 4,
    "shani_state_offs": [0, 4, 0, 4], "shani_state_shufs": [0x1B] * 4, "shani_block_offs": [0, 16, 32, 48],
    "shani_rndmsg": [(i, _K[4 * i], _K[4 * i + 1], _K[4 * i + 2], _K[4 * i + 3]) for i in range(16)],
    "shacfg_switch": [(1, 1), (2, 2), (3, 3)], "shacfg_validate": [(1, 1), (2, 2), (3, 3)], "shacfg_hwtest_len": 64,
})}
