"""Translator for the hash area: alg/sha256.c, alg/sha1.c, alg/md5.c -> coq/Gen/Repo_hash.v.

Pulled out of the C text on every run: the constant tables (Krnd, initial_state, PAD), the
initial values assigned in SHA1_Init / MD5_Init, the numeric limits that steer the buffer and
padding logic (56 / 64 / 120 / 0x3f), the HMAC block limit, the hashed-key lengths, the ipad /
opad bytes, the PBKDF2 block length, and - for SHA-1 and MD5, whose rounds are written as macro
invocations - the per-round tuples (kind, index[, shift, T]) together with what each macro kind
means (round constant / boolean function of the RNDk macros, message-index formula of the XXr
macros).  Patterns do not mention the names of local variables.

For C20 (wipe of the context by XXX_Final / HMAC_XXX_Final) the translator also regenerates
  hash_structs    the field lists (element type, name, element count) of SHA256_CTX, SHA1_CTX,
                  MD5_CTX and the three HMAC_XXX_CTX, from alg/sha256.h, alg/sha1.h, alg/md5.h;
  hash_final_fns  for every function DEFINED in the three C files whose name contains "_Final" and
                  that takes one of these contexts (the six public Final functions and the static
                  *_Final_internal helpers): its context parameter (struct type, name, position)
                  and the ordered statements of its body, each one READ (class FinalReader) or the
                  module refuses (NotFound -> the pinned output is installed, the correspondence
                  run decides):
                    (0, f, [object per argument], [])   a call statement f(..);
                    (2, "insecure_memzero", [object], size)   a wipe;
                    (1, "", [], [])   `if (..) insecure_memzero(..);` - a wipe that may not run;
                  object = (0, "") the context, (1, f) its field f (`&ctx->f`, `ctx->f`), (2, "") no
                  part of it (an expression that does not mention the context parameter), after
                  resolving parentheses, pointer casts and single-assignment temporaries; size =
                  product of factors (0, "", n) integer literal, (1, T, 0) sizeof(T) - also for
                  sizeof(*p) via p's declared pointee type, sizeof(local array) as sizeof(elem) * n,
                  sizeof(ctx->f) - and (2, "", 0) sizeof(a pointer variable).  Declarations are
                  recorded (they give the types above), a trailing `return;` is skipped; any other
                  statement, size expression or use of the context is refused.
What a size is worth and which fields a wipe covers is decided by value in coq/Alg/HashWipe.v.
"""
from common import *

ID = r"[A-Za-z_][A-Za-z_0-9]*"
NUM = r"(0[xX][0-9a-fA-F]+|\d+)"


def func_body(src, name):
    """Text between the braces of the *definition* of function `name` (comments stripped)."""
    s = strip_comments(src)
    for m in re.finditer(r"\b%s\s*\(" % re.escape(name), s):
        # find the closing parenthesis of the parameter list
        i, depth = m.end(), 1
        while i < len(s) and depth:
            depth += {"(": 1, ")": -1}.get(s[i], 0)
            i += 1
        j = i
        while j < len(s) and s[j] in " \t\r\n":
            j += 1
        if j < len(s) and s[j] == "{":
            k, depth = j + 1, 1
            while k < len(s) and depth:
                depth += {"{": 1, "}": -1}.get(s[k], 0)
                k += 1
            return s[j + 1:k - 1]
    raise NotFound("definition of function " + name)


def macro_body(src, name):
    """Replacement text of a (possibly multi-line) function-like macro."""
    m = re.search(r"^[ \t]*#[ \t]*define[ \t]+%s\(([^)]*)\)((?:[^\n]*\\\n)*[^\n]*)" % re.escape(name), src, flags=re.M)
    if not m:
        raise NotFound("macro " + name)
    return strip_comments(m.group(2).replace("\\\n", " "))


def one(pat, text, what, group=1, count=None):
    ms = re.findall(pat, text, flags=re.S)
    if not ms:
        raise NotFound(what)
    vals = [m if isinstance(m, str) else m[group - 1] for m in ms]
    if count is not None and len(vals) != count:
        raise NotFound("%s: expected %d occurrences, found %d" % (what, count, len(vals)))
    return vals


def num(tok):
    return int(tok, 0)


def same(vals, what):
    vs = set(num(v) for v in vals)
    if len(vs) != 1:
        raise NotFound("%s: inconsistent literals %s" % (what, sorted(vs)))
    return vs.pop()


def coq_tuples(name, ty, rows):
    body = ";\n   ".join("(" + ", ".join(str(x) for x in r) + ")" for r in rows)
    return "Definition %s : list (%s) :=\n  [%s]%%N.\n" % (name, ty, body)


def init_words(body, what):
    """ctx->state[i] = 0x...; assignments, ordered by index."""
    ms = re.findall(r"->\s*state\s*\[\s*(\d+)\s*\]\s*=\s*%s\s*;" % NUM, body)
    if not ms:
        raise NotFound(what)
    d = {int(i): num(v) for i, v in ms}
    if sorted(d) != list(range(len(d))):
        raise NotFound(what + ": indices not 0..n-1")
    return [d[i] for i in range(len(d))]


def pad_by_updates(body, what):
    """plen = (r < 56) ? (56 - r) : (120 - r) and r = (count[k] >> 3) & 0x3f  (sha1.c / md5.c)"""
    m = re.search(r"\(\s*%s\s*<\s*%s\s*\)\s*\?\s*\(\s*%s\s*-\s*%s\s*\)\s*:\s*\(\s*%s\s*-\s*%s\s*\)" % (ID, NUM, NUM, ID, NUM, ID), body)
    if not m:
        raise NotFound(what + ": plen expression")
    lim, a, b = num(m.group(1)), num(m.group(2)), num(m.group(3))
    if lim != a:
        raise NotFound(what + ": padding limit and first length differ")
    return lim, b


def count_word(body, what):
    m = re.search(r"=\s*\(\s*%s\s*->\s*count\s*\[\s*(\d)\s*\]\s*>>\s*%s\s*\)\s*&\s*%s\s*;" % (ID, NUM, NUM), body)
    if not m:
        raise NotFound(what + ": r = (count[k] >> s) & m")
    return int(m.group(1)), num(m.group(2)), num(m.group(3))


def update_limits(body, what):
    lt = one(r"if\s*\(\s*%s\s*<\s*%s\s*-\s*%s\s*\)" % (ID, NUM, ID), body, what + ": if (len < 64 - r)", 1, 1)
    wh = one(r"while\s*\(\s*%s\s*>=\s*%s\s*\)" % (ID, NUM), body, what + ": while (len >= 64)", 1, 1)
    other = re.findall(r"(?:\+=|-=)\s*%s\s*(?:-\s*%s)?\s*;" % (NUM, ID), body)
    return same(lt + wh + other, what + ": block length")


def hmac_consts(body, what):
    klim = one(r"if\s*\(\s*%s\s*>\s*%s\s*\)" % (ID, NUM), body, what + ": if (Klen > 64)", 1, 1)
    m = re.search(r"if\s*\(\s*%s\s*>\s*%s\s*\)\s*\{(.*?)\}" % (ID, NUM), body, flags=re.S)
    if not m:
        raise NotFound(what + ": key hashing block")
    kl = one(r"\b%s\s*=\s*(\d+)\s*;" % ID, m.group(2), what + ": Klen = <digest length>", 1, 1)
    sets = re.findall(r"memset\s*\(\s*%s\s*,\s*%s\s*,\s*%s\s*\)" % (ID, NUM, NUM), body)
    if len(sets) != 2:
        raise NotFound(what + ": two memset(pad, ...)")
    blk = same([s[1] for s in sets] + klim, what + ": HMAC block length")
    return blk, num(kl[0]), num(sets[0][0]), num(sets[1][0])


C_KEYWORDS = {"if", "else", "for", "while", "do", "switch", "return", "sizeof", "goto", "case"}
# scalar types whose size the interpreter knows (coq/Alg/HashWipe.v wprim, LP64); keep in step
PRIM_TYPES = {"char", "unsigned char", "uint8_t", "uint16_t", "uint32_t", "int", "unsigned int", "uint64_t", "size_t"}
SIZE_CASTS = {"size_t", "unsigned long", "uint64_t"}     # casts that cannot truncate a size on LP64
QUALS = {"const", "volatile", "restrict", "static", "register"}


def func_def(src, name):
    """(parameter list text, body text) of the *definition* of function `name` (comments stripped)."""
    s = strip_comments(src)
    for m in re.finditer(r"\b%s\s*\(" % re.escape(name), s):
        i, depth = m.end(), 1
        while i < len(s) and depth:
            depth += {"(": 1, ")": -1}.get(s[i], 0)
            i += 1
        params = s[m.end():i - 1]
        j = i
        while j < len(s) and s[j] in " \t\r\n":
            j += 1
        if j < len(s) and s[j] == "{":
            k, depth = j + 1, 1
            while k < len(s) and depth:
                depth += {"{": 1, "}": -1}.get(s[k], 0)
                k += 1
            return params, s[j + 1:k - 1]
    raise NotFound("definition of function " + name)


def split_top(text, sep):
    """Split at `sep` characters that are outside every (), [] and {}."""
    parts, cur, depth = [], "", 0
    for ch in text:
        if ch in "([{":
            depth += 1
        elif ch in ")]}":
            depth -= 1
        if ch == sep and depth == 0:
            parts.append(cur)
            cur = ""
        else:
            cur += ch
    parts.append(cur)
    return parts


def squeeze(t):
    return re.sub(r"\s+", "", t)


def statements(body):
    """Top-level statements of a function body: text up to a `;` outside all brackets; a `{..}`
    block at the top level closes the statement it belongs to."""
    out, cur, par, brace = [], "", 0, 0
    for ch in body:
        cur += ch
        if ch == "(" or ch == "[":
            par += 1
        elif ch == ")" or ch == "]":
            par -= 1
        elif ch == "{":
            brace += 1
        elif ch == "}":
            brace -= 1
            if brace == 0 and par == 0 and not re.search(r"=\s*\{[^{}]*\}$", cur):
                out.append(cur.strip())
                cur = ""
        elif ch == ";" and par == 0 and brace == 0:
            out.append(cur[:-1].strip())
            cur = ""
    if cur.strip():
        out.append(cur.strip())
    return [st for st in out if st]


def ctokens(text):
    toks = re.findall(r"%s|0[xX][0-9a-fA-F]+|\d+|->|\+\+|--|[-+*/%%&|^~!<>=?:.,;()\[\]{}]" % ID, text)
    if "".join(toks) != squeeze(text):
        raise NotFound("text not tokenised: " + text.strip())
    return toks


def strip_parens(toks):
    """Remove parentheses that enclose the whole token list."""
    while len(toks) >= 2 and toks[0] == "(" and toks[-1] == ")":
        depth, ok = 0, True
        for k, t in enumerate(toks):
            depth += {"(": 1, ")": -1}.get(t, 0)
            if depth == 0 and k < len(toks) - 1:
                ok = False
                break
        if not ok:
            break
        toks = toks[1:-1]
    return toks


def pure_call(st):
    """(callee, [argument token lists]) if the statement is nothing but `f(a, b, ..)`, else None."""
    m = re.match(r"^(%s)\s*\(" % ID, st)
    if not m or m.group(1) in C_KEYWORDS:
        return None
    i, depth = m.end(), 1
    while i < len(st) and depth:
        depth += {"(": 1, ")": -1}.get(st[i], 0)
        i += 1
    if depth != 0 or i != len(st):
        return None
    inner = st[m.end():i - 1]
    return m.group(1), ([ctokens(a) for a in split_top(inner, ",")] if inner.strip() else [])


def struct_fields(hdr, name):
    """typedef struct { T f[N]; ... } name;  ->  [(T, f, N or 1)]"""
    s = strip_comments(hdr)
    m = re.search(r"typedef\s+struct\s*(?:%s\s*)?\{([^{}]*)\}\s*%s\s*;" % (ID, re.escape(name)), s)
    if not m:
        raise NotFound("typedef struct ... " + name)
    fields = []
    for d in m.group(1).split(";"):
        d = d.strip()
        if not d:
            continue
        fm = re.fullmatch(r"((?:%s\s+)+)(%s)\s*(?:\[\s*%s\s*\])?" % (ID, ID, NUM), d)
        if not fm:
            raise NotFound("%s: field declaration not understood: %s" % (name, d))
        fields.append((" ".join(fm.group(1).split()), fm.group(2), num(fm.group(3)) if fm.group(3) else 1))
    return fields


class FinalReader:
    """Reads ONE *_Final* function: every statement is either understood (and its meaning for the
    context object emitted) or the whole module refuses (NotFound)."""

    def __init__(self, name, params, body, structs):
        self.name, self.structs = name, dict(structs)
        self.vars = {}          # identifier -> ("ptr", pointee type) | ("arr", elem type, n) | ("val", type)
        self.temps = {}         # single-assignment temporary -> token list of its definition
        self.body = body
        self.ctx = None
        plist = [" ".join(p.split()) for p in split_top(params, ",")]
        for k, p in enumerate(plist):
            d = self.declarator(p, param=True)
            if d is None:
                raise NotFound("%s: parameter not understood: %s" % (name, p))
            ident, kind = d
            self.vars[ident] = kind
            if kind[0] == "ptr" and kind[1] in self.structs:
                if self.ctx is not None:
                    raise NotFound("%s: more than one context parameter" % name)
                self.ctx = (kind[1], ident, k)
        if self.ctx is None:
            raise NotFound("%s: no context parameter in (%s)" % (name, params.strip()))

    def bad(self, what, st):
        return NotFound("%s: %s: %s" % (self.name, what, " ".join(st.split())))

    def declarator(self, text, param=False):
        """`T x`, `T * x`, `T x[n]` (qualifiers ignored) -> (x, kind); None if not a declarator."""
        m = re.fullmatch(r"((?:%s\s+)+?)(\*\s*(?:(?:const|restrict)\s+)*)?(%s)\s*(\[[^\]]*\])?" % (ID, ID), text.strip())
        if not m:
            return None
        words = [w for w in m.group(1).split() if w not in QUALS]
        if not words or set(words) & C_KEYWORDS or m.group(3) in C_KEYWORDS:
            return None
        ty = " ".join(words)
        if m.group(2):
            if m.group(4):
                return None
            return m.group(3), ("ptr", ty)
        if m.group(4):
            if param:                       # an array parameter is a pointer
                return m.group(3), ("ptr", ty)
            n = m.group(4)[1:-1].strip()
            if not re.fullmatch(NUM, n):
                return None
            return m.group(3), ("arr", ty, num(n))
        return m.group(3), ("val", ty)

    def assigned_elsewhere(self, ident, decl_st):
        rest = self.body.replace(decl_st, " ", 1)
        return bool(re.search(r"\b%s\s*(?:=(?!=)|[-+*/%%&|^]=|<<=|>>=|\+\+|--)" % re.escape(ident), rest) or
                    re.search(r"(?:\+\+|--|&)\s*%s\b" % re.escape(ident), rest))

    def subst(self, toks):
        """Replace single-assignment temporaries by their definitions."""
        for _ in range(8):
            if not any(t in self.temps for t in toks):
                return toks
            out = []
            for t in toks:
                out += (["("] + self.temps[t] + [")"]) if t in self.temps else [t]
            toks = out
        raise NotFound("%s: temporaries defined in terms of each other" % self.name)

    def strip_ptr_cast(self, toks):
        """(T *)e -> e : a pointer cast does not change which object is denoted."""
        toks = strip_parens(toks)
        while toks and toks[0] == "(":
            k = toks.index(")")
            inner = [t for t in toks[1:k] if t not in QUALS]
            if len(inner) >= 2 and inner[-1] == "*" and all(re.fullmatch(ID, t) for t in inner[:-1]) and k + 1 < len(toks):
                toks = strip_parens(toks[k + 1:])
            else:
                break
        return toks

    def denotes(self, toks, st):
        """(0, "") the context object; (1, f) its field f; (2, "") no part of the context object."""
        cT, cp, _ = self.ctx
        toks = self.strip_ptr_cast(self.subst(toks))
        if toks == [cp]:
            return (0, "")
        fields = [f for _, f, _ in self.structs[cT]]
        if toks[:2] == ["&", "("] and toks[-1:] == [")"]:
            toks = ["&"] + strip_parens(toks[1:])
        for form in (["&", cp, "->"], [cp, "->"]):
            if toks[:len(form)] == form and len(toks) == len(form) + 1 and toks[-1] in fields:
                return (1, toks[-1])
        if cp not in toks:
            return (2, "")
        raise self.bad("argument mentions the context in a form that is not read (%s)" % "".join(toks), st)

    def sizeof_type(self, ty, st):
        if ty in self.structs or ty in PRIM_TYPES:
            return [(1, ty, 0)]
        raise self.bad("sizeof of a type that is not read (%s)" % ty, st)

    def size_factors(self, toks, st):
        """A size expression as a product of factors: (0, "", n) literal, (1, T, 0) sizeof(type T),
        (2, "", 0) sizeof(a pointer)."""
        toks = strip_parens(self.subst(toks))
        # value-preserving casts of the whole expression
        if toks and toks[0] == "(":
            k = toks.index(")")
            if " ".join(toks[1:k]) in SIZE_CASTS and k + 1 < len(toks):
                return self.size_factors(toks[k + 1:], st)
        # product at the top level
        depth, parts, cur = 0, [], []
        for t in toks:
            if t in "([":
                depth += 1
            elif t in ")]":
                depth -= 1
            if t == "*" and depth == 0 and cur and cur[-1] not in ("(", "sizeof"):
                parts.append(cur)
                cur = []
            else:
                cur.append(t)
        parts.append(cur)
        if len(parts) > 1:
            out = []
            for p in parts:
                out += self.size_factors(p, st)
            return out
        if len(toks) == 1 and re.fullmatch(NUM, toks[0]):
            return [(0, "", num(toks[0]))]
        if toks[:2] == ["sizeof", "("] and toks[-1] == ")" and strip_parens(toks[1:]) != toks[1:]:
            arg = strip_parens(toks[1:])
            cT, cp, _ = self.ctx
            if arg and arg[0] == "*" and len(arg) == 2 and arg[1] in self.vars and self.vars[arg[1]][0] == "ptr":
                return self.sizeof_type(self.vars[arg[1]][1], st)           # sizeof(*p): the pointee type
            if len(arg) == 1 and arg[0] in self.vars:
                k = self.vars[arg[0]]
                if k[0] == "ptr":
                    return [(2, "", 0)]                                      # sizeof(p): a pointer's size
                if k[0] == "arr":
                    return self.sizeof_type(k[1], st) + [(0, "", k[2])]     # sizeof(local array)
                return self.sizeof_type(k[1], st)
            if len(arg) == 3 and arg[0] == cp and arg[1] == "->":           # sizeof(ctx->f)
                for t, f, n in self.structs[cT]:
                    if f == arg[2]:
                        return self.sizeof_type(t, st) + ([(0, "", n)] if n != 1 else [])
            if arg and all(re.fullmatch(ID, t) for t in arg) and not (set(arg) & set(self.vars)):
                return self.sizeof_type(" ".join(t for t in arg if t not in QUALS), st)
        raise self.bad("size expression not read (%s)" % "".join(toks), st)

    def read(self):
        out = []
        sts = statements(self.body)
        for idx, st in enumerate(sts):
            call = pure_call(st)
            if call:
                callee, args = call
                if callee == "insecure_memzero":
                    if len(args) != 2:
                        raise self.bad("insecure_memzero without two arguments", st)
                    obj = self.denotes(args[0], st)
                    size = self.size_factors(args[1], st) if obj[0] != 2 else []
                    out.append((2, callee, [obj], size, st))
                else:
                    out.append((0, callee, [self.denotes(a, st) for a in args], [], st))
                continue
            # declaration, possibly with an initialiser
            lhs, eq, rhs = st.partition("=")
            d = self.declarator(lhs) if (not eq or not rhs.startswith("=")) else None
            if d is not None:
                ident, kind = d
                if ident in self.vars:
                    raise self.bad("redeclaration", st)
                self.vars[ident] = kind
                if eq:
                    if kind[0] == "arr":
                        if not re.fullmatch(r"\{[\s0,]*\}", rhs.strip()):
                            raise self.bad("array initialiser not read", st)
                    else:
                        if self.assigned_elsewhere(ident, st):
                            raise self.bad("temporary assigned more than once", st)
                        rt = ctokens(rhs)
                        if any(t in ("++", "--", "=") for t in rt) or re.search(r"\b%s\s*\(" % ID, rhs.replace("sizeof", "")):
                            raise self.bad("initialiser with side effects or a call", st)
                        self.temps[ident] = rt
                continue
            # a guarded wipe: if (..) insecure_memzero(..); - it may or may not run
            m = re.match(r"^if\s*\(", st)
            if m:
                i, depth = m.end(), 1
                while i < len(st) and depth:
                    depth += {"(": 1, ")": -1}.get(st[i], 0)
                    i += 1
                rest = st[i:].strip()
                if rest.startswith("{") and rest.endswith("}"):
                    rest = rest[1:-1]
                inner = [x.strip() for x in statements(rest + (";" if not rest.rstrip().endswith((";", "}")) else ""))]
                if inner and all((pure_call(x) or ("", []))[0] == "insecure_memzero" for x in inner):
                    out.append((1, "", [], [], st))
                    continue
            if st == "return" and idx == len(sts) - 1:
                continue
            raise self.bad("statement not read", st)
        return out


def final_functions(src, structs, what):
    """Every function defined in `src` whose name contains _Final."""
    code = strip_comments(src)
    names = []
    for n in re.findall(r"\b(%s)\s*\(" % ID, code):
        if "_Final" in n and n not in names:
            names.append(n)
    fns = []
    i = 0
    while i < len(names):       # a work list: helpers of this file that are handed a context are read too
        n = names[i]
        i += 1
        try:
            params, body = func_def(src, n)
        except NotFound:
            continue
        # only functions that take one of the hash contexts
        if not any(re.search(r"\b%s\b" % re.escape(sn), params) for sn, _ in structs):
            continue
        if "_Final" in n:
            rd = FinalReader(n, params, body, structs)
            stmts = rd.read()
        else:
            # a helper: read it if it can be read; one that cannot be read stays an unknown callee (the
            # interpreter then forgets what it knew about the arguments - sound) unless it takes part
            # in the wiping, in which case nothing true can be emitted without reading it
            try:
                rd = FinalReader(n, params, body, structs)
                stmts = rd.read()
            except NotFound:
                if "insecure_memzero" in strip_comments(body):
                    raise
                continue
        fns.append((n, rd.ctx, stmts))
        # a function of this file that a *_Final* function calls with the context (say a static
        # SHA256_Clear(ctx) wrapping the wipe) is part of what Final does: it is read like Final itself
        # (or, if it cannot be read, the module refuses) - the interpreter can only descend into
        # functions it is given, an unknown callee makes it forget what it knew
        for stt in stmts:
            if stt[0] == 0 and stt[1] not in names and any(a[0] in (0, 1) for a in stt[2]):
                try:
                    func_def(src, stt[1])
                except NotFound:
                    continue
                names.append(stt[1])
    if not fns:
        raise NotFound(what + ": no *_Final* function definitions")
    return fns


def coq_s(t):
    if '"' in t or "\\" in t or any(ord(ch) < 32 or ord(ch) > 126 for ch in t):
        raise NotFound("text not representable as a Coq string: " + t)
    return '"%s"' % t


def coq_comment(t):
    t = " ".join(t.split()).replace("(*", "( *").replace("*)", "* )")
    return "" if '"' in t else " (* %s *)" % t


def coq_wipe_data(structs, fns):
    out = "\n(* C20: struct layouts and the statements of the *_Final* functions, in order.\n"
    out += "   statement = (kind, callee, arguments, size): kind 0 a call, 1 a guarded wipe (may not run),\n"
    out += "   2 insecure_memzero(object, size); argument / object = (0, _) the context object, (1, f) its field f,\n"
    out += "   (2, _) no part of it; size = product of factors (0, _, n) literal n, (1, T, _) sizeof(T), (2, _, _) sizeof(pointer) *)\n"
    out += "Local Open Scope string_scope.\n"
    rows = []
    for name, fields in structs:
        fl = "; ".join("(%s, %s, %d%%N)" % (coq_s(t), coq_s(f), n) for t, f, n in fields)
        rows.append("(%s, [%s])" % (coq_s(name), fl))
    out += "Definition hash_structs : list (string * list (string * string * N)) :=\n  [%s].\n" % ";\n   ".join(rows)
    rows = []
    for name, (ct, cp, ci), calls in fns:
        items = []
        for j, (k, f, args, size, text) in enumerate(calls):
            al = "; ".join("(%d%%N, %s)" % (a, coq_s(fl)) for a, fl in args)
            sl = "; ".join("(%d%%N, %s, %d%%N)" % (a, coq_s(t), n) for a, t, n in size)
            items.append("(%d%%N, %s, [%s], [%s])%s%s" % (k, coq_s(f), al, sl, ";" if j < len(calls) - 1 else "", coq_comment(text)))
        rows.append("(%s, (%s, %s, %d%%N),\n     [%s])" % (coq_s(name), coq_s(ct), coq_s(cp), ci, "\n      ".join(items)))
    out += ("Definition hash_final_fns : list (string * (string * string * N) *\n"
            "    list (N * string * list (N * string) * list (N * string * N))) :=\n  [%s].\n" % ";\n   ".join(rows))
    return out


def extract(repo):
    out = HEADER.replace("NArith List", "NArith List String")

    # ---------------- alg/sha256.c ----------------
    s = read(repo, "alg/sha256.c")
    out += "(* alg/sha256.c *)\n"
    k = array_init(s, "Krnd")
    iv = array_init(s, "initial_state")
    pad = array_init(s, "PAD")
    out += coq_def_list("sha256_Krnd", k)
    out += coq_def_list("sha256_initial_state", iv)
    out += coq_def_list("sha256_PAD", pad)
    pb = func_body(s, "SHA256_Pad")
    lim = one(r"if\s*\(\s*%s\s*<\s*%s\s*\)" % (ID, NUM), pb, "SHA256_Pad: if (r < 56)", 1, 1)
    cp = one(r"memcpy\s*\([^;]*?,\s*%s\s*-\s*%s\s*\)" % (NUM, ID), pb, "SHA256_Pad: memcpy(.., PAD, N - r)", 1, 2)
    ms = one(r"memset\s*\([^;]*?,\s*0\s*,\s*%s\s*\)" % NUM, pb, "SHA256_Pad: memset(buf, 0, 56)", 1, 1)
    en = one(r"be64enc\s*\(\s*&\s*%s\s*->\s*buf\s*\[\s*%s\s*\]" % (ID, NUM), pb, "SHA256_Pad: be64enc(&buf[56], ..)", 1, 1)
    padlim = same(lim + [cp[0]] + ms + en, "SHA256_Pad: 56")
    rr = re.search(r"=\s*\(\s*%s\s*->\s*count\s*>>\s*%s\s*\)\s*&\s*%s\s*;" % (ID, NUM, NUM), pb)
    if not rr:
        raise NotFound("SHA256_Pad: r = (count >> 3) & 0x3f")
    ub = func_body(s, "SHA256_Update_internal")
    ru = re.search(r"=\s*\(\s*%s\s*->\s*count\s*>>\s*%s\s*\)\s*&\s*%s\s*;" % (ID, NUM, NUM), ub)
    if not ru:
        raise NotFound("SHA256_Update_internal: r = (count >> 3) & 0x3f")
    sh = one(r"\)\s*<<\s*%s\s*;" % NUM, ub, "SHA256_Update_internal: (uint64_t)(len) << 3", 1, 1)
    blk = same([str(update_limits(ub, "SHA256_Update_internal")), cp[1]], "sha256 block length")
    out += coq_def_N("sha256_padlim", padlim)
    out += coq_def_N("sha256_blk", blk)
    out += coq_def_N("sha256_cshift", same([rr.group(1), ru.group(1)] + sh, "sha256 count shift"))
    out += coq_def_N("sha256_rmask", same([rr.group(2), ru.group(2)], "sha256 residue mask"))
    hblk, hkl, ipad, opad = hmac_consts(func_body(s, "HMAC_SHA256_Init_internal"), "HMAC_SHA256_Init_internal")
    out += coq_def_N("hmac_sha256_blk", hblk)
    out += coq_def_N("hmac_sha256_klen", hkl)
    out += coq_def_N("hmac_sha256_ipad", ipad)
    out += coq_def_N("hmac_sha256_opad", opad)
    fb = func_body(s, "HMAC_SHA256_Final_internal")
    out += coq_def_N("hmac_sha256_ihash_len",
                     num(one(r"Update_internal\s*\([^;]*?,\s*%s\s*,\s*%s\s*,\s*%s\s*\)" % (ID, NUM, ID), fb,
                             "HMAC_SHA256_Final_internal: Update(octx, ihash, 32)", 1, 1)[0]))
    kb = func_body(s, "PBKDF2_SHA256")
    hl = one(r"%s\s*\*\s*%s\s*<\s*%s" % (ID, NUM, ID), kb, "PBKDF2_SHA256: i * 32 < dkLen", 1, 1)
    cl = one(r"if\s*\(\s*%s\s*>\s*%s\s*\)\s*%s\s*=\s*%s\s*;" % (ID, NUM, ID, NUM), kb, "PBKDF2_SHA256: clen > 32", 1, 1)
    cl2 = one(r"if\s*\(\s*%s\s*>\s*%s\s*\)\s*%s\s*=\s*%s\s*;" % (ID, NUM, ID, NUM), kb, "PBKDF2_SHA256: clen = 32", 2, 1)
    j0 = one(r"for\s*\(\s*%s\s*=\s*%s\s*;\s*%s\s*<=\s*%s\s*;" % (ID, NUM, ID, ID), kb, "PBKDF2_SHA256: for (j = 2; j <= c", 1, 1)
    am = re.search(r"assert\s*\(\s*%s\s*<=\s*%s\s*\*\s*\(\s*size_t\s*\)\s*\(\s*UINT32_MAX\s*\)\s*\)" % (ID, NUM), kb)
    if not am:
        raise NotFound("PBKDF2_SHA256: assert(dkLen <= 32 * UINT32_MAX)")
    out += coq_def_N("pbkdf2_hlen", same(hl + cl + cl2 + [am.group(1)], "PBKDF2 block length"))
    out += coq_def_N("pbkdf2_jstart", num(j0[0]))
    out += coq_def_N("pbkdf2_ivec_len",
                     num(one(r"Update_internal\s*\(\s*&\s*%s\s*,\s*%s\s*,\s*%s\s*,\s*%s\s*\)\s*;\s*HMAC_SHA256_Final_internal\s*\(\s*%s\s*,[^;]*;\s*memcpy" % (ID, ID, NUM, ID, ID),
                             kb, "PBKDF2_SHA256: Update(hctx, ivec, 4)", 1, 1)[0]))

    # ---------------- alg/sha1.c ----------------
    s = read(repo, "alg/sha1.c")
    out += "\n(* alg/sha1.c *)\n"
    out += coq_def_list("sha1_iv", init_words(func_body(s, "SHA1_Init"), "SHA1_Init state words"))
    out += coq_def_list("sha1_PAD", array_init(s, "PAD"))
    # what each RNDk macro means: (boolean function code, round constant, rotl of a, rotl of b)
    kinds = []
    for kd in range(4):
        mb = macro_body(s, "RND%d" % kd)
        if re.search(r"\bCh\s*\(", mb):
            fc = 0
        elif re.search(r"\bMaj\s*\(", mb):
            fc = 2
        elif re.search(r"\(\s*%s\s*\^\s*%s\s*\^\s*%s\s*\)" % (ID, ID, ID), mb):
            fc = 1
        else:
            raise NotFound("RND%d: boolean function" % kd)
        kc = one(r"\+\s*(0[xX][0-9a-fA-F]+)\s*;", mb, "RND%d: round constant" % kd, 1, 1)
        rots = one(r"ROTL\s*\(\s*%s\s*,\s*(\d+)\s*\)" % ID, mb, "RND%d: two ROTL" % kd, 1, 2)
        kinds.append((fc, num(kc[0]), int(rots[0]), int(rots[1])))
    out += coq_tuples("sha1_kinds", "N * N * N * N", kinds)
    tb = func_body(s, "SHA1_Transform")
    inv = re.findall(r"\bRND([0-3])r\s*\(\s*%s\s*,\s*%s\s*,\s*(\d+)\s*\)\s*;" % (ID, ID), tb)
    if not inv:
        raise NotFound("SHA1_Transform: RNDkr invocations")
    out += coq_tuples("sha1_rounds", "N * N", [(int(a), int(b)) for a, b in inv])
    sm = re.search(r"=\s*%s\s*\[\s*%s\s*-\s*(\d+)\s*\]\s*\^\s*%s\s*\[\s*%s\s*-\s*(\d+)\s*\]\s*\^\s*%s\s*\[\s*%s\s*-\s*(\d+)\s*\]\s*\^\s*%s\s*\[\s*%s\s*-\s*(\d+)\s*\]\s*;" % ((ID,) * 8), tb)
    if not sm:
        raise NotFound("SHA1_Transform: schedule recurrence")
    out += coq_def_list("sha1_sched_offsets", [int(x) for x in sm.groups()])
    out += coq_def_N("sha1_sched_rot", int(one(r"=\s*ROTL\s*\(\s*%s\s*\[\s*%s\s*\]\s*,\s*(\d+)\s*\)" % (ID, ID), tb, "SHA1_Transform: ROTL(W[i], 1)", 1, 1)[0]))
    fl = re.search(r"for\s*\(\s*%s\s*=\s*(\d+)\s*;\s*%s\s*<\s*(\d+)\s*;" % (ID, ID), tb)
    if not fl:
        raise NotFound("SHA1_Transform: for (i = 16; i < 80")
    out += coq_def_N("sha1_sched_from", int(fl.group(1)))
    out += coq_def_N("sha1_sched_to", int(fl.group(2)))
    pb = func_body(s, "SHA1_Pad")
    lim, lim2 = pad_by_updates(pb, "SHA1_Pad")
    wp, shp, mkp = count_word(pb, "SHA1_Pad")
    ub = func_body(s, "SHA1_Update")
    wu, shu, mku = count_word(ub, "SHA1_Update")
    if wp != wu:
        raise NotFound("sha1: Pad and Update use different count words")
    out += coq_def_N("sha1_padlim", lim)
    out += coq_def_N("sha1_padlim2", lim2)
    out += coq_def_N("sha1_lo_word", wu)
    out += coq_def_N("sha1_cshift", same([str(shp), str(shu)] + one(r"\)\s*<<\s*%s\s*;" % NUM, ub, "SHA1_Update: << 3", 1, 1), "sha1 count shift"))
    out += coq_def_N("sha1_hishift", num(one(r">>\s*%s\s*\)\s*;" % NUM, ub, "SHA1_Update: len >> 29", 1, 1)[0]))
    out += coq_def_N("sha1_rmask", same([str(mkp), str(mku)], "sha1 residue mask"))
    out += coq_def_N("sha1_blk", update_limits(ub, "SHA1_Update"))
    hblk, hkl, ipad, opad = hmac_consts(func_body(s, "HMAC_SHA1_Init"), "HMAC_SHA1_Init")
    out += coq_def_N("hmac_sha1_blk", hblk)
    out += coq_def_N("hmac_sha1_klen", hkl)
    out += coq_def_N("hmac_sha1_ipad", ipad)
    out += coq_def_N("hmac_sha1_opad", opad)
    out += coq_def_N("hmac_sha1_ihash_len",
                     num(one(r"SHA1_Update\s*\(\s*&\s*%s\s*->\s*octx\s*,\s*%s\s*,\s*%s\s*\)" % (ID, ID, NUM),
                             func_body(s, "HMAC_SHA1_Final"), "HMAC_SHA1_Final: Update(octx, ihash, 20)", 1, 1)[0]))

    # ---------------- alg/md5.c ----------------
    s = read(repo, "alg/md5.c")
    out += "\n(* alg/md5.c *)\n"
    out += coq_def_list("md5_iv", init_words(func_body(s, "MD5_Init"), "MD5_Init state words"))
    out += coq_def_list("md5_PAD", array_init(s, "PAD"))
    idx = []
    for kd in ("FF", "GG", "HH", "II"):
        mb = macro_body(s, kd + "r")
        m = re.search(r"\[\s*\(\s*%s\s*\*\s*(\d+)\s*\+\s*(\d+)\s*\)\s*%%\s*(\d+)\s*\]" % ID, mb)
        if not m:
            raise NotFound(kd + "r: message index formula")
        idx.append((int(m.group(1)), int(m.group(2)), int(m.group(3))))
    out += coq_tuples("md5_index_formulas", "N * N * N", idx)
    tb = func_body(s, "MD5_Transform")
    inv = re.findall(r"\b(FF|GG|HH|II)r\s*\(\s*%s\s*,\s*%s\s*,\s*(\d+)\s*,\s*(\d+)\s*,\s*(0[xX][0-9a-fA-F]+)\s*\)\s*;" % (ID, ID), tb)
    if not inv:
        raise NotFound("MD5_Transform: XXr invocations")
    kn = {"FF": 0, "GG": 1, "HH": 2, "II": 3}
    out += coq_tuples("md5_ops", "N * N * N * N", [(kn[a], int(b), int(c), num(d)) for a, b, c, d in inv])
    pb = func_body(s, "MD5_Pad")
    lim, lim2 = pad_by_updates(pb, "MD5_Pad")
    wp, shp, mkp = count_word(pb, "MD5_Pad")
    ub = func_body(s, "MD5_Update")
    wu, shu, mku = count_word(ub, "MD5_Update")
    if wp != wu:
        raise NotFound("md5: Pad and Update use different count words")
    out += coq_def_N("md5_padlim", lim)
    out += coq_def_N("md5_padlim2", lim2)
    out += coq_def_N("md5_lo_word", wu)
    out += coq_def_N("md5_cshift", same([str(shp), str(shu)] + one(r"\)\s*<<\s*%s\s*;" % NUM, ub, "MD5_Update: << 3", 1, 1), "md5 count shift"))
    out += coq_def_N("md5_hishift", num(one(r">>\s*%s\s*\)\s*;" % NUM, ub, "MD5_Update: len >> 29", 1, 1)[0]))
    out += coq_def_N("md5_rmask", same([str(mkp), str(mku)], "md5 residue mask"))
    out += coq_def_N("md5_blk", update_limits(ub, "MD5_Update"))
    hblk, hkl, ipad, opad = hmac_consts(func_body(s, "HMAC_MD5_Init"), "HMAC_MD5_Init")
    out += coq_def_N("hmac_md5_blk", hblk)
    out += coq_def_N("hmac_md5_klen", hkl)
    out += coq_def_N("hmac_md5_ipad", ipad)
    out += coq_def_N("hmac_md5_opad", opad)
    out += coq_def_N("hmac_md5_ihash_len",
                     num(one(r"MD5_Update\s*\(\s*&\s*%s\s*->\s*octx\s*,\s*%s\s*,\s*%s\s*\)" % (ID, ID, NUM),
                             func_body(s, "HMAC_MD5_Final"), "HMAC_MD5_Final: Update(octx, ihash, 16)", 1, 1)[0]))

    # ---------------- C20: layouts and Final functions ----------------
    structs, fns = [], []
    for stem, names in (("sha256", ("SHA256_CTX", "HMAC_SHA256_CTX")), ("sha1", ("SHA1_CTX", "HMAC_SHA1_CTX")),
                        ("md5", ("MD5_CTX", "HMAC_MD5_CTX"))):
        hdr = read(repo, "alg/%s.h" % stem)
        for nm in names:
            structs.append((nm, struct_fields(hdr, nm)))
    snames = [nm for nm, _ in structs]
    for stem in ("sha256", "sha1", "md5"):
        fns += final_functions(read(repo, "alg/%s.c" % stem), structs, "alg/%s.c" % stem)
    got = [n for n, _, _ in fns]
    for need in ("SHA256_Final", "HMAC_SHA256_Final", "SHA1_Final", "HMAC_SHA1_Final", "MD5_Final", "HMAC_MD5_Final"):
        if need not in got:
            raise NotFound("definition of " + need)
    out += coq_wipe_data(structs, fns)
    return {"Repo_hash.v": out}
