"""aws/aws_sign.c: every asprintf format string with its argument list, per function; the strftime
formats (with their buffer sizes), the value of time() that is treated as an error, the SHA256_Buf
calls (data, length expression, output); the literals of the key-derivation chain.  The Coq model
*interprets* these."""
import re
from common import *

FUNCS = ["aws_sign", "aws_sign_s3_headers", "aws_sign_s3_querystr", "aws_sign_svc_headers",
         "aws_sign_dynamodb_headers"]


def func_bodies(src):
    """name -> body text, for top-level function definitions 'name(...)\n{ ... \n}'."""
    out = {}
    for m in re.finditer(r"^(\w+)\(([^;{]*?)\)\s*\n\{\n(.*?)^\}", src, flags=re.S | re.M):
        out[m.group(1)] = m.group(3)
    return out


def coq_bytes(bs):
    return "[" + "; ".join(str(b) for b in bs) + "]%N"


def coq_name(s):
    return coq_bytes(list(s.encode()))


def split_args(s):
    """split a C argument list at top-level commas"""
    args, depth, cur, instr = [], 0, "", False
    i = 0
    while i < len(s):
        c = s[i]
        if instr:
            cur += c
            if c == "\\":
                cur += s[i + 1]
                i += 1
            elif c == '"':
                instr = False
        elif c == '"':
            instr = True
            cur += c
        elif c in "([":
            depth += 1
            cur += c
        elif c in ")]":
            depth -= 1
            cur += c
        elif c == "," and depth == 0:
            args.append(cur.strip())
            cur = ""
        else:
            cur += c
        i += 1
    if cur.strip():
        args.append(cur.strip())
    return args


def arg_term(a):
    a = a.strip()
    if a.startswith('"'):
        return "ALit " + coq_bytes(concat_literals(a))
    if re.fullmatch(r"\w+", a):
        return "AVar " + coq_name(a)
    raise NotFound("unsupported asprintf argument: " + a)


def extract(repo):
    src = strip_comments(read(repo, "aws/aws_sign.c"))
    bodies = func_bodies(src)
    out = HEADER + "From Coq Require Import ZArith.\n\n"
    out += "Inductive farg : Type := AVar (name : list N) | ALit (bytes : list N).\n\n"
    for fn in FUNCS:
        if fn not in bodies:
            raise NotFound("function " + fn)
        body = bodies[fn]
        calls = []
        for m in re.finditer(r"asprintf\s*\(", body):
            # find matching paren
            i, depth = m.end(), 1
            instr = False
            while depth:
                c = body[i]
                if instr:
                    if c == "\\":
                        i += 1
                    elif c == '"':
                        instr = False
                elif c == '"':
                    instr = True
                elif c == "(":
                    depth += 1
                elif c == ")":
                    depth -= 1
                i += 1
            args = split_args(body[m.end():i - 1])
            dest = args[0].lstrip("&").strip()
            fmt = concat_literals(args[1])
            calls.append((dest, fmt, args[2:]))
        if not calls:
            raise NotFound("asprintf calls in " + fn)
        out += "(* %s: %d asprintf calls *)\n" % (fn, len(calls))
        out += "Definition fmts_%s : list (list N * list N * list farg) :=\n  [" % fn
        rows = []
        for dest, fmt, args in calls:
            rows.append("(%s,\n    %s,\n    [%s])" % (coq_name(dest), coq_bytes(fmt), "; ".join(arg_term(a) for a in args)))
        out += ";\n   ".join(rows) + "].\n\n"
        # the call to aws_sign(...) inside the variants
        if fn != "aws_sign":
            m = re.search(r"aws_sign\s*\(([^;]*?)\)\s*\)", body, flags=re.S)
            if not m:
                raise NotFound("call of aws_sign in " + fn)
            a = split_args(m.group(1))
            out += "Definition signargs_%s : list farg :=\n  [%s].\n\n" % (fn, "; ".join(arg_term(x) for x in a))
        # strftime formats
        sf = re.findall(r"strftime\s*\(\s*(\w+)\s*,\s*(\d+)\s*,\s*(%s)" % STR, body)
        # which broken-down-time function feeds each strftime (must be gmtime_r for UTC)
        tf = re.findall(r"strftime\s*\([^;]*?,\s*(\w+)\s*\(\s*&\s*t_now\s*,", body, flags=re.S)
        if fn != "aws_sign":
            if len(sf) != 2:
                raise NotFound("two strftime calls in " + fn)
            out += "Definition strftime_%s : list (list N * N * list N) :=\n  [%s].\n\n" % (
                fn, "; ".join("(%s, %s%%N, %s)" % (coq_name(d), n, coq_bytes(concat_literals(lit))) for d, n, lit, _ in sf))
            if len(tf) != 2:
                raise NotFound("broken-down-time function of the two strftime calls in " + fn)
            out += "Definition timefns_%s : list (list N) :=\n  [%s].\n\n" % (fn, "; ".join(coq_name(x) for x in tf))
            nt = len(re.findall(r"\btime\s*\(", body))
            out += "Definition time_calls_%s : N := %d%%N.\n\n" % (fn, nt)
            # the value of time() that makes the function fail: if (time(&t_now) == (time_t)(-1))
            te = re.findall(r"\btime\s*\(\s*&\s*t_now\s*\)\s*==\s*\(\s*time_t\s*\)\s*\(\s*(-?\d+)\s*\)", body)
            if len(te) != 1:
                raise NotFound("the time() error test in " + fn)
            out += "Definition time_err_%s : Z := (%s)%%Z.\n\n" % (fn, te[0])
        # SHA256_Buf(data, length-expression, out) calls
        sh = []
        for m in re.finditer(r"\bSHA256_Buf\s*\(([^;]*?)\)\s*;", body, flags=re.S):
            a = split_args(m.group(1))
            if len(a) != 3:
                raise NotFound("SHA256_Buf arity in " + fn)
            sh.append(a)
        if len(sh) != (0 if fn == "aws_sign_s3_querystr" else 1):
            raise NotFound("the SHA256_Buf call of " + fn)
        out += "(* SHA256_Buf calls of %s: (data, length-expression, out) *)\n" % fn
        out += "Definition sha_calls_%s : list (list N * list N * list N) :=\n  [%s].\n\n" % (
            fn, "; ".join("(%s, %s, %s)" % (coq_name(d), coq_name(re.sub(r"\s+", "", ln)), coq_name(o)) for d, ln, o in sh))
    # key-derivation chain in aws_sign: HMAC_SHA256_Buf(key, keylen, data, datalen, out)
    chain = []
    for m in re.finditer(r"HMAC_SHA256_Buf\s*\(([^;]*?)\)\s*;", bodies["aws_sign"], flags=re.S):
        a = split_args(m.group(1))
        if len(a) != 5:
            raise NotFound("HMAC_SHA256_Buf arity")
        chain.append(a)
    if len(chain) != 5:
        raise NotFound("five HMAC_SHA256_Buf calls in aws_sign")
    out += "(* HMAC chain of aws_sign: (key, keylen-expression, data, datalen-expression, out) *)\n"
    out += "Definition hmac_chain : list (farg * list N * farg * list N * list N) :=\n  ["
    rows = []
    for k, kl, d, dl, o in chain:
        rows.append("(%s, %s, %s, %s, %s)" % (arg_term(k), coq_name(re.sub(r"\s+", "", kl)), arg_term(d),
                                             coq_name(re.sub(r"\s+", "", dl)), coq_name(o)))
    out += ";\n   ".join(rows) + "].\n\n"
    # declared byte arrays of aws_sign (uint8_t kDate[32]; ...)
    arrs = re.findall(r"uint8_t\s+(\w+)\s*\[\s*(\d+)\s*\]\s*;", bodies["aws_sign"])
    if not arrs:
        raise NotFound("uint8_t array declarations in aws_sign")
    out += "Definition arrays_aws_sign : list (list N * N) :=\n  [%s].\n" % "; ".join(
        "(%s, %s%%N)" % (coq_name(n), k) for n, k in arrs)
    return {"Repo_aws.v": out}
