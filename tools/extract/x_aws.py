"""aws/aws_sign.c, read STATEMENT BY STATEMENT.  For the five functions the translator emits: every
asprintf format string with its argument list; the strftime formats with their buffer sizes and the
broken-down-time function that feeds them; the value of time() that is treated as an error; the
SHA256_Buf calls (data, length expression, output), the hexify calls (in, out, count), the strdup
calls that produce the returned strings; the actual-argument list of the aws_sign call; the HMAC chain
of aws_sign and its declared byte arrays.  The Coq model *interprets* these.

Rule: every top-level statement of each function must be of a form this module understands - then
its meaning is emitted (length expressions in a canonical spelling: value-preserving casts of integer
literals are dropped, `sizeof("lit") - 1` is `strlen("lit")`, `p != NULL` in a condition is `p`) -
or the module REFUSES (NotFound): it never emits a reading of something it did not parse.  Statements
without a meaning for the signing result are accepted and skipped: declarations of locals (with a
NULL / 0 initialiser or none), assert(...), free(...), warnp(...), goto, labels, return.  The order of
the remaining steps is compared with the order the hand-written part of the model assumes."""
import re
from common import *

FUNCS = ["aws_sign", "aws_sign_s3_headers", "aws_sign_s3_querystr", "aws_sign_svc_headers",
         "aws_sign_dynamodb_headers"]

# the order of the meaningful steps the model's hand-written skeleton assumes
STEPS = {
    "aws_sign": ["asprintf", "hmac", "hmac", "hmac", "hmac", "sha", "hexify", "asprintf", "hmac", "hexify"],
    "aws_sign_s3_headers": ["time", "strftime", "strftime", "sha", "hexify", "asprintf", "sign", "asprintf", "strdup", "strdup"],
    "aws_sign_svc_headers": ["time", "strftime", "strftime", "sha", "hexify", "asprintf", "sign", "asprintf", "strdup", "strdup"],
    "aws_sign_dynamodb_headers": ["time", "strftime", "strftime", "sha", "hexify", "asprintf", "sign", "asprintf", "strdup", "strdup"],
    "aws_sign_s3_querystr": ["time", "strftime", "strftime", "asprintf", "sign", "asprintf"],
}
# parameter names the model's initial environments are written with
PARAMS = {
    "aws_sign": ["key_secret", "date", "datetime", "region", "service", "creq", "sigbuf"],
    "aws_sign_s3_headers": ["key_id", "key_secret", "region", "method", "bucket", "path", "body", "bodylen",
                            "x_amz_content_sha256", "x_amz_date", "authorization"],
    "aws_sign_s3_querystr": ["key_id", "key_secret", "region", "method", "bucket", "path", "expiry"],
    "aws_sign_svc_headers": ["key_id", "key_secret", "region", "svc", "body", "bodylen",
                             "x_amz_content_sha256", "x_amz_date", "authorization"],
    "aws_sign_dynamodb_headers": ["key_id", "key_secret", "region", "op", "body", "bodylen",
                                  "x_amz_content_sha256", "x_amz_date", "authorization"],
}
DECL_TYPES = r"(?:const\s+)?(?:struct\s+tm|time_t|char|uint8_t|size_t|int)"


def func_defs(src):
    """name -> (parameter text, body text), for top-level definitions 'name(...)\n{ ... \n}'."""
    out = {}
    for m in re.finditer(r"^(\w+)\(([^;{]*?)\)\s*\n\{\n(.*?)^\}", src, flags=re.S | re.M):
        out[m.group(1)] = (m.group(2), m.group(3))
    return out


def coq_bytes(bs):
    return "[" + "; ".join(str(b) for b in bs) + "]%N"


def coq_name(s):
    return coq_bytes(list(s.encode()))


def scan(s, on_char):
    """walk s outside string/char literals; on_char(i, c, depth) with depth = () [] nesting"""
    depth, i, n = 0, 0, len(s)
    while i < n:
        c = s[i]
        if c == '"' or c == "'":
            j = i + 1
            while s[j] != c:
                j += 2 if s[j] == "\\" else 1
            i = j + 1
            continue
        if c in "([":
            depth += 1
        elif c in ")]":
            depth -= 1
        r = on_char(i, c, depth)
        if r is not None:
            return r
        i += 1
    return None


def split_top(s, sep):
    """split at top-level occurrences of the single character sep"""
    cuts = []
    scan(s, lambda i, c, d: cuts.append(i) if (c == sep and d == 0) else None)
    out, prev = [], 0
    for i in cuts:
        out.append(s[prev:i].strip())
        prev = i + 1
    last = s[prev:].strip()
    if last or cuts:
        out.append(last)
    return out


def split_args(s):
    return [a for a in split_top(s, ",")] if s.strip() else []


def statements(body):
    """top-level statements of a function body: text up to ';' (outside parentheses and braces),
    a whole `if (...) { ... }`, or a label `name:`"""
    out, cur, pd, bd, i, n = [], "", 0, 0, 0, len(body)
    while i < n:
        c = body[i]
        if c == '"' or c == "'":
            j = i + 1
            while body[j] != c:
                j += 2 if body[j] == "\\" else 1
            cur += body[i:j + 1]
            i = j + 1
            continue
        cur += c
        if c in "([":
            pd += 1
        elif c in ")]":
            pd -= 1
        elif c == "{":
            bd += 1
        elif c == "}":
            bd -= 1
            if bd == 0 and pd == 0:
                out.append(cur.strip())
                cur = ""
        elif c == ";" and pd == 0 and bd == 0:
            out.append(cur.strip()[:-1].strip())
            cur = ""
        elif c == ":" and pd == 0 and bd == 0 and re.fullmatch(r"\s*\w+:", cur) and "?" not in cur:
            out.append(cur.strip())
            cur = ""
        i += 1
    if cur.strip():
        raise NotFound("unterminated statement: " + cur.strip()[:60])
    return [s for s in out if s]


def strip_parens(e):
    e = e.strip()
    while e.startswith("(") and e.endswith(")"):
        # the opening parenthesis must match the final one
        close = scan(e, lambda i, c, d: i if (c == ")" and d == 0) else None)
        if close != len(e) - 1:
            break
        e = e[1:-1].strip()
    return e


def call_of(e, fname):
    """e is exactly `fname(args)` -> args list, else None"""
    e = e.strip()
    m = re.match(r"%s\s*\(" % re.escape(fname), e)
    if not m:
        return None
    close = scan(e[m.end() - 1:], lambda i, c, d: i if (c == ")" and d == 0) else None)
    if close is None or m.end() - 1 + close != len(e) - 1:
        return None
    return split_args(e[m.end():-1])


def int_value(e):
    """integer literal, possibly under a value-preserving cast to size_t / unsigned types"""
    e = strip_parens(e)
    m = re.fullmatch(r"\(\s*(?:size_t|unsigned(?:\s+(?:int|long))?|unsigned\s+long\s+long|uint64_t|uint32_t)\s*\)\s*(.+)", e)
    if m:
        v = int_value(m.group(1))
        return v
    m = re.fullmatch(r"(0[xX][0-9a-fA-F]+|\d+)(?:[uU]?[lL]{0,2}|[lL]{1,2}[uU])", e)
    if not m:
        return None
    v = int(m.group(1), 0) if not re.fullmatch(r"0\d+", m.group(1)) else int(m.group(1), 8)
    return v


def lit_text(e):
    """a (possibly concatenated) string literal and nothing else -> its bytes"""
    e = e.strip()
    if not re.fullmatch(r"(?:\s*%s\s*)+" % STR, e, flags=re.S):
        return None
    return concat_literals(e)


def norm_cond(c):
    """a pointer used as a truth value -> (name, positive?)"""
    c = strip_parens(c)
    if re.fullmatch(r"\w+", c):
        return c, True
    m = re.fullmatch(r"(\w+)\s*(!=|==)\s*(?:NULL|0)", c) or None
    if m:
        return m.group(1), m.group(2) == "!="
    m = re.fullmatch(r"(?:NULL|0)\s*(!=|==)\s*(\w+)", c)
    if m:
        return m.group(2), m.group(1) == "!="
    m = re.fullmatch(r"!\s*(\w+)", c)
    if m:
        return m.group(1), False
    raise NotFound("condition not understood: " + c[:60])


def norm_len(e, arrays):
    """canonical spelling of a length expression (see the module comment); refuses anything else"""
    e = strip_parens(e)
    v = int_value(e)
    if v is not None:
        return str(v)
    q = split_top(e, "?")
    if len(q) == 2:
        ab = split_top(q[1], ":")
        if len(ab) != 2:
            raise NotFound("conditional expression not understood: " + e[:60])
        name, pos = norm_cond(q[0])
        a, b_ = norm_len(ab[0], arrays), norm_len(ab[1], arrays)
        return "%s?%s:%s" % ((name, a, b_) if pos else (name, b_, a))
    if len(q) > 2:
        raise NotFound("nested conditional: " + e[:60])
    if re.fullmatch(r"\w+", e):
        return e
    a = call_of(e, "strlen")
    if a is not None and len(a) == 1:
        if re.fullmatch(r"\w+", a[0]):
            return "strlen(%s)" % a[0]
        lit = lit_text(a[0])
        if lit is not None and 0 not in lit and all(32 <= x < 127 and x not in (34, 92) for x in lit):
            return 'strlen("%s")' % bytes(lit).decode()
    m = re.fullmatch(r"sizeof\s*\((.*)\)\s*-\s*1", e, flags=re.S)
    if m:
        lit = lit_text(m.group(1))
        if lit is not None and 0 not in lit and all(32 <= x < 127 and x not in (34, 92) for x in lit):
            return 'strlen("%s")' % bytes(lit).decode()
    m = re.fullmatch(r"sizeof\s*\(\s*(\w+)\s*\)", e)
    if m and m.group(1) in arrays:
        return str(arrays[m.group(1)])
    raise NotFound("length expression not understood: " + e[:60])


def arg_term(a):
    a = a.strip()
    lit = lit_text(a)
    if lit is not None:
        return "ALit " + coq_bytes(lit)
    if re.fullmatch(r"\w+", a):
        return "AVar " + coq_name(a)
    raise NotFound("unsupported argument: " + a[:60])


def if_parts(st):
    """`if (cond) body` -> (cond, body); body must only warn and jump to an error label"""
    m = re.match(r"if\s*\(", st)
    close = scan(st[m.end() - 1:], lambda i, c, d: i if (c == ")" and d == 0) else None)
    cond = st[m.end():m.end() - 1 + close]
    body = st[m.end() + close:].strip()
    if body.startswith("{") and body.endswith("}"):
        inner = [x for x in split_top(body[1:-1], ";") if x]
    else:
        inner = [x for x in split_top(body, ";") if x]
    if not inner or not re.fullmatch(r"goto\s+\w+", inner[-1]):
        raise NotFound("if-body does not end in a goto: " + body[:60])
    for x in inner[:-1]:
        if call_of(x, "warnp") is None and call_of(x, "warn0") is None:
            raise NotFound("if-body statement not understood: " + x[:60])
    return cond, inner[-1]


class Fn:
    def __init__(self, name):
        self.name = name
        self.steps = []
        self.asprintf, self.hmac, self.sha, self.hexify, self.strdup, self.strftime = [], [], [], [], [], []
        self.sign = None
        self.time_err = None
        self.arrays = {}      # declared arrays name -> size
        self.u8arrays = []    # uint8_t arrays in declaration order
        self.tmvars = {}      # local -> function that produced the broken-down time


def brokendown(fn, e):
    """the struct tm * argument of strftime -> name of the function applied to &t_now"""
    e = e.strip()
    if re.fullmatch(r"\w+", e):
        if e not in fn.tmvars:
            raise NotFound("strftime argument %s was not assigned from a conversion of t_now" % e)
        return fn.tmvars[e]
    m = re.fullmatch(r"(\w+)\s*\(\s*&\s*t_now\s*,\s*&\s*\w+\s*\)", e)
    if not m:
        raise NotFound("broken-down-time argument not understood: " + e[:60])
    return m.group(1)


def read_function(name, params, body):
    fn = Fn(name)
    pl = [re.sub(r"\[[^\]]*\]", "", p).strip() for p in split_args(params)]
    pn = [re.search(r"(\w+)$", p).group(1) for p in pl]
    if pn != PARAMS[name]:
        raise NotFound("parameter names of %s are %s" % (name, pn))
    returned = False
    for st in statements(body):
        flat = re.sub(r"\s+", " ", st)
        # declarations of locals
        m = re.fullmatch(r"(%s)\s*(\*?)\s*(\w+)\s*(?:\[\s*(\d+)\s*\])?\s*(?:=\s*(?:NULL|0|\(\s*\w+\s*\*\s*\)\s*0))?" % DECL_TYPES, flat)
        if m and not flat.startswith("return"):
            if m.group(4):
                fn.arrays[m.group(3)] = int(m.group(4))
                if m.group(1).endswith("uint8_t"):
                    fn.u8arrays.append((m.group(3), int(m.group(4))))
            continue
        if re.fullmatch(r"\w+:", flat):
            continue
        if re.fullmatch(r"return\s*\(?\s*(-?\d+|NULL|\w+)\s*\)?", flat):
            returned = True
            continue
        if call_of(flat, "free") is not None or call_of(flat, "assert") is not None:
            continue
        if returned:
            raise NotFound("statement on the error path of %s not understood: %s" % (name, flat[:60]))
        # tm_now = gmtime_r(&t_now, &r_result)
        m = re.fullmatch(r"(\w+)\s*=\s*(\w+)\s*\(\s*&\s*t_now\s*,\s*&\s*\w+\s*\)", flat)
        if m:
            if m.group(1) in fn.tmvars:
                raise NotFound("%s assigned twice" % m.group(1))
            fn.tmvars[m.group(1)] = m.group(2)
            continue
        a = call_of(flat, "HMAC_SHA256_Buf")
        if a is not None:
            if len(a) != 5:
                raise NotFound("HMAC_SHA256_Buf arity")
            if not re.fullmatch(r"\w+", a[4]):
                raise NotFound("HMAC_SHA256_Buf output")
            fn.hmac.append((arg_term(a[0]), norm_len(a[1], fn.arrays), arg_term(a[2]), norm_len(a[3], fn.arrays), a[4]))
            fn.steps.append("hmac")
            continue
        a = call_of(flat, "SHA256_Buf")
        if a is not None:
            if len(a) != 3 or not re.fullmatch(r"\w+", a[0]) or not re.fullmatch(r"\w+", a[2]):
                raise NotFound("SHA256_Buf arguments")
            fn.sha.append((a[0], norm_len(a[1], fn.arrays), a[2]))
            fn.steps.append("sha")
            continue
        a = call_of(flat, "hexify")
        if a is not None:
            n = int_value(norm_len(a[2], fn.arrays)) if len(a) == 3 else None
            if n is None or not re.fullmatch(r"\w+", a[0]) or not re.fullmatch(r"\w+", a[1]):
                raise NotFound("hexify arguments")
            fn.hexify.append((a[0], a[1], n))
            fn.steps.append("hexify")
            continue
        if flat.startswith("if"):
            cond, _ = if_parts(st)
            c = re.sub(r"\s+", " ", strip_parens(cond))
            # time(&t_now) == (time_t)(-1)
            m = re.fullmatch(r"time\s*\(\s*&\s*t_now\s*\)\s*==\s*\(\s*time_t\s*\)\s*\(?\s*(-?\d+)\s*\)?", c)
            if m:
                fn.time_err = int(m.group(1))
                fn.steps.append("time")
                continue
            # X == K  with X a call
            m2 = split_cmp(c)
            if m2:
                lhs, op, rhs = m2
                a = call_of(lhs, "strftime")
                if a is not None and op == "==" and int_value(rhs) == 0:
                    if len(a) != 4 or not re.fullmatch(r"\w+", a[0]):
                        raise NotFound("strftime arguments")
                    size = int_value(norm_len(a[1], fn.arrays))
                    lit = lit_text(a[2])
                    if size is None or lit is None:
                        raise NotFound("strftime size/format")
                    if fn.arrays.get(a[0]) != size:
                        raise NotFound("strftime size %d is not the declared size of %s" % (size, a[0]))
                    fn.strftime.append((a[0], size, lit, brokendown(fn, a[3])))
                    fn.steps.append("strftime")
                    continue
                a = call_of(lhs, "asprintf")
                if a is not None and op == "==" and strip_parens(rhs) == "-1":
                    add_asprintf(fn, a)
                    continue
                a = call_of(lhs, "aws_sign")
                if a is not None and op == "!=" and int_value(rhs) == 0:
                    add_sign(fn, a)
                    continue
                # (*x = strdup(y)) == NULL
                m = re.fullmatch(r"\*\s*(\w+)\s*=\s*strdup\s*\(\s*(\w+)\s*\)", strip_parens(lhs))
                if m and op == "==" and strip_parens(rhs) in ("NULL", "0"):
                    fn.strdup.append((m.group(1), m.group(2)))
                    fn.steps.append("strdup")
                    continue
            a = call_of(c, "aws_sign")
            if a is not None:
                add_sign(fn, a)
                continue
            raise NotFound("condition in %s not understood: %s" % (name, c[:70]))
        raise NotFound("statement in %s not understood: %s" % (name, flat[:70]))
    if fn.steps != STEPS[name]:
        raise NotFound("steps of %s are %s" % (name, fn.steps))
    return fn


def split_cmp(c):
    """`lhs == rhs` / `lhs != rhs` at top level -> (lhs, op, rhs)"""
    pos = []

    def f(i, ch, d):
        if d == 0 and c[i:i + 2] in ("==", "!="):
            pos.append(i)
    scan(c, f)
    if len(pos) != 1:
        return None
    i = pos[0]
    return c[:i].strip(), c[i:i + 2], c[i + 2:].strip()


def add_asprintf(fn, a):
    if len(a) < 2:
        raise NotFound("asprintf arity")
    dest = a[0].lstrip("&").strip()
    fmt = lit_text(a[1])
    if fmt is None or not re.fullmatch(r"\w+", dest):
        raise NotFound("asprintf destination/format")
    fn.asprintf.append((dest, fmt, [arg_term(x) for x in a[2:]]))
    fn.steps.append("asprintf")


def add_sign(fn, a):
    if fn.sign is not None or len(a) != 7:
        raise NotFound("call of aws_sign in " + fn.name)
    fn.sign = [arg_term(x) for x in a]
    fn.steps.append("sign")


def extract(repo):
    src = strip_comments(read(repo, "aws/aws_sign.c"))
    defs = func_defs(src)
    out = HEADER + "From Coq Require Import ZArith.\n\n"
    out += "Inductive farg : Type := AVar (name : list N) | ALit (bytes : list N).\n\n"
    fns = {}
    for name in FUNCS:
        if name not in defs:
            raise NotFound("function " + name)
        fns[name] = fn = read_function(name, *defs[name])
        body = defs[name][1]
        out += "(* %s: %d asprintf calls *)\n" % (name, len(fn.asprintf))
        out += "Definition fmts_%s : list (list N * list N * list farg) :=\n  [" % name
        out += ";\n   ".join("(%s,\n    %s,\n    [%s])" % (coq_name(d), coq_bytes(f), "; ".join(args))
                             for d, f, args in fn.asprintf) + "].\n\n"
        out += "(* SHA256_Buf calls of %s: (data, length-expression, out) *)\n" % name
        out += "Definition sha_calls_%s : list (list N * list N * list N) :=\n  [%s].\n\n" % (
            name, "; ".join("(%s, %s, %s)" % (coq_name(d), coq_name(ln), coq_name(o)) for d, ln, o in fn.sha))
        out += "(* hexify calls of %s: (in, out, number of bytes) *)\n" % name
        out += "Definition hexify_calls_%s : list (list N * list N * N) :=\n  [%s].\n\n" % (
            name, "; ".join("(%s, %s, %d%%N)" % (coq_name(i), coq_name(o), n) for i, o, n in fn.hexify))
        if name == "aws_sign":
            continue
        out += "Definition signargs_%s : list farg :=\n  [%s].\n\n" % (name, "; ".join(fn.sign))
        out += "Definition strftime_%s : list (list N * N * list N) :=\n  [%s].\n\n" % (
            name, "; ".join("(%s, %d%%N, %s)" % (coq_name(d), n, coq_bytes(lit)) for d, n, lit, _ in fn.strftime))
        out += "Definition timefns_%s : list (list N) :=\n  [%s].\n\n" % (
            name, "; ".join(coq_name(tf) for _, _, _, tf in fn.strftime))
        # one sample of the clock: t_now is written by time() only and read by the conversions only
        nt = len(re.findall(r"\btime\s*\(", body))
        uses = len(re.findall(r"\bt_now\b", body))
        convs = len(re.findall(r"\w+\s*\(\s*&\s*t_now\s*,", body))
        if uses != 1 + nt + convs or convs not in (1, 2):
            raise NotFound("uses of t_now in " + name)
        out += "Definition time_calls_%s : N := %d%%N.\n\n" % (name, nt)
        out += "Definition time_err_%s : Z := (%d)%%Z.\n\n" % (name, fn.time_err)
        out += "(* strdup calls of %s: (output parameter, source) *)\n" % name
        out += "Definition strdup_calls_%s : list (list N * list N) :=\n  [%s].\n\n" % (
            name, "; ".join("(%s, %s)" % (coq_name(d), coq_name(s)) for d, s in fn.strdup))
    fa = fns["aws_sign"]
    out += "(* HMAC chain of aws_sign: (key, keylen-expression, data, datalen-expression, out) *)\n"
    out += "Definition hmac_chain : list (farg * list N * farg * list N * list N) :=\n  ["
    out += ";\n   ".join("(%s, %s, %s, %s, %s)" % (k, coq_name(kl), d, coq_name(dl), coq_name(o))
                         for k, kl, d, dl, o in fa.hmac) + "].\n\n"
    if not fa.u8arrays:
        raise NotFound("uint8_t array declarations in aws_sign")
    out += "Definition arrays_aws_sign : list (list N * N) :=\n  [%s].\n" % "; ".join(
        "(%s, %d%%N)" % (coq_name(n), k) for n, k in fa.u8arrays)
    return {"Repo_aws.v": out}
