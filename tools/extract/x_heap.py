"""datastruct/ptrheap.c, timerqueue.c (+ the resize policy of elasticarray.c the heap sits on):
struct sizes seen by malloc on the LP64 target, the array policy constants, and the index
arithmetic of the implicit binary tree (parent / children), all taken from the C text."""
import re
from common import *


def _fields(src, name):
    m = re.search(r"struct\s+%s\s*\{(.*?)\n\}\s*;" % re.escape(name), strip_comments(src), flags=re.S)
    if not m:
        raise NotFound("struct " + name)
    return [d.strip() for d in m.group(1).split(";") if d.strip()]


def _size(fields, name):
    """LP64: pointers, size_t = 8 bytes; struct timeval = 16 bytes (two 8-byte members)."""
    total = 0
    for d in fields:
        d = re.sub(r"\s+", " ", d)
        if "(" in d or "*" in d:              # function pointer or pointer
            total += 8
        elif d.startswith("size_t "):
            total += 8
        elif d.startswith("struct timeval "):
            total += 16
        elif re.match(r"[A-Z]+ [a-z]+$", d):  # ELASTICARRAY_DECL'd handle type = pointer
            total += 8
        else:
            raise NotFound("field type in struct %s: %s" % (name, d))
    return total


def _one(src, pat, what):
    m = re.search(pat, src, flags=re.S)
    if not m:
        raise NotFound(what)
    return m


def extract(repo):
    ph = read(repo, "datastruct/ptrheap.c")
    tq = read(repo, "datastruct/timerqueue.c")
    ea = strip_comments(read(repo, "datastruct/elasticarray.c"))
    out = HEADER
    out += coq_def_N("ptrheap_struct_size", _size(_fields(ph, "ptrheap"), "ptrheap"))
    out += coq_def_N("timerqueue_struct_size", _size(_fields(tq, "timerqueue"), "timerqueue"))
    out += coq_def_N("timerrec_struct_size", _size(_fields(tq, "timerrec"), "timerrec"))
    out += coq_def_N("heap_ea_struct_size", _size(_fields(ea, "elasticarray"), "elasticarray"))
    _one(ph, r"ELASTICARRAY_DECL\(PTRLIST,\s*ptrlist,\s*void \*\)", "ptrlist declaration (record = void *)")
    out += coq_def_N("ptrlist_reclen", 8)
    # resize policy of the underlying array
    body = re.sub(r"\s+", " ", _one(ea, r"\nresize\s*\(struct elasticarray \* EA, size_t nsize\)\s*\{(.*?)\n\}",
                                   "resize() body").group(1))
    g = _one(body, r"if \(EA->alloc < nsize\) \{ nalloc = EA->alloc \* (\d+); if \(nalloc < nsize\) nalloc = nsize; \}",
             "grow branch of resize")
    d = _one(body, r"else if \(EA->alloc / (\d+) > nsize\) \{ nalloc = nsize \* (\d+); \} else \{ nalloc = EA->alloc; \}",
             "shrink branch of resize")
    out += coq_def_N("heap_ea_grow_mul", int(g.group(1)))
    out += coq_def_N("heap_ea_shrink_div", int(d.group(1)))
    out += coq_def_N("heap_ea_shrink_mul", int(d.group(2)))
    # implicit tree arithmetic: parent (i - a) / b, children c * i + 1, c * i + 2
    src = strip_comments(ph)
    par = set(re.findall(r"\((?:i|rc) - (\d+)\) / (\d+)", src))
    if len(par) != 1:
        raise NotFound("a single parent-index formula (x - a) / b in ptrheap.c, found %r" % sorted(par))
    (a, b), = par
    kids = sorted(set(re.findall(r"(\d+) \* i \+ (\d+)", src)))
    if [k[0] for k in kids] != [kids[0][0]] * len(kids) or len(kids) != 2:
        raise NotFound("two child-index formulas c * i + k in ptrheap.c, found %r" % kids)
    out += coq_def_N("heap_parent_sub", int(a))
    out += coq_def_N("heap_parent_div", int(b))
    out += coq_def_N("heap_child_mul", int(kids[0][0]))
    out += coq_def_N("heap_child_off1", int(kids[0][1]))
    out += coq_def_N("heap_child_off2", int(kids[1][1]))
    return {"Repo_heap.v": out}
