"""codec2 area: limits and literals of util/sock.c, util/sock_util.c, aws/aws_readkeys.c and
util/readpass_file.c, plus the platform's socket-address ABI (probed with the C compiler that
also builds the drivers; these numbers come from the system headers, not from the repository)."""
import os
import re
import subprocess
import tempfile

from common import *

PROBE = r"""
#include <sys/socket.h>
#include <sys/un.h>
#include <netinet/in.h>
#include <stddef.h>
#include <stdio.h>
int main(void)
{
	struct sockaddr_in a4; struct sockaddr_in6 a6; struct sockaddr_un au;
	unsigned int one = 1;
	printf("sizeof_int %zu\n", sizeof(int));
	printf("sizeof_socklen %zu\n", sizeof(socklen_t));
	printf("little_endian %d\n", (int)*(unsigned char *)&one);
	printf("af_inet %d\n", AF_INET);
	printf("af_inet6 %d\n", AF_INET6);
	printf("af_unix %d\n", AF_UNIX);
	printf("sock_stream %d\n", SOCK_STREAM);
	printf("sizeof_sockaddr_in %zu\n", sizeof(a4));
	printf("sizeof_sa_family %zu\n", sizeof(a4.sin_family));
	printf("off_sin_family %zu\n", offsetof(struct sockaddr_in, sin_family));
	printf("off_sin_port %zu\n", offsetof(struct sockaddr_in, sin_port));
	printf("off_sin_addr %zu\n", offsetof(struct sockaddr_in, sin_addr));
	printf("sizeof_sockaddr_in6 %zu\n", sizeof(a6));
	printf("off_sin6_family %zu\n", offsetof(struct sockaddr_in6, sin6_family));
	printf("off_sin6_port %zu\n", offsetof(struct sockaddr_in6, sin6_port));
	printf("off_sin6_addr %zu\n", offsetof(struct sockaddr_in6, sin6_addr));
	printf("sizeof_sockaddr_un %zu\n", sizeof(au));
	printf("off_sun_family %zu\n", offsetof(struct sockaddr_un, sun_family));
	printf("off_sun_path %zu\n", offsetof(struct sockaddr_un, sun_path));
	printf("sizeof_sun_path %zu\n", sizeof(au.sun_path));
	return 0;
}
"""


def platform_abi():
    with tempfile.TemporaryDirectory(prefix="verif-abi-") as d:
        src = os.path.join(d, "p.c")
        exe = os.path.join(d, "p")
        open(src, "w").write(PROBE)
        try:
            subprocess.run(["gcc", "-O0", "-D_POSIX_C_SOURCE=200809L", "-D_XOPEN_SOURCE=700", "-o", exe, src],
                           check=True, stdout=subprocess.PIPE, stderr=subprocess.PIPE, timeout=60)
            out = subprocess.run([exe], check=True, stdout=subprocess.PIPE, timeout=20).stdout.decode()
        except Exception as e:  # noqa: BLE001
            raise NotFound("platform ABI probe failed: %s" % e)
    vals = {}
    for line in out.splitlines():
        k, v = line.split()
        vals[k] = int(v)
    return vals


SIZE_CASTS = r"\(\s*(?:int|unsigned|unsigned\s+int|size_t|long|unsigned\s+long)\s*\)"


def eval_size(expr, env):
    """Evaluate a small C size expression (sizeof(x), names, + - *) with the given environment.
    Casts of the whole expression or of a sizeof to an integer type of at least 31 bits are
    value-preserving for the sizes accepted here (checked below) and are dropped."""
    e = strip_comments(expr).strip()
    e = re.sub(SIZE_CASTS + r"(?=\s*(?:sizeof\b|\(|[A-Za-z_0-9]))", " ", e)

    def look(key, what):
        if key not in env:
            raise NotFound("size expression not understood (%s): %s" % (what, expr))
        return str(env[key])
    e = re.sub(r"sizeof\s*\(\s*(\w+)\s*\)", lambda m: look("sizeof:" + m.group(1), "sizeof " + m.group(1)), e)
    e = re.sub(r"\b([A-Za-z_]\w*)\b", lambda m: look(m.group(1), "name " + m.group(1)), e)
    if not re.fullmatch(r"[0-9\s\+\-\*\(\)]+", e):
        raise NotFound("size expression not understood: " + expr)
    try:
        v = int(eval(e, {"__builtins__": {}}))
    except Exception:  # noqa: BLE001
        raise NotFound("size expression not understood: " + expr)
    if not 0 <= v < 2 ** 31:
        raise NotFound("size expression out of the range in which casts are value-preserving: " + expr)
    return v


def call_args(src, fn, nth=0):
    """Argument texts of the nth call of fn( ... ) in src (top-level commas)."""
    ms = list(re.finditer(r"\b%s\s*\(" % re.escape(fn), src))
    if len(ms) <= nth:
        raise NotFound("call of %s #%d" % (fn, nth))
    i = ms[nth].end()
    depth, cur, args, instr = 1, "", [], False
    while i < len(src) and depth > 0:
        c = src[i]
        if instr:
            cur += c
            if c == "\\":
                cur += src[i + 1]
                i += 1
            elif c == '"':
                instr = False
        elif c == '"':
            instr = True
            cur += c
        elif c in "([":
            depth += 1
            cur += c
        elif c in ")]":
            depth -= 1
            if depth > 0:
                cur += c
        elif c == "," and depth == 1:
            args.append(cur.strip())
            cur = ""
        else:
            cur += c
        i += 1
    args.append(cur.strip())
    return args


def local_array(src, name):
    m = re.search(r"\bchar\s+%s\s*\[([^\]]+)\]\s*;" % re.escape(name), src)
    if not m:
        raise NotFound("local array " + name)
    return m.group(1)


STORE_RHS = re.compile(r"(?:\(\s*x\s*>>\s*(\d+)\s*\)|x)\s*&\s*(0x[0-9a-fA-F]+|\d+)")


def parse_store(name, stmt):
    """p[i] = (x >> s) & m   or   p[i] = (uint8_t)((x >> s) & m)   ->  (i, s, m).
    The explicit conversion to uint8_t keeps the low 8 bits: it is folded into the mask (and is
    value-preserving when the mask is already within a byte)."""
    m = re.fullmatch(r"\s*p\[(\d+)\]\s*=\s*(.*?)\s*", stmt, flags=re.S)
    if not m:
        raise NotFound("sysendian.h: store statements of %s not understood" % name)
    idx, rhs, cast = int(m.group(1)), m.group(2), False
    c = re.fullmatch(r"\(\s*uint8_t\s*\)\s*\((.*)\)", rhs, flags=re.S)
    if c:
        rhs, cast = c.group(1).strip(), True
    r = STORE_RHS.fullmatch(rhs)
    if not r:
        raise NotFound("sysendian.h: store statements of %s not understood" % name)
    mask = int(r.group(2), 0)
    return idx, int(r.group(1) or "0"), (mask & 0xff) if cast else mask


def endian_tables(repo):
    """util/sysendian.h: the (index, shift, mask) of every store statement and the (index, shift)
    of every term of the load expressions, in CANONICAL order (ascending shift, then index).
    Canonicalising is sound because (a) the store statements of one routine write constants-indexed,
    pairwise DISTINCT bytes of the same object with values that depend on x only, so they commute,
    and (b) `|` is commutative and associative on side-effect-free operands.  If two stores target
    the same index, or a byte occurs in two OR-ed terms, the order could matter / the form is not the
    expected one: the module refuses (NotFound) and leaves the decision to the pinned tables plus
    the correspondence run."""
    src = strip_comments(read(repo, "util/sysendian.h"))
    out = "(* util/sysendian.h: enc = list of (index, shift, mask) per store statement; dec = list of\n"
    out += "   (index, shift) per OR-ed term, in canonical order (ascending shift; the stores go to\n"
    out += "   pairwise distinct indices and the terms read pairwise distinct bytes - checked by the\n"
    out += "   translator - so source order is immaterial); widths from the function names *)\n"
    seen = set()
    for m in re.finditer(r"^(be|le)(16|32|64)(enc|dec)\(([^)]*)\)\s*\n\{(.*?)^\}", src, flags=re.S | re.M):
        name = m.group(1) + m.group(2) + m.group(3)
        body = m.group(5)
        seen.add(name)
        if m.group(3) == "enc":
            stmts = [t for t in body.split(";") if re.search(r"\bp\s*\[", t)]
            ent = [parse_store(name, t) for t in stmts]
            if not ent:
                raise NotFound("sysendian.h: store statements of %s not understood" % name)
            if len({i for i, _, _ in ent}) != len(ent):
                raise NotFound("sysendian.h: two stores of %s target the same byte (order matters)" % name)
            ent.sort(key=lambda e: (e[1], e[0]))
            rows = ["(%d, %d, %d)" % e for e in ent]
            out += "Definition %s_tab : list (N * N * N) :=\n  [%s]%%N.\n" % (name, "; ".join(rows))
        else:
            ret = re.search(r"return\s*(.*?);", body, flags=re.S)
            if not ret:
                raise NotFound("sysendian.h: return expression of " + name)
            ent = re.findall(r"\(\s*uint(\d+)_t\s*\)\s*\(\s*p\[(\d+)\]\s*\)(?:\s*<<\s*(\d+))?", ret.group(1))
            if len(ent) != len(re.findall(r"p\[", ret.group(1))) or not ent or \
                    any(w != m.group(2) for w, _, _ in ent) or "|" not in ret.group(1) or \
                    re.search(r"[&^+\-*/~]", ret.group(1)):
                raise NotFound("sysendian.h: load expression of %s not understood" % name)
            terms = [(int(i), int(sh or "0")) for _, i, sh in ent]
            if len({i for i, _ in terms}) != len(terms):
                raise NotFound("sysendian.h: a byte occurs in two terms of the load expression of %s" % name)
            terms.sort(key=lambda e: (e[1], e[0]))
            rows = ["(%d, %d)" % e for e in terms]
            out += "Definition %s_tab : list (N * N) :=\n  [%s]%%N.\n" % (name, "; ".join(rows))
    want = {e + w + d for e in ("be", "le") for w in ("16", "32", "64") for d in ("enc", "dec")}
    if seen != want:
        raise NotFound("sysendian.h: functions missing: %s" % sorted(want - seen))
    return out


def extract_inner(repo):
    out = HEADER
    out += endian_tables(repo)
    # ---- aws/aws_readkeys.c
    aws = strip_comments(read(repo, "aws/aws_readkeys.c"))
    env = {}
    env["sizeof:buf"] = eval_size(local_array(aws, "buf"), env)
    a = call_args(aws, "fgets")
    if a[0] != "buf":
        raise NotFound("aws_readkeys: fgets target is not buf")
    out += "(* aws/aws_readkeys.c *)\n"
    out += coq_def_N("aws_buf_size", env["sizeof:buf"])
    out += coq_def_N("aws_fgets_size", eval_size(a[1], env))
    a = call_args(aws, "strcspn")
    out += coq_def_list("aws_eol_set", concat_literals(a[1]))
    a = call_args(aws, "strchr")
    m = re.fullmatch(r"'(.)'", a[1])
    if not m:
        raise NotFound("aws_readkeys: separator literal")
    out += coq_def_N("aws_separator", ord(m.group(1)))
    out += coq_def_list("aws_name_id", concat_literals(call_args(aws, "strcmp", 0)[1]))
    out += coq_def_list("aws_name_secret", concat_literals(call_args(aws, "strcmp", 1)[1]))
    # ---- util/readpass_file.c
    rp = strip_comments(read(repo, "util/readpass_file.c"))
    env = {"MAXPASSLEN": define_int(rp, "MAXPASSLEN")}
    env["sizeof:passbuf"] = eval_size(local_array(rp, "passbuf"), env)
    a = call_args(rp, "fgets")
    if a[0] != "passbuf":
        raise NotFound("readpass_file: fgets target is not passbuf")
    out += "(* util/readpass_file.c *)\n"
    out += coq_def_N("rp_buf_size", env["sizeof:passbuf"])
    out += coq_def_N("rp_fgets_size", eval_size(a[1], env))
    out += coq_def_list("rp_eol_set", concat_literals(call_args(rp, "strcspn")[1]))
    # ---- util/sock.c
    sk = strip_comments(read(repo, "util/sock.c"))
    a = call_args(sk, "PARSENUM_EX")
    if len(a) != 6:
        raise NotFound("sock_resolve: PARSENUM_EX with 6 arguments")
    out += "(* util/sock.c: PARSENUM_EX(&p, ports, min, max, base, trailing) *)\n"
    out += coq_def_N("port_min", int_literal(a[2]))
    out += coq_def_N("port_max", int_literal(a[3]))
    out += coq_def_N("port_base", int_literal(a[4]))
    out += coq_def_N("port_trailing", int_literal(a[5]))
    # ---- util/sock_util.c
    su = strip_comments(read(repo, "util/sock_util.c"))
    fm = [concat_literals(call_args(su, "asprintf", k)[1]) for k in range(4)]
    out += "(* util/sock_util.c: asprintf formats of prettyprint_ipv4, prettyprint_ipv6, ensure_port (twice) *)\n"
    out += coq_def_list("fmt_pp_ipv4", fm[0])
    out += coq_def_list("fmt_pp_ipv6", fm[1])
    out += coq_def_list("fmt_ensure_port_host", fm[2])
    out += coq_def_list("fmt_ensure_port_addr", fm[3])
    out += coq_def_list("unknown_address", concat_literals(re.search(r"default\s*:\s*return\s*\(\s*strdup\s*\((.*?)\)\s*\)", su, flags=re.S).group(1)))
    # ---- platform ABI
    abi = platform_abi()
    out += "(* platform ABI of the socket address structures (system headers, probed with gcc) *)\n"
    for k in sorted(abi):
        out += coq_def_N(k, abi[k])
    return {"Repo_codec2.v": out}


def extract(repo):
    """Every failure to READ the source is a NotFound (the translator layer then falls back to the
    pinned output and says so); no other exception type leaves this module."""
    try:
        return extract_inner(repo)
    except NotFound:
        raise
    except (KeyError, IndexError, AttributeError, ValueError, TypeError) as e:
        raise NotFound("codec2: source form not understood (%s: %s)" % (type(e).__name__, e))
