"""Helpers for the translator modules: locate literals / initialisers / #defines in C text."""
import os
import re


class NotFound(Exception):
    pass


def read(repo, rel):
    p = os.path.join(repo, rel)
    if not os.path.exists(p):
        raise NotFound("missing file " + rel)
    return open(p, encoding="utf-8", errors="replace").read()


def strip_comments(src):
    src = re.sub(r"/\*.*?\*/", " ", src, flags=re.S)
    return re.sub(r"//[^\n]*", " ", src)


_ESC = {"n": 10, "t": 9, "r": 13, "0": 0, "\\": 92, '"': 34, "'": 39, "a": 7, "b": 8, "f": 12, "v": 11}


def unescape(s):
    """C string literal body -> list of byte values."""
    out, i = [], 0
    while i < len(s):
        c = s[i]
        if c == "\\":
            i += 1
            c = s[i]
            if c == "x":
                m = re.match(r"[0-9a-fA-F]+", s[i + 1:])
                out.append(int(m.group(0), 16) & 255)
                i += len(m.group(0))
            elif c in "01234567":
                m = re.match(r"[0-7]{1,3}", s[i:])
                out.append(int(m.group(0), 8) & 255)
                i += len(m.group(0)) - 1
            else:
                out.append(_ESC.get(c, ord(c)))
        else:
            out += list(c.encode("utf-8"))
        i += 1
    return out


STR = r'"((?:[^"\\]|\\.)*)"'


def concat_literals(text):
    """All adjacent string literals in text concatenated -> bytes list."""
    parts = re.findall(STR, text, flags=re.S)
    if not parts:
        raise NotFound("no string literal in %r" % text[:60])
    out = []
    for p in parts:
        out += unescape(p)
    return out


def string_var(src, name):
    """static char name[] = "..." "..."; -> list of bytes (without the implicit NUL)."""
    m = re.search(r"\b%s\s*\[[^\]]*\]\s*=\s*((?:\s*%s)+)\s*;" % (re.escape(name), STR), src, flags=re.S)
    if not m:
        raise NotFound("string variable " + name)
    return concat_literals(m.group(1))


def int_literal(tok):
    tok = tok.strip()
    tok = re.sub(r"(?i)(ull|ul|llu|lu|u|ll|l)$", "", tok)
    tok = re.sub(r"^\(\s*[a-z_0-9 ]+\s*\)", "", tok).strip()
    if tok.startswith("(") and tok.endswith(")"):
        tok = tok[1:-1]
    return int(tok, 0)


def array_init(src, name):
    """T name[..] = { a, b, ... }; -> list of ints (flat)."""
    m = re.search(r"\b%s\s*(?:\[[^\]]*\])+\s*=\s*\{(.*?)\}\s*;" % re.escape(name), src, flags=re.S)
    if not m:
        raise NotFound("array initialiser " + name)
    body = strip_comments(m.group(1)).replace("{", " ").replace("}", " ")
    toks = [t for t in (x.strip() for x in body.split(",")) if t]
    return [int_literal(t) for t in toks]


def define(src, name):
    m = re.search(r"^\s*#\s*define\s+%s\s+(.+?)\s*$" % re.escape(name), src, flags=re.M)
    if not m:
        raise NotFound("#define " + name)
    return strip_comments(m.group(1)).strip()


def define_int(src, name):
    v = define(src, name)
    v = v.strip()
    while v.startswith("(") and v.endswith(")"):
        v = v[1:-1].strip()
    try:
        return int_literal(v)
    except ValueError:
        # simple products like (64 * 1024)
        if re.fullmatch(r"[0-9xXa-fA-F\s\*\+\-\(\)<]+", v):
            return int(eval(v, {"__builtins__": {}}))
        raise NotFound("#define %s not an integer: %s" % (name, v))


def coq_list_N(vals, per_line=8):
    rows = []
    for i in range(0, len(vals), per_line):
        rows.append("; ".join(str(v) for v in vals[i:i + per_line]))
    return "[" + ";\n   ".join(rows) + "]%N"


def coq_def_list(name, vals):
    return "Definition %s : list N :=\n  %s.\n" % (name, coq_list_N(vals))


def coq_def_N(name, v):
    return "Definition %s : N := %d%%N.\n" % (name, v)


HEADER = "From Coq Require Import NArith List.\nImport ListNotations.\n\n"
