"""aws/aws_readkeys.c: the two key names, the line-buffer size, and whether the error path wipes the
secret (insecure_memzero on *key_secret before free(*key_secret))."""
import re
from common import *


def extract(repo):
    src = strip_comments(read(repo, "aws/aws_readkeys.c"))
    names = re.findall(r'strcmp\s*\(\s*buf\s*,\s*(%s)\s*\)\s*==\s*0' % STR, src)
    if len(names) != 2:
        raise NotFound("two strcmp(buf, \"...\") tests in aws_readkeys.c")
    m = re.search(r"char\s+buf\s*\[\s*(\d+)\s*\]", src)
    if not m:
        raise NotFound("char buf[N] in aws_readkeys.c")
    # the release of the secret on the error path
    f = re.search(r"free\s*\(\s*\*\s*key_secret\s*\)", src)
    if not f:
        raise NotFound("free(*key_secret) in aws_readkeys.c")
    before = src[:f.start()]
    blk = before[before.rfind("err1"):] if "err1" in before else before[-400:]
    # read the wipe or refuse: `insecure_memzero(*key_secret, strlen(*key_secret))` up to white space,
    # redundant parentheses and a (size_t) cast means "wiped"; no insecure_memzero that mentions
    # key_secret at all means "not wiped"; anything else (another size expression, a temporary) is
    # not understood here and the pinned answer + the observation at the real free() decide
    calls = re.findall(r"insecure_memzero\s*\(([^;]*)\)\s*;", blk)
    calls = [c for c in calls if "key_secret" in c]
    if not calls:
        wipes = False
    else:
        def norm(t):
            t = re.sub(r"\s+", "", t).replace("(size_t)", "")
            prev = None
            while prev != t:
                prev = t
                t = re.sub(r"\(\((strlen\(\*key_secret\))\)\)", r"(\1)", t)
                t = re.sub(r",\((strlen\(\*key_secret\))\)$", r",\1", t)
                t = re.sub(r"^\(\*key_secret\),", "*key_secret,", t)
            return t
        if len(calls) == 1 and norm(calls[0]) == "*key_secret,strlen(*key_secret)":
            wipes = True
        else:
            raise NotFound("the wipe of *key_secret on the error path is not in a form this module reads: " + calls[0].strip()[:80])
    out = HEADER
    out += coq_def_list("readkeys_name_id", concat_literals(names[0][0]))
    out += coq_def_list("readkeys_name_secret", concat_literals(names[1][0]))
    out += "Definition readkeys_bufsize : nat := %s%%nat.\n" % m.group(1)
    out += "Definition readkeys_wipes_before_free : bool := %s.\n" % ("true" if wipes else "false")
    return {"Repo_readkeys.v": out}
