"""datastruct/elasticarray.c, elasticqueue.c, seqptrmap.c, mpool.h: the numeric constants of the
resize policy, the struct sizes seen by malloc (LP64) and the pool tuning constants."""
import re
from common import *

# sizes on the LP64 target the drivers are built for
_LP64 = {"size_t": 8, "uint64_t": 8, "int64_t": 8, "int": 4, "uint32_t": 4, "uint8_t": 1, "char": 1}


def struct_size(src, name):
    m = re.search(r"struct\s+%s\s*\{(.*?)\}\s*;" % re.escape(name), strip_comments(src), flags=re.S)
    if not m:
        raise NotFound("struct " + name)
    off, maxal = 0, 1
    for decl in m.group(1).split(";"):
        decl = decl.strip()
        if not decl:
            continue
        if "*" in decl:
            sz = 8
        else:
            ty = re.sub(r"\b(const|volatile|unsigned|signed|struct)\b", " ", decl).split()
            if not ty or ty[0] not in _LP64:
                raise NotFound("field type in struct %s: %s" % (name, decl))
            sz = _LP64[ty[0]]
        off = (off + sz - 1) // sz * sz + sz
        maxal = max(maxal, sz)
    return (off + maxal - 1) // maxal * maxal


def one(src, pat, what):
    m = re.search(pat, src, flags=re.S)
    if not m:
        raise NotFound(what)
    return m


def extract(repo):
    ea = strip_comments(read(repo, "datastruct/elasticarray.c"))
    eq = strip_comments(read(repo, "datastruct/elasticqueue.c"))
    sp = strip_comments(read(repo, "datastruct/seqptrmap.c"))
    mp = strip_comments(read(repo, "datastruct/mpool.h"))
    out = HEADER
    # static int resize(...) body only
    m = one(ea, r"\nresize\s*\(struct elasticarray \* EA, size_t nsize\)\s*\{(.*?)\n\}", "resize() body")
    body = re.sub(r"\s+", " ", m.group(1))
    g = one(body, r"if \(EA->alloc < nsize\) \{ nalloc = EA->alloc(?: \* (\d+))?; if \(nalloc < nsize\) nalloc = nsize; \}",
            "grow branch of resize")
    grow = int(g.group(1) or 1)
    d = one(body, r"else if \(EA->alloc(?: / (\d+))? > nsize\) \{ nalloc = nsize(?: \* (\d+))?; \} else \{ nalloc = EA->alloc; \}",
            "shrink branch of resize")
    sdiv = int(d.group(1) or 1)
    smul = int(d.group(2) or 1)
    out += coq_def_N("ea_grow_mul", grow)
    out += coq_def_N("ea_shrink_div", sdiv)
    out += coq_def_N("ea_shrink_mul", smul)
    out += coq_def_N("ea_struct_size", struct_size(ea, "elasticarray"))
    out += coq_def_N("eq_struct_size", struct_size(eq, "elasticqueue"))
    out += coq_def_N("spm_struct_size", struct_size(sp, "seqptrmap"))
    # seqptrmap stores void * records
    one(sp, r"elasticqueue_init\s*\(\s*sizeof\s*\(\s*void \*\s*\)\s*\)", "seqptrmap record size sizeof(void *)")
    out += coq_def_N("spm_reclen", 8)
    # mpool tuning
    t = one(mp, r"M->nempties > \(M->nallocs >> (\d+)\)", "mpool tuning shift")
    out += coq_def_N("mpool_tune_shift", int(t.group(1)))
    k = one(mp, r"malloc\(M->allocsize \* (\d+) \* sizeof\(void \*\)\)", "mpool stack doubling malloc")
    k2 = one(mp, r"M->allocsize = M->allocsize \* (\d+);", "mpool stack doubling assignment")
    if k.group(1) != k2.group(1):
        raise NotFound("mpool doubling factors differ (%s vs %s)" % (k.group(1), k2.group(1)))
    out += coq_def_N("mpool_grow_mul", int(k.group(1)))
    out += coq_def_N("mpool_ptr_size", 8)
    return {"Repo_ds.v": out}


FALLBACK = {"Repo_ds.v": HEADER + "".join(coq_def_N(n, v) for n, v in [
    ("ea_grow_mul", 2), ("ea_shrink_div", 4), ("ea_shrink_mul", 2), ("ea_struct_size", 24),
    ("eq_struct_size", 32), ("spm_struct_size", 24), ("spm_reclen", 8), ("mpool_tune_shift", 8),
    ("mpool_grow_mul", 2), ("mpool_ptr_size", 8)])}
