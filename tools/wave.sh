#!/bin/sh
# tools/wave.sh <name> ...  : confirm freshly written seeds under /tmp/seed-out and run the checks
# against them in a private copy of /verif (so concurrent work in /verif/coq/Gen is not disturbed).
for n in "$@"; do sh /verif/tools/confirm_seed.sh "$n"; done
mkdir -p /tmp/vs && rsync -a --delete --exclude .git /verif/ /tmp/vs/
ok=""
for n in "$@"; do [ -d /verif/seeded/$n ] && ok="$ok $n"; done
[ -n "$ok" ] && (cd /tmp/vs && python3 tools/seeded.py $ok)
for n in $ok; do cp /tmp/vs/seeded/$n/result.json /verif/seeded/$n/ 2>/dev/null; done
