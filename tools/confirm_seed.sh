#!/bin/sh
# tools/confirm_seed.sh <name>   (reads /tmp/seed-out/<name>/, writes /verif/seeded/<name>/)
# Confirms a seeded change independently: patch applies, library builds and `make test` passes with
# it, the demonstration fails on the patched tree and passes on the clean tree.  Keeps it only then.
set -u
name="$1"; src="/tmp/seed-out/$name"; wt="/tmp/wt-confirm-$name"; out="/verif/seeded/$name"
[ -f "$src/patch.diff" ] || { echo "$name: no patch"; exit 2; }
git -C /repo worktree add -q "$wt" HEAD || exit 2
res="rejected"; notes=""
if git -C "$wt" apply "$src/patch.diff"; then
  # (the suite has a timing-sensitive mpool test: retry twice before believing a failure)
  if (cd "$wt" && make >/tmp/confirm-$name.build.log 2>&1 && { make test >/tmp/confirm-$name.test.log 2>&1 || make test >/tmp/confirm-$name.test.log 2>&1 || make test >/tmp/confirm-$name.test.log 2>&1; }); then
    t_ok=1; else t_ok=0; notes="$notes make-test-failed-with-patch"; fi
  (cd "$src" && sh ./run.sh "$wt" >/tmp/confirm-$name.demo-patched.log 2>&1); rc_p=$?
  (cd "$src" && sh ./run.sh /repo >/tmp/confirm-$name.demo-clean.log 2>&1); rc_c=$?
  if [ "$t_ok" = 1 ] && [ "$rc_p" != 0 ] && [ "$rc_c" = 0 ]; then res="confirmed"; fi
  notes="$notes tests_pass=$t_ok demo_patched_rc=$rc_p demo_clean_rc=$rc_c"
else
  notes="patch-does-not-apply"
fi
git -C /repo worktree remove --force "$wt"
if [ "$res" = confirmed ]; then
  mkdir -p "$out"; cp -r "$src"/. "$out"/
  python3 - "$out" "$notes" <<'PY'
import json,sys
d,notes=sys.argv[1],sys.argv[2]
m=json.load(open(d+"/meta.json"))
m["confirmed_by_coordinator"]={"what":"git apply in a scratch worktree of /repo HEAD; make && make test passed with the change; run.sh exits non-zero on the patched tree and 0 on /repo","result":notes.strip()}
json.dump(m,open(d+"/meta.json","w"),indent=1)
PY
fi
echo "$name: $res ($notes)"
