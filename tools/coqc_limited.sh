#!/bin/sh
# coqc under a wall-clock and an address-space limit: a diverging or memory-hungry proof script
# fails its own file instead of stalling or starving the whole build
ulimit -v 16000000 2>/dev/null
exec timeout 1500 coqc "$@"
