#!/usr/bin/env python3
"""Detection under the translator fallback: apply a harmless rewrite AND a seeded breaking change of
the same property to one scratch tree (when both patches apply) and run the property's check: it
must still report a VIOLATION.  tools/combo.py [max-per-property]   (runs in a private copy)"""
import json, os, subprocess, sys, time
HERE = os.path.dirname(os.path.dirname(os.path.abspath(__file__)))
def sh(cmd, **kw):
    return subprocess.run(cmd, shell=isinstance(cmd, str), stdout=subprocess.PIPE, stderr=subprocess.STDOUT, text=True, **kw)
def main():
    if not HERE.startswith("/tmp/"):
        priv = "/tmp/verif-combo-%d" % os.getpid()
        sh(["rsync", "-a", "--delete", "--exclude", ".git", HERE + "/", priv + "/"])
        try:
            r = subprocess.run([sys.executable, os.path.join(priv, "tools", "combo.py")] + sys.argv[1:])
            sh(["cp", os.path.join(priv, "build", "combo.json"), os.path.join(HERE, "seeded", "combo_results.json")])
            return r.returncode
        finally:
            sh(["rm", "-rf", priv])
    per = int(sys.argv[1]) if len(sys.argv) > 1 else 2
    only = sys.argv[2:]
    wt = "/tmp/wt-combo-%d" % os.getpid()
    sh(["git", "-C", "/repo", "worktree", "add", "-q", wt, "HEAD"])
    rows = []
    try:
        seeds = sorted(os.listdir(os.path.join(HERE, "seeded")))
        harm = sorted(os.listdir(os.path.join(HERE, "harmless")))
        pids = sorted(set(s.split("-")[0] for s in seeds if s.startswith("C")))
        for pid in pids:
            if only and pid not in only:
                continue
            n = 0
            used_seeds = set()
            for h in [x for x in harm if x.startswith(pid + "-")]:
                for s in [x for x in seeds if x.startswith(pid + "-") and os.path.isdir(os.path.join(HERE, "seeded", x))]:
                    if n >= per or s in used_seeds:
                        continue
                    sh(["git", "-C", wt, "checkout", "-q", "--", "."]); sh(["git", "-C", wt, "clean", "-fdq"])
                    a = sh(["git", "-C", wt, "apply", os.path.join(HERE, "harmless", h, "patch.diff")])
                    if a.returncode != 0:
                        break
                    b = sh(["git", "-C", wt, "apply", os.path.join(HERE, "seeded", s, "patch.diff")])
                    if b.returncode != 0:
                        continue
                    # the two patches must touch at least one common file, otherwise the combination is pointless
                    fa = set(l[6:] for l in open(os.path.join(HERE, "harmless", h, "patch.diff")) if l.startswith("+++ b/"))
                    fb = set(l[6:] for l in open(os.path.join(HERE, "seeded", s, "patch.diff")) if l.startswith("+++ b/"))
                    if not (fa & fb):
                        continue
                    t0 = time.time()
                    r = sh([os.path.join(HERE, "check"), pid], cwd=HERE, env=dict(os.environ, VERIF_REPO=wt))
                    viol = [l for l in r.stdout.splitlines() if l.startswith("VIOLATION")]
                    notes = [l for l in r.stdout.splitlines() if l.startswith("NOTE")]
                    rows.append({"property": pid, "harmless": h, "seed": s, "exit": r.returncode,
                                 "violation": viol[-1] if viol else None, "fallback_notes": len(notes),
                                 "first": [l[:200] for l in r.stdout.splitlines() if l.startswith("  [")][:2], "wall_s": round(time.time() - t0, 1)})
                    print("%-5s %-8s + %-8s -> %s%s" % (pid, h, s, "CAUGHT" if r.returncode == 1 and viol else "MISSED",
                                                        " (fallback)" if notes else ""), flush=True)
                    n += 1; used_seeds.add(s)
    finally:
        sh(["git", "-C", "/repo", "worktree", "remove", "--force", wt])
        os.makedirs(os.path.join(HERE, "build"), exist_ok=True)
        json.dump(rows, open(os.path.join(HERE, "build", "combo.json"), "w"), indent=1)
if __name__ == "__main__":
    sys.exit(main())
