"""Shared machinery for the /verif checks.

Flow of one check (see DESIGN.md section 2):
  sync (translator) -> prove (coq) -> build C driver from /repo -> generate cases
  -> correspond (impl vs extracted model) -> search (impl vs spec) -> decide -> evidence
"""
import fcntl
import glob
import hashlib
import json
import os
import random
import re
import shutil
import subprocess
import sys
import time

VERIF = os.path.dirname(os.path.dirname(os.path.abspath(__file__)))
REPO = os.environ.get("VERIF_REPO", "/repo")
BUILD = os.path.join(VERIF, "build")
COQ = os.path.join(VERIF, "coq")
NCPU = os.cpu_count() or 4

FORBIDDEN = re.compile(
    r"\b(Admitted|admit|Axiom|Axioms|Parameter|Parameters|Conjecture|Conjectures|"
    r"Admit Obligations|Unset Guard Checking|Unset Positivity Checking|"
    r"Unset Universe Checking|bypass_check|type-in-type|impredicative-set|"
    r"native_compute)\b")

FIXED_TRUSTED_BASE = [
    "Coq 8.16.1 kernel incl. vm_compute (no native_compute, no check switched off)",
    "tools/extract/*.py translator regenerating coq/Gen/*.v from /repo on every run",
    "Extraction: ExtrOcamlBasic only (Extract Inductive bool/option/unit/list/prod/sumbool/sumor; no Extract Constant of ours); OCaml 4.13.1",
    "correspondence harness (C drivers built from /repo, --wrap interposers, generators, diff)",
    "the C code is modelled by hand-written Gallina, not verified; the tie is the translator + correspondence run",
]


def ensure_dir(p):
    os.makedirs(p, exist_ok=True)
    return p


class Lock:
    def __init__(self, name):
        ensure_dir(BUILD)
        self.path = os.path.join(BUILD, ".lock-" + name)

    def __enter__(self):
        self.f = open(self.path, "w")
        fcntl.flock(self.f, fcntl.LOCK_EX)
        return self

    def __exit__(self, *a):
        fcntl.flock(self.f, fcntl.LOCK_UN)
        self.f.close()


def run(cmd, timeout=600, cwd=None, env=None, input=None, check=False):
    """Run a command, return (rc, stdout, stderr); rc=124 on timeout."""
    e = dict(os.environ)
    if env:
        e.update(env)
    try:
        p = subprocess.run(cmd, cwd=cwd, env=e, input=input, timeout=timeout,
                           stdout=subprocess.PIPE, stderr=subprocess.PIPE,
                           shell=isinstance(cmd, str))
        rc, out, err = p.returncode, p.stdout, p.stderr
    except subprocess.TimeoutExpired as t:
        rc, out, err = 124, t.stdout or b"", t.stderr or b""
    out = out.decode("utf-8", "replace") if isinstance(out, bytes) else out
    err = err.decode("utf-8", "replace") if isinstance(err, bytes) else err
    if check and rc != 0:
        raise RuntimeError("command failed (%d): %s\n%s\n%s" % (rc, cmd, out[-3000:], err[-3000:]))
    return rc, out, err


# --------------------------------------------------------------------------
# step 1: translator

LAST_FALLBACKS = []


def sync_gen():
    """Regenerate coq/Gen/*.v from REPO. Returns list of error strings (hard errors only).
    Modules that could not read the source and fell back to their pinned output are left in
    LAST_FALLBACKS as (module, reason, [Gen files installed from the pin])."""
    global LAST_FALLBACKS
    with Lock("gen"):
        rc, out, err = run([sys.executable, os.path.join(VERIF, "tools", "extract_consts.py"), REPO],
                           timeout=120)
    LAST_FALLBACKS = []
    for l in (out + err).splitlines():
        if l.startswith("TRANSLATOR-FALLBACK "):
            mod, _, why = l[len("TRANSLATOR-FALLBACK "):].partition(": ")
            d = os.path.join(VERIF, "gen_pinned", mod)
            files = sorted(f for f in os.listdir(d) if f.endswith(".v")) if os.path.isdir(d) else []
            LAST_FALLBACKS.append((mod, why, files))
    errs = []
    if rc != 0:
        errs = [l for l in (out + err).splitlines() if l.startswith("TRANSLATOR-ERROR")][-20:] or ["translator failed"]
    return errs


# --------------------------------------------------------------------------
# step 2: proofs

def coq_makefile():
    mk = os.path.join(COQ, "Makefile.coq")
    cp = os.path.join(COQ, "_CoqProject")
    files = sorted(os.path.relpath(p, COQ) for p in glob.glob(os.path.join(COQ, "**", "*.v"), recursive=True)
                   if "/Extract/" not in p)
    want = "-Q . LCP\n-arg -w -arg -notation-overridden,-deprecated,-ambiguous-paths\n" + "\n".join(files) + "\n"
    old = open(cp).read() if os.path.exists(cp) else None
    if old != want or not os.path.exists(mk):
        with open(cp, "w") as f:
            f.write(want)
        run(["coq_makefile", "-f", "_CoqProject", "-o", "Makefile.coq"], cwd=COQ, check=True)


def property_files(pid):
    return sorted(os.path.relpath(p, COQ) for p in glob.glob(os.path.join(COQ, "Properties_%s*.v" % pid)))


def dep_cone(vfiles):
    """Transitive closure of LCP-internal dependencies of the given .v files (relative to coq/)."""
    seen, todo = set(), list(vfiles)
    # a Require sentence may span lines; it ends at the first '.' followed by white space
    req = re.compile(r"(?:From\s+\S+\s+)?Require\s+(?:Import\s+|Export\s+)?(.*?)\.(?=\s|$)", re.S)
    while todo:
        f = todo.pop()
        if f in seen or not os.path.exists(os.path.join(COQ, f)):
            continue
        seen.add(f)
        txt = re.sub(r"\(\*.*?\*\)", " ", open(os.path.join(COQ, f)).read(), flags=re.S)
        for m in req.finditer(txt):
            for name in m.group(1).split():
                if name.startswith("LCP."):
                    name = name[4:]
                cand = name.replace(".", "/") + ".v"
                if os.path.exists(os.path.join(COQ, cand)):
                    todo.append(cand)
                else:
                    # "From LCP Require Import Foo" with Foo in any subdir
                    base = name.split(".")[-1] + ".v"
                    for p in glob.glob(os.path.join(COQ, "**", base), recursive=True):
                        todo.append(os.path.relpath(p, COQ))
    return sorted(seen)


OBL = re.compile(r"^\s*(?:Local\s+|Global\s+|#\[[^\]]*\]\s*)*(Lemma|Theorem|Corollary|Example|Fact|Remark|Proposition)\s+([A-Za-z0-9_']+)", re.M)


def count_obligations(files):
    """obligations = statements in the cone; discharged = those in files whose .vo is newer than
    every .v in that file's own dependency cone (i.e. really re-checked against current sources)."""
    total, done, names_missing = 0, 0, []
    mt = {f: os.path.getmtime(os.path.join(COQ, f)) for f in files}
    for f in files:
        p = os.path.join(COQ, f)
        n = len(OBL.findall(open(p).read()))
        total += n
        vo = p[:-2] + ".vo"
        newest = max(mt.get(g, 0) for g in dep_cone([f]))
        if os.path.exists(vo) and os.path.getmtime(vo) >= newest:
            done += n
        else:
            names_missing.append(f)
    return total, done, names_missing


def hygiene(files):
    """grep gate over the given coq files (comments stripped crudely)."""
    bad = []
    for f in files:
        txt = open(os.path.join(COQ, f)).read()
        txt = re.sub(r"\(\*.*?\*\)", " ", txt, flags=re.S)
        for i, line in enumerate(txt.splitlines(), 1):
            if FORBIDDEN.search(line):
                bad.append("%s: %s" % (f, line.strip()[:120]))
    return bad


def parse_assumptions(out):
    """Parse coqc stdout of a Properties file: returns {theorem: [axioms]} in order of Print Assumptions."""
    res = []
    blocks = re.split(r"\n(?=Closed under the global context|Axioms:)", "\n" + out)
    for b in blocks:
        b = b.strip()
        if b.startswith("Closed under the global context"):
            res.append([])
        elif b.startswith("Axioms:"):
            ax = []
            for line in b.splitlines()[1:]:
                m = re.match(r"^([A-Za-z_][A-Za-z0-9_.']*)\s*:", line)
                if m:
                    ax.append(m.group(1))
            res.append(ax)
    return res


def prove(pid, timeout=3000):
    """Build Properties_<pid>*.vo. Returns dict with theorems, axioms, broken list."""
    t0 = time.time()
    info = {"files": [], "broken": [], "axioms": [], "theorems": [], "log": ""}
    with Lock("coq"):
        coq_makefile()
        pfiles = property_files(pid)
        info["files"] = pfiles
        if not pfiles:
            info["broken"].append("no Properties_%s*.v file" % pid)
            return info
        targets = [f[:-2] + ".vo" for f in pfiles]
        rc, out, err = run(["make", "-f", "Makefile.coq", "-k", "-j%d" % NCPU, "COQC=" + os.path.join(VERIF, "tools", "coqc_limited.sh")] + targets,
                           cwd=COQ, timeout=timeout)
        info["log"] = (out + err)[-6000:]
        cone = dep_cone(pfiles)
        info["cone"] = cone
        total, done, missing = count_obligations(cone)
        info["obligations"], info["discharged"] = total, done
        if rc != 0 or missing:
            # name the failing file / theorem
            m = re.findall(r'File "\./([^"]+)", line (\d+)', out + err)
            for f, ln in m:
                info["broken"].append("proof:%s:%s" % (f, ln))
            for f in missing:
                if not any(f in b for b in info["broken"]):
                    info["broken"].append("proof:%s" % f)
            if not info["broken"]:
                info["broken"].append("proof:make rc=%d" % rc)
        bad = hygiene(cone)
        for b in bad:
            info["broken"].append("hygiene:" + b)
        # Print Assumptions: recompile the property files themselves (cheap) and parse
        for f in pfiles:
            vo = os.path.join(COQ, f[:-2] + ".vo")
            if not os.path.exists(vo):
                continue
            txt = open(os.path.join(COQ, f)).read()
            thms = [m[1] for m in OBL.findall(txt)]
            rc2, o2, e2 = run(["coqc", "-Q", ".", "LCP", "-w", "-notation-overridden,-deprecated,-ambiguous-paths", "-o",
                               os.path.join(ensure_dir(os.path.join(BUILD, "recheck")), os.path.basename(f)[:-2] + ".vo"), f],
                              cwd=COQ, timeout=600)
            pa = parse_assumptions(o2)
            npa = len(re.findall(r"^\s*Print Assumptions", txt, re.M))
            if rc2 != 0:
                info["broken"].append("proof:%s (recheck rc=%d)" % (f, rc2))
            if npa < len(thms):
                info["broken"].append("hygiene:%s has %d theorems but %d Print Assumptions" % (f, len(thms), npa))
            info["theorems"] += thms
            for ax in pa:
                for a in ax:
                    if a not in info["axioms"]:
                        info["axioms"].append(a)
    info["wall_s"] = time.time() - t0
    return info


# --------------------------------------------------------------------------
# step 3: building C drivers and the extracted model

REPO_INC = ["alg", "aws", "cpusupport", "crypto", "datastruct", "events", "external/queue", "http",
            "netbuf", "network", "network_ssl", "util", "apisupport", "."]

BASE_CFLAGS = ["-O2", "-g", "-std=c99", "-D_POSIX_C_SOURCE=200809L", "-D_XOPEN_SOURCE=700",
               "-DLIBCPERCIVA_VERIF",
               "-DAPISUPPORT_CONFIG_FILE=\"apisupport-config.h\""]
ASAN_FLAGS = ["-fsanitize=address,undefined", "-fno-sanitize-recover=undefined", "-fno-omit-frame-pointer"]


def repo_src(rel):
    return os.path.join(REPO, rel)


# second build configuration of every driver: the LIBRARY sources with -DNDEBUG (assert() compiled out),
# the driver's own code unchanged.  Switched on by ./check for its NDEBUG round.
NDEBUG_BUILD = os.environ.get("VERIF_NDEBUG") == "1"


def build_c(name, driver, repo_sources, extra_sources=(), cflags=(), ldflags=(), wraps=(), asan=False,
            cpuconfig="cpusupport-config.h", per_file_flags=None, cc="gcc", timeout=300):
    """Compile build/c/<name> from harness/<driver> + sources in REPO. Returns (path, errtext|None).
    cpuconfig is a path relative to REPO or an absolute path to a header."""
    if NDEBUG_BUILD:
        name += "_ndebug"
    outdir = ensure_dir(os.path.join(BUILD, "c", name))
    exe = os.path.join(outdir, name)
    inc = []
    for d in REPO_INC:
        inc += ["-I", os.path.join(REPO, d)]
    inc += ["-I", os.path.join(VERIF, "harness")]
    flags = list(BASE_CFLAGS) + ["-DCPUSUPPORT_CONFIG_FILE=\"%s\"" % cpuconfig] + list(cflags)
    if asan:
        flags += ASAN_FLAGS
    objs = []
    srcs = [os.path.join(VERIF, "harness", driver)] + [os.path.join(VERIF, "harness", s) for s in extra_sources] + \
           [repo_src(s) for s in repo_sources]
    procs = []
    with Lock("c-" + name):
        for s in srcs:
            o = os.path.join(outdir, hashlib.md5(s.encode()).hexdigest()[:8] + "-" + os.path.basename(s)[:-2] + ".o")
            objs.append(o)
            ff = list(flags)
            if NDEBUG_BUILD and s.startswith(REPO + os.sep):
                ff.append("-DNDEBUG")      # the library as a release build of an embedding program compiles it
            if per_file_flags:
                for pat, fl in per_file_flags.items():
                    if s.endswith(pat):
                        ff += fl
            cmd = [cc] + ff + inc + ["-c", s, "-o", o]
            procs.append((s, subprocess.Popen(cmd, stdout=subprocess.PIPE, stderr=subprocess.PIPE)))
        errs = []
        for s, p in procs:
            try:
                o, e = p.communicate(timeout=timeout)
            except subprocess.TimeoutExpired:
                p.kill()
                o, e = p.communicate()
            if p.returncode != 0:
                errs.append("%s:\n%s" % (s, e.decode("utf-8", "replace")[-2000:]))
        if errs:
            return None, "\n".join(errs)
        # link beside the target and rename into place: another check that is running the previous
        # executable right now (same driver, other property) keeps its open file, and nobody ever sees a
        # half-written one
        tmp_exe = exe + ".tmp.%d" % os.getpid()
        ld = [cc] + (ASAN_FLAGS if asan else []) + ["-o", tmp_exe] + objs
        if wraps:
            ld += ["-Wl," + ",".join("--wrap=" + w for w in wraps)]
        ld += list(ldflags)
        rc, o, e = run(ld, timeout=timeout)
        if rc != 0:
            try:
                os.unlink(tmp_exe)
            except OSError:
                pass
            return None, e[-3000:]
        os.replace(tmp_exe, exe)
    return exe, None


def build_model(area, timeout=900):
    """Extract coq/Extract/Extract_<area>.v and build build/model/<area>/model_<area>.
    Returns (path, errtext|None). Rebuilds only when inputs changed."""
    outdir = ensure_dir(os.path.join(BUILD, "model", area))
    exe = os.path.join(outdir, "model_" + area)
    ev = os.path.join(COQ, "Extract", "Extract_%s.v" % area)
    main = os.path.join(VERIF, "model", "%s_main.ml" % area)
    # fast path without the lock: inputs unchanged since the last successful build
    cone = [f for f in dep_cone([os.path.relpath(ev, COQ)])]
    h = hashlib.sha256()
    for f in cone + [os.path.relpath(ev, COQ)]:
        h.update(open(os.path.join(COQ, f), "rb").read())
    h.update(open(main, "rb").read())
    h.update(open(os.path.join(VERIF, "model", "common.ml"), "rb").read())
    stamp = h.hexdigest()
    sf = os.path.join(outdir, "stamp")
    if os.path.exists(exe) and os.path.exists(sf) and open(sf).read() == stamp:
        return exe, None
    with Lock("coq"):
        coq_makefile()
        deps = [f[:-2] + ".vo" for f in cone if "Extract/" not in f]
        if deps:
            rc, o, e = run(["make", "-f", "Makefile.coq", "-j%d" % NCPU] + deps, cwd=COQ, timeout=timeout)
            if rc != 0:
                return None, "model dependencies do not compile:\n" + (o + e)[-3000:]
        for f in glob.glob(os.path.join(outdir, "*.ml*")):
            os.remove(f)
        rc, o, e = run(["coqc", "-Q", COQ, "LCP", "-w", "-notation-overridden,-deprecated,-ambiguous-paths,-extraction",
                        "-o", os.path.join(outdir, "Extract_%s.vo" % area), ev], cwd=outdir, timeout=timeout)
        if rc != 0:
            return None, "extraction failed:\n" + (o + e)[-3000:]
        with open(os.path.join(outdir, "main.ml"), "w") as mf:
            mf.write("open %s\n" % area.capitalize())
            mf.write(open(os.path.join(VERIF, "model", "common.ml")).read())
            mf.write("\n# 1 \"%s_main.ml\"\n" % area)
            mf.write(open(main).read())
        mls = sorted(f for f in os.listdir(outdir) if f.endswith(".ml") and f != "main.ml")
        mlis = sorted(f for f in os.listdir(outdir) if f.endswith(".mli"))
        rc, o, e = run(["ocamlfind", "ocamlopt", "-O3", "-w", "-a", "-o", exe] + mlis + mls + ["main.ml"],
                       cwd=outdir, timeout=timeout)
        if rc != 0:
            return None, "ocaml build failed:\n" + (o + e)[-3000:]
        open(sf, "w").write(stamp)
    return exe, None


def run_lines(exe, case_text, timeout=600, env=None, args=()):
    """Feed case_text on stdin, return (rc, list of stdout lines, stderr)."""
    rc, out, err = run([exe] + list(args), input=case_text.encode(), timeout=timeout, env=env)
    return rc, out.splitlines(), err


def run_sharded(exe, cases, shards=None, timeout=3600, env=None, args=()):
    """The wall-clock limit is only the last line of defence (a looping case is ended by the drivers'
    processor-time watchdogs long before); it is generous because a busy machine can slow a shard of
    the model runner down many times over, and a model that did not answer must never look like a
    disagreement.
    cases: list of single-line case strings; each produces exactly one output line.
    Runs in parallel shards; returns (list of output lines aligned with cases, list of (shard_rc, stderr))."""
    shards = shards or NCPU
    n = len(cases)
    if n == 0:
        return [], []
    shards = max(1, min(shards, n))
    per = (n + shards - 1) // shards
    procs = []
    e = dict(os.environ)
    if env:
        e.update(env)
    for i in range(0, n, per):
        chunk = cases[i:i + per]
        p = subprocess.Popen([exe] + list(args), stdin=subprocess.PIPE, stdout=subprocess.PIPE, stderr=subprocess.PIPE, env=e)
        procs.append((i, chunk, p))
    import threading
    results = [None] * len(procs)

    def work(k, chunk, p):
        try:
            o, er = p.communicate(("\n".join(chunk) + "\n").encode(), timeout=timeout)
            results[k] = (p.returncode, o.decode("utf-8", "replace"), er.decode("utf-8", "replace"))
        except subprocess.TimeoutExpired:
            p.kill()
            o, er = p.communicate()
            results[k] = (124, o.decode("utf-8", "replace"), er.decode("utf-8", "replace"))
    ths = []
    for k, (i, chunk, p) in enumerate(procs):
        t = threading.Thread(target=work, args=(k, chunk, p))
        t.start()
        ths.append(t)
    for t in ths:
        t.join()
    outs, status = [], []
    for k, (i, chunk, p) in enumerate(procs):
        rc, o, er = results[k]
        lines = o.splitlines()
        status.append((rc, er))
        # pad / truncate to keep alignment
        if len(lines) < len(chunk):
            lines += ["<no-output rc=%d>" % rc] * (len(chunk) - len(lines))
        outs += lines[:len(chunk)]
    return outs, status


# --------------------------------------------------------------------------
# result objects

class Failure:
    """One thing that went wrong in a sub-check.
    kind: 'diff' (impl vs model), 'property' (impl output violates the spec-level predicate),
          'sanitizer', 'crash', 'build', 'tie'
    property_fails: True if the spec-level property predicate is violated on this concrete case
    """

    def __init__(self, sub, kind, case, detail="", property_fails=False, signature=None):
        self.sub, self.kind, self.case, self.detail = sub, kind, case, detail
        self.property_fails = property_fails
        self.signature = signature

    def to_json(self):
        return {"sub": self.sub, "kind": self.kind, "case": self.case, "detail": self.detail,
                "property_fails": self.property_fails, "signature": self.signature}


class Ctx:
    def __init__(self, pid, tier, seed):
        self.pid, self.tier, self.seed = pid, tier, seed
        self.rng = random.Random(seed * 1000003 + int(hashlib.md5(pid.encode()).hexdigest()[:6], 16))
        self.failures = []
        self.evaluations = 0
        self.nontrivial = set()
        self.samples = []
        self.dist = {}
        self.rules = []
        self.traces_validated = 0
        self.assumptions = []
        self.notes = []

    @property
    def quick(self):
        return self.tier == "quick"

    def n(self, quick, thorough):
        return quick if self.tier == "quick" else thorough

    def fail(self, *a, **k):
        self.failures.append(Failure(*a, **k))

    def count(self, key, n=1):
        self.dist[key] = self.dist.get(key, 0) + n

    def record(self, sub, cases, nontrivial_keys, rule, samples=()):
        """Account for a batch of cases run against impl and model."""
        self.evaluations += len(cases)
        self.traces_validated += len(cases)
        for k in nontrivial_keys:
            self.nontrivial.add(sub + ":" + hashlib.md5(repr(k).encode()).hexdigest()[:12])
        self.rules.append("%s: %s" % (sub, rule))
        for s in list(samples)[:2]:
            self.samples.append({"sub": sub, "case": s if len(str(s)) < 400 else str(s)[:400] + "..."})


def load_known():
    p = os.path.join(VERIF, "known_findings.json")
    if not os.path.exists(p):
        return {"findings": [], "fixed": []}
    return json.load(open(p))


def write_evidence(pid, tier, seed, level, coverage, wall, violations, assumptions, development_run=False):
    """development_run (--no-prove): the record goes to build/evidence-noprove/, never to
    /verif/evidence, which holds only what a complete check wrote."""
    d = os.path.join(BUILD, "evidence-noprove") if development_run else os.path.join(VERIF, "evidence")
    ensure_dir(d)
    ev = {"property_id": pid, "tier": tier, "seed": seed, "level": level, "coverage": coverage,
          "assumptions": assumptions, "wall_s": round(wall, 2), "violations": violations}
    tmp = os.path.join(d, pid + ".json.tmp")
    with open(tmp, "w") as f:
        json.dump(ev, f, indent=1, sort_keys=True)
    os.replace(tmp, os.path.join(d, pid + ".json"))


def compare(ctx, sub, cases, impl_out, model_out, describe=None, property_pred=None, max_report=5):
    """Line-by-line diff; property_pred(case, impl_line, model_line) -> (fails:bool, signature|None)
    defaults to 'a diff is a property failure' (used where model = spec is proved)."""
    nd = 0
    for c, a, b in zip(cases, impl_out, model_out):
        if a != b:
            nd += 1
            if nd <= max_report:
                pf, sig = (True, None)
                if property_pred:
                    pf, sig = property_pred(c, a, b)
                ctx.fail(sub, "diff", describe(c) if describe else c,
                         "impl=%s model=%s" % (a[:300], b[:300]), property_fails=pf, signature=sig)
    if len(impl_out) != len(cases) or len(model_out) != len(cases):
        ctx.fail(sub, "crash", "", "output count mismatch impl=%d model=%d cases=%d" % (len(impl_out), len(model_out), len(cases)))
    return nd


def tri_compare(ctx, sub, cases, impl_out, model_out, spec_out=None, describe=None, signature=None, max_report=4):
    """impl vs model (the correspondence) and impl vs spec (the property itself).
    impl != spec            -> concrete failing input (property_fails)
    impl == spec != model   -> correspondence broken, property not refuted on this case
    spec_out None: the model is proved equal to the spec, so (while the proofs compile) a diff
    against the model is a failing input; if the proofs are broken it is only a correspondence break.
    signature(case, impl, want) -> str|None lets known findings be recognised."""
    nd = 0
    if len(impl_out) != len(cases) or len(model_out) != len(cases):
        ctx.fail(sub, "crash", "", "output count mismatch impl=%d model=%d cases=%d" % (len(impl_out), len(model_out), len(cases)))
    for i, c in enumerate(cases):
        a = impl_out[i] if i < len(impl_out) else "<missing>"
        m = model_out[i] if i < len(model_out) else "<missing>"
        s = spec_out[i] if spec_out is not None and i < len(spec_out) else None
        bad_spec = s is not None and a != s
        bad_model = a != m
        if not (bad_spec or bad_model):
            continue
        nd += 1
        if nd > max_report:
            continue
        if s is not None:
            pf = bad_spec
        else:
            pf = not ctx.proof_broken
        sig = signature(c, a, s if s is not None else m) if signature else None
        ctx.fail(sub, "property" if bad_spec else "diff", describe(c) if describe else c,
                 "impl=%s model=%s%s" % (a[:300], m[:300], (" spec=%s" % s[:300]) if s is not None else ""),
                 property_fails=pf, signature=sig)
    ctx.count(sub + ".disagreements", nd)
    return nd


def sanitizer_reports(ctx, sub, status, cases_desc=""):
    """status: list of (rc, stderr) from run_sharded of an ASan/UBSan build."""
    for rc, err in status:
        if rc != 0 or "ERROR: AddressSanitizer" in err or "runtime error:" in err or "LeakSanitizer" in err:
            m = re.search(r"(ERROR: AddressSanitizer[^\n]*|[^\n]*runtime error:[^\n]*|ERROR: LeakSanitizer[^\n]*)", err)
            ctx.fail(sub, "sanitizer" if m else "crash", cases_desc,
                     (m.group(1) if m else "driver exit rc=%d: %s" % (rc, err[-300:])), property_fails=True)
