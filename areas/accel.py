"""C03, accelerated SHA-256 transforms (alg/sha256_sse2.c, alg/sha256_shani.c).

check_accel_instructions  every instruction model of coq/Accel/X86Vec.v against the real instruction,
                          executed one at a time by harness/drv_accel.c on this CPU (boundary operands:
                          all-zero, all-ones, sign bits, a single bit in every position, byte ramps;
                          every immediate 0..255; shift counts through and past the element width)
check_accel_transforms    SHA256_Transform_sse2 and SHA256_Transform_shani as compiled from /repo against
                          the extracted models (Sse2Sha.v / ShaNi.v instantiated with the regenerated
                          constants) and against the FIPS 180-4 compression function
"""
import os

import vlib

SOURCES = ["alg/sha256_sse2.c", "alg/sha256_shani.c", "cpusupport/cpusupport_x86_sse2.c",
           "cpusupport/cpusupport_x86_ssse3.c", "cpusupport/cpusupport_x86_shani.c"]
PFF = {"sha256_shani.c": ["-msse2", "-msha", "-mssse3"], "sha256_sse2.c": ["-msse2"],
       "drv_accel.c": ["-msse2", "-mssse3", "-msse4.1", "-msha"]}
CORPUS = os.path.join(vlib.VERIF, "corpus", "accel")

ZERO = bytes(16)
ONES = b"\xff" * 16


def build(ctx, sub):
    hdr = os.path.join(vlib.VERIF, "harness", "cpuconfig", "shani_ssse3.h")
    exe, err = vlib.build_c("drv_accel", "drv_accel.c", SOURCES, asan=True, cpuconfig=hdr, per_file_flags=PFF)
    if not exe:
        ctx.fail(sub, "build", "", "C driver does not build: " + (err or "")[-600:])
        return None, None, {}
    mexe, err = vlib.build_model("accel")
    if not mexe:
        ctx.fail(sub, "tie", "", err)
        return None, None, {}
    rc, out, _ = vlib.run_lines(exe, "features\n")
    feats = dict(kv.split("=") for kv in (out[0].split()[1:] if out else []))
    return exe, mexe, {k: v == "1" for k, v in feats.items()}


def corpus_cases(prefixes):
    out = []
    if os.path.isdir(CORPUS):
        for fn in sorted(os.listdir(CORPUS)):
            for line in open(os.path.join(CORPUS, fn)):
                line = line.strip()
                if line and not line.startswith("#") and line.split()[0] in prefixes:
                    out.append(line)
    return out


def boundary_regs(r):
    """Operands aimed at lane / byte / bit boundaries."""
    regs = [ZERO, ONES, bytes(range(16)), bytes(range(0x80, 0x90)), bytes(range(0xf0, 0x100)),
            b"\x00\x00\x00\x80" * 4, b"\xff\xff\xff\x7f" * 4, b"\x01\x00\x00\x00" * 4, b"\x00\x80" * 8,
            b"\xff\x7f" * 8, b"\x80" * 16, b"\x7f" * 16,
            bytes.fromhex("00000080000000000000000000000000"), bytes.fromhex("00000000000000800000000000000000"),
            bytes.fromhex("ffffffff00000000ffffffff00000000"), bytes.fromhex("00000000ffffffff00000000ffffffff")]
    return regs


def single_bits():
    return [(1 << k).to_bytes(16, "little") for k in range(128)]


def rnd_reg(r):
    k = r.randrange(6)
    if k == 0:
        return bytes(r.choice([0, 255, 128, 127, 1]) for _ in range(16))
    if k == 1:
        w = r.choice([0x80000000, 0x7fffffff, 0xffffffff, 0, 1, 0xfffffffe])
        return b"".join((w if r.random() < 0.5 else r.getrandbits(32)).to_bytes(4, "little") for _ in range(4))
    return bytes(r.getrandbits(8) for _ in range(16))


UNARY_SHIFT = ["slli16", "srli16", "slli32", "srli32", "slli64", "srli64"]
UNARY_IMM = ["bslli", "bsrli", "shuf32", "shuflo", "shufhi"]
BINARY = ["or", "xor", "add32", "movess", "unpacklo", "unpackhi"]


def gen_instr(ctx, feats):
    r = ctx.rng
    cases = []

    def add(name, imm, a, b=ZERO, c=ZERO):
        cases.append("op %s %d %s %s %s" % (name, imm, a.hex(), b.hex(), c.hex()))
        ctx.count("accel.op." + name)

    bnd = boundary_regs(r)
    bits = single_bits()
    ramp = bytes(range(1, 17))
    # shifts: every count 0..width+2 (and large counts) on all-ones, a ramp and the sign patterns;
    # every single bit with the counts used by the C and the width boundaries
    for name, width in zip(UNARY_SHIFT, [16, 16, 32, 32, 64, 64]):
        for n in list(range(0, width + 3)) + [127, 128, 255]:
            for a in (ONES, ramp, bnd[5], bnd[6]):
                add(name, n, a)
        for a in bits[::(1 if not ctx.quick else 3)]:
            for n in (1, 3, 7, 8, 10, 14, 15, 17, 18, 19, 25, width - 1):
                add(name, n, a)
        for _ in range(ctx.n(60, 3000)):
            add(name, r.randrange(0, width + 2), rnd_reg(r))
    # immediates: all 256 on a ramp (every source position distinguishable) + random registers
    for name in UNARY_IMM:
        for imm in range(256):
            add(name, imm, ramp)
            if not ctx.quick or imm % 5 == 0:
                add(name, imm, rnd_reg(r))
        for a in bnd:
            add(name, r.choice([0x1B, 0xB1, 0x39, 0x50, 0xFA, 0x88, 8, 4, 15, 16]), a)
    for name in BINARY:
        for a in bnd:
            for b in (ZERO, ONES, ramp, bnd[5], bnd[7]):
                add(name, 0, a, b)
        for _ in range(ctx.n(80, 4000)):
            add(name, 0, rnd_reg(r), rnd_reg(r))
    # add32: carries across lane boundaries must not propagate
    add("add32", 0, ONES, b"\x01\x00\x00\x00" * 4)
    add("add32", 0, ONES, ONES)
    if feats.get("ssse3"):
        ramp2 = bytes(range(0x41, 0x51))
        for imm in range(256):
            add("alignr", imm, ramp, ramp2)
        for _ in range(ctx.n(80, 4000)):
            add("alignr", r.choice([0, 1, 4, 8, 12, 15, 16, 17, 20, 31, 32, 33, r.randrange(256)]), rnd_reg(r), rnd_reg(r))
        # pshufb: every control byte value in every position; the repo's SHUF table; random controls
        for v in range(256):
            ctl = bytearray(r.randrange(16) for _ in range(16))
            ctl[v % 16] = v
            add("pshufb", 0, ramp, bytes(ctl))
            add("pshufb", 0, rnd_reg(r), bytes([v] * 16))
        add("pshufb", 0, ramp, bytes([3, 2, 1, 0, 7, 6, 5, 4, 11, 10, 9, 8, 15, 14, 13, 12]))
        for _ in range(ctx.n(80, 4000)):
            add("pshufb", 0, rnd_reg(r), bytes(r.getrandbits(8) for _ in range(16)))
    else:
        ctx.notes.append("accel: CPU lacks SSSE3 - pshufb/palignr models NOT compared")
    if feats.get("sse41"):
        for imm in range(256):
            add("blend16", imm, ramp, bytes(range(0x41, 0x51)))
    if feats.get("shani"):
        for name, nops in (("rnds2", 3), ("msg1", 2), ("msg2", 2)):
            for a in bnd[:12]:
                for b in (ZERO, ONES, bnd[5], ramp):
                    add(name, 0, a, b, r.choice(bnd) if nops == 3 else ZERO)
            # a single bit in every position of each operand
            for k, bit in enumerate(bits):
                if ctx.quick and k % 2:
                    continue
                base = [rnd_reg(r) if r.random() < 0.5 else ZERO for _ in range(3)]
                for pos in range(nops):
                    ops = list(base)
                    ops[pos] = bit
                    add(name, 0, ops[0], ops[1], ops[2] if nops == 3 else ZERO)
            for _ in range(ctx.n(300, 20000)):
                add(name, 0, rnd_reg(r), rnd_reg(r), rnd_reg(r) if nops == 3 else ZERO)
    else:
        ctx.notes.append("accel: CPU lacks SHA extensions - sha256rnds2/msg1/msg2 models NOT compared")
    return cases


def check_accel_instructions(ctx):
    sub = "accel.instr"
    exe, mexe, feats = build(ctx, sub)
    if not exe:
        return
    cases = corpus_cases({"op"}) + gen_instr(ctx, feats)
    impl, st = vlib.run_sharded(exe, cases)
    vlib.sanitizer_reports(ctx, sub, st)
    model, _ = vlib.run_sharded(mexe, cases)
    # an instruction model that disagrees with the CPU is a broken tie (trusted-base item), not a
    # failing input of the property: compare() with a predicate that never claims a property failure
    vlib.compare(ctx, sub, cases, impl, model, property_pred=lambda c, a, b: (False, None))
    ctx.record(sub, cases, set(zip(cases, impl)),
               "each instruction model of X86Vec.v vs the real instruction (one intrinsic per case) on boundary operands "
               "(zero, ones, sign bits, every single bit, byte ramps), every immediate 0..255, every shift count through "
               "and past the element width, random operands; non-trivial = distinct (case, result); CPU features " +
               ",".join(k for k, v in sorted(feats.items()) if v),
               samples=[cases[0], cases[-1]])


def gen_xform(ctx, feats):
    r = ctx.rng
    H0 = bytes.fromhex("6a09e667bb67ae853c6ef372a54ff53a510e527f9b05688c1f83d9ab5be0cd19")
    pairs = []
    fixed = [(H0, bytes(64)), (H0, b"\xff" * 64), (bytes(32), bytes(64)), (b"\xff" * 32, b"\xff" * 64),
             (H0, b"\x80" + bytes(63)), (H0, b"abc\x80" + bytes(59) + b"\x18"),
             (b"\x80\x00\x00\x00" * 8, b"\x80\x00\x00\x00" * 16), (b"\x7f\xff\xff\xff" * 8, b"\x7f\xff\xff\xff" * 16)]
    pairs += fixed
    # one bit set in the block (every byte position, both nibble ends) / in the state
    for k in range(64):
        for bit in ((0x80, 0x01) if not ctx.quick else (0x80 if k % 2 else 0x01,)):
            b = bytearray(64)
            b[k] = bit
            pairs.append((H0, bytes(b)))
            ctx.count("accel.xform.single-bit-block")
    for k in range(32):
        s = bytearray(32)
        s[k] = 0x80 if k % 2 else 0x01
        pairs.append((bytes(s), bytes(range(64))))
        ctx.count("accel.xform.single-bit-state")
    for i in range(ctx.n(500, 25000)):
        kind = r.randrange(4)
        if kind == 0:
            st = bytes(r.choice([0, 255, 128, 127]) for _ in range(32))
            blk = bytes(r.choice([0, 255, 128, 127]) for _ in range(64))
            ctx.count("accel.xform.extreme-bytes")
        elif kind == 1:
            st = H0
            blk = bytes(r.getrandbits(8) for _ in range(64))
            ctx.count("accel.xform.iv-state")
        else:
            st = bytes(r.getrandbits(8) for _ in range(32))
            blk = bytes(r.getrandbits(8) for _ in range(64))
            ctx.count("accel.xform.random")
        pairs.append((st, blk))
    cases = []
    for st, blk in pairs:
        cases.append("xform-sse2 %s %s" % (st.hex(), blk.hex()))
        if feats.get("shani") and feats.get("ssse3"):
            cases.append("xform-shani %s %s" % (st.hex(), blk.hex()))
    return cases


def check_accel_transforms(ctx):
    sub = "accel.xform"
    exe, mexe, feats = build(ctx, sub)
    if not exe:
        return
    if not (feats.get("shani") and feats.get("ssse3")):
        ctx.notes.append("accel: CPU lacks SHA extensions/SSSE3 - SHA256_Transform_shani NOT run (model and proof only)")
    if not feats.get("sse2"):
        ctx.notes.append("accel: CPU lacks SSE2 - SHA256_Transform_sse2 NOT run")
        return
    cases = corpus_cases({"xform-sse2", "xform-shani"}) + gen_xform(ctx, feats)
    impl, st = vlib.run_sharded(exe, cases, env={"ASAN_OPTIONS": "detect_leaks=1"})
    vlib.sanitizer_reports(ctx, sub, st)
    model, _ = vlib.run_sharded(mexe, cases)
    spec, _ = vlib.run_sharded(mexe, ["spec " + c for c in cases])
    vlib.tri_compare(ctx, sub, cases, impl, model, spec)
    ctx.record(sub, cases, set(cases),
               "SHA256_Transform_sse2 / SHA256_Transform_shani (compiled from /repo, called directly) on one (state, block) "
               "vs the extracted statement-level models and vs FIPS 180-4 compression: fixed extremes, a single bit in every "
               "block byte / state byte, extreme-byte, IV-state and random inputs; non-trivial = distinct case",
               samples=[cases[0][:160], cases[-1][:160]])


SUBCHECKS = {"C03": [check_accel_instructions, check_accel_transforms]}
