"""datastruct/ptrheap.c and datastruct/timerqueue.c (C13) and their allocation-failure behaviour (C14).

Three things are compared on every case (one case = one whole operation sequence):
  impl  : harness/drv_heap.c built from /repo (ASan/UBSan, --wrap allocator)
  model : the extracted Coq model (coq/DS/PtrHeap.v, TimerQueue.v) - full line equality, i.e. every
          getmin after every op and the complete record-cookie notification sequence
  spec  : the property itself, evaluated below in Python on the IMPLEMENTATION's output only
          (abstract multiset of live (id, key); independent of the model)."""
import heapq
import os
import re

import vlib

SRC = ["datastruct/ptrheap.c", "datastruct/timerqueue.c", "datastruct/elasticarray.c"]
WRAPS = ["malloc", "realloc", "calloc", "free"]
ENV = {"ASAN_OPTIONS": "detect_leaks=1:abort_on_error=0:allocator_may_return_null=1"}
MAXID = 69000


def build(ctx, sub):
    exe, err = vlib.build_c("drv_heap_asan", "drv_heap.c", SRC, extra_sources=["wrap_alloc_heap.c"],
                            wraps=WRAPS, asan=True)
    if not exe:
        ctx.fail(sub, "build", "", "C driver does not build: " + err)
        return None, None
    mexe, err = vlib.build_model("heap")
    if not mexe:
        ctx.fail(sub, "tie", "", err)
        return None, None
    return exe, mexe


# --------------------------------------------------------------------------
# generators

def gen_heap_ops(r, n0, nops, krange, withcb, create=True, drain=True, weights=None):
    """One heap program.  The generator only approximates which ids are live (it cannot know how
    ties are broken); both drivers skip handle operations on ids that are not live."""
    ops = []
    nid = [1]
    live = {}

    def fresh():
        i = nid[0]
        nid[0] += 1
        return i

    def key():
        return r.randrange(krange)
    if create:
        pairs = [(fresh(), key()) for _ in range(n0)]
        live.update(pairs)
        ops.append(("C" if withcb else "c") + ",".join("%d=%d" % p for p in pairs))
    else:
        ops.append("I" if withcb else "i")
    w = weights or {"A": 30, "M": 14, "D": 16, "U": 12, "L": 12, "T": 8, "G": 2}
    kinds = list(w)
    ww = [w[k] for k in kinds]
    for _ in range(nops):
        k = r.choices(kinds, ww)[0]
        if k == "A":
            if live and r.random() < 0.03:
                i = r.choice(list(live))       # re-adding a live id: skipped by both drivers
            elif nid[0] > 3 and r.random() < 0.15:
                i = r.randrange(1, nid[0])     # an id seen before (dead ones are reused)
            else:
                i = fresh()
            kv = key()
            ops.append("A%d=%d" % (i, kv))
            live.setdefault(i, kv)
        elif k == "M":
            ops.append("M")
            if live:
                m = min(live.values())
                cands = [i for i in live if live[i] == m]
                del live[r.choice(cands)]
        elif k in "DUL":
            if not live or r.random() < 0.04:
                i = r.randrange(1, max(2, nid[0]))
            else:
                i = r.choice(list(live)) if len(live) < 64 else r.choice(r.sample(list(live), 8))
            if k == "D":
                ops.append("D%d" % i)
                live.pop(i, None)
            else:
                d = r.choice([0, 0, 1, 1, 2, 3, krange // 2 + 1, krange + 5])
                ops.append("%s%d%s%d" % (k, i, "+" if k == "U" else "-", d))
                if i in live:
                    live[i] += d if k == "U" else -d
        elif k == "T":
            ops.append("T+%d" % r.choice([0, 1, 1, 2, krange // 2 + 1, krange + 5]))
        else:
            ops.append("G")
    if drain:
        ops += ["M"] * (len(live) + 3)
    return ops


def gen_heap(ctx, fail="0"):
    r = ctx.rng
    cases = []
    n = ctx.n(1400, 30000)
    for _ in range(n):
        cls = r.random()
        if cls < 0.55:
            n0, nops = r.randrange(0, 12), r.randrange(0, 40)
            ctx.count("heap.size.0-12")
        elif cls < 0.9:
            n0, nops = r.randrange(8, 70), r.randrange(10, 160)
            ctx.count("heap.size.8-70")
        else:
            n0, nops = r.randrange(60, 400), r.randrange(50, 400)
            ctx.count("heap.size.60-400")
        kr = r.choice([1, 2, 3, 3, 5, 8, 20, 1000])
        withcb = r.random() < 0.9
        ctx.count("heap.keyrange.%d" % kr)
        ctx.count("heap.callback" if withcb else "heap.nocallback")
        cases.append("heap %s " % fail + " ".join(gen_heap_ops(r, n0, nops, kr, withcb, create=r.random() < 0.7)))
    # thousands of entries: bulk creation, interior deletes, drain
    big = ctx.n(3, 40)
    for j in range(big):
        n0 = r.choice([1000, 2047, 2048, 3000]) if j else 3000
        kr = r.choice([3, 50, 100000])
        ctx.count("heap.size.thousands")
        cases.append("heap %s " % fail + " ".join(
            gen_heap_ops(r, n0, ctx.n(300, 3000), kr, True, drain=(j % 2 == 0),
                         weights={"A": 20, "M": 20, "D": 25, "U": 12, "L": 12, "T": 8, "G": 1})))
    return cases


# far-apart times: differences of 2^31 s and more, and multiples of 2^32 s (a comparison that
# truncates the difference of two time_t values to int gets these wrong)
WIDE_BASES = [0, 0, 5, 2 ** 31 - 1, 2 ** 31, 2 ** 31 + 5, 2 ** 32, 2 ** 32 + 5, 3 * 10 ** 9, 2 ** 33, 2 ** 40]
# the whole range of a 64-bit time_t, next to ordinary times: 'never' values (the largest time_t, 2^62,
# 10^13 s), the far past, and the neighbourhood of INT64_MAX / 10^6 and of 2^63 / 10^3 (where a
# conversion to a 64-bit count of micro- or milliseconds starts to wrap); a comparison has to follow
# (tv_sec, tv_usec) itself
T_MIN, T_MAX = -2 ** 63, 2 ** 63 - 1
FAR_BASES = [0, 0, 5, 1700000000, 1700000000, 2 ** 31 + 5, -1700000000,
             T_MAX, T_MAX - 3, T_MAX - 100, T_MIN, T_MIN + 3, T_MIN + 100,
             2 ** 62, 2 ** 62 - 2, -2 ** 62, 10 ** 13, -10 ** 13, 10 ** 16, -10 ** 16, 2 ** 53, 2 ** 44,
             T_MAX // 10 ** 6, T_MAX // 10 ** 6 + 1, T_MAX // 10 ** 6 + 40, -(T_MAX // 10 ** 6) - 1, -(T_MAX // 10 ** 6) - 40,
             2 * (T_MAX // 10 ** 6) + 2, T_MAX // 1000 + 1, -(T_MAX // 1000) - 2]


def clamp_t(sec):
    return max(T_MIN, min(T_MAX, sec))


def rtv(r, span):
    if isinstance(span, tuple):        # ("wide" | "far", n): a base from the list plus a small offset
        sec = clamp_t(r.choice(FAR_BASES if span[0] == "far" else WIDE_BASES) + r.randrange(-2, span[1]))
    else:
        sec = r.randrange(-2, span)
    usec = r.choice([0, 0, 1, 499999, 999999, r.randrange(1000000)])
    return sec, usec


def gen_tq_ops(r, nops, span, drain=True):
    ops = []
    live = {}
    nid = 1
    for _ in range(nops):
        k = r.choices("ADUPG", [36, 14, 18, 28, 4])[0]
        if k == "A":
            if nid > 3 and r.random() < 0.12:
                i = r.randrange(1, nid)
            else:
                i = nid
                nid += 1
            tv = rtv(r, span)
            ops.append("A%d=%d.%d" % (i, tv[0], tv[1]))
            live.setdefault(i, tv)
        elif k == "D":
            i = r.choice(list(live)) if live and r.random() < 0.95 else r.randrange(1, max(2, nid))
            ops.append("D%d" % i)
            live.pop(i, None)
        elif k == "U":
            i = r.choice(list(live)) if live and r.random() < 0.95 else r.randrange(1, max(2, nid))
            old = live.get(i, (0, 0))
            c = r.random()
            if c < 0.2:
                tv = old
            elif c < 0.5:
                tv = (old[0], min(999999, old[1] + r.choice([1, 2, 1000])))
            elif c < 0.95:
                tv = (clamp_t(old[0] + r.randrange(1, 4)), r.choice([0, old[1], 999999]))
            else:
                tv = (clamp_t(old[0] - 1), old[1])  # not an increase (unless clamped): skipped by both drivers
            ops.append("U%d=%d.%d" % (i, tv[0], tv[1]))
            if i in live and tv >= old:
                live[i] = tv
        elif k == "P":
            if live and r.random() < 0.7:
                m = min(live.values())
                tv = r.choice([m, m, (m[0], m[1] - 1), (m[0], m[1] + 1), (clamp_t(m[0] - 1), 999999), (clamp_t(m[0] + 1), 0)])
            else:
                tv = rtv(r, span)
            ops.append("P%d.%d" % tv)
            if live:
                m = min(live.values())
                if m <= tv:
                    cands = [i for i in live if live[i] == m]
                    del live[r.choice(cands)]
        else:
            ops.append("G")
    if drain:
        if isinstance(span, tuple) and span[0] == "far":
            ops += ["P%d.999999" % T_MAX] * (len(live) + 3)
        else:
            top = (2 ** 41 + span[1]) if isinstance(span, tuple) else span
            ops += ["P%d.0" % (top + 10)] * (len(live) + 3)
    return ops


def gen_tq(ctx, fail="0"):
    r = ctx.rng
    cases = []
    for _ in range(ctx.n(1200, 25000)):
        cls = r.random()
        if cls < 0.08:
            nops, span = r.randrange(2, 60), ("wide", r.choice([1, 3, 10]))
            ctx.count("tq.wide-times")
        elif cls < 0.2:
            nops, span = r.randrange(2, 60), ("far", r.choice([1, 3, 10, 50]))
            ctx.count("tq.far-times")
        elif cls < 0.6:
            nops, span = r.randrange(0, 40), r.choice([1, 2, 3, 10])
            ctx.count("tq.ops.0-40")
        elif cls < 0.93:
            nops, span = r.randrange(30, 250), r.choice([2, 5, 20, 1000])
            ctx.count("tq.ops.30-250")
        else:
            nops, span = r.randrange(250, 900), r.choice([3, 30, 100000])
            ctx.count("tq.ops.250-900")
        cases.append("tq %s " % fail + " ".join(gen_tq_ops(r, nops, span)))
    for j in range(ctx.n(2, 30)):
        # thousands of entries: a long run of adds first
        n0 = r.choice([1500, 3000])
        span = r.choice([5, 1000])
        pre = ["A%d=%d.%d" % ((i + 1,) + rtv(r, span)) for i in range(n0)]
        rest = gen_tq_ops(r, ctx.n(200, 2000), span, drain=False)
        # shift the ids of the random part above the bulk part
        rest2 = []
        for t in rest:
            if t[0] in "ADU":
                head = t[1:].split("=")[0]
                rest2.append(t[0] + str(int(head) + (0 if r.random() < 0.6 else n0)) + t[1 + len(head):])
            else:
                rest2.append(t)
        ctx.count("tq.size.thousands")
        cases.append("tq %s " % fail + " ".join(pre + rest2 + ["P%d.0" % (span + 10)] * (n0 // 2 if j % 2 else n0 + 300)))
    return cases


# --------------------------------------------------------------------------
# the property, evaluated on the implementation's output

def split_res(tok):
    p = tok.split(":")
    while len(p) < 4:
        p.append("")
    return p[0], p[1], p[2], p[3]


def refused(ev):
    return any(e.endswith("-") for e in ev.split(",") if e)


def heap_property(case, out):
    """None if the output satisfies C13 (and, when allocation events are present, C14); else text."""
    toks = case.split()
    ops = toks[2:]
    res = out.split()
    failmode = toks[1] != "0"
    if len(res) != len(ops) + 1 or not res[-1].startswith("end"):
        return "malformed output (crash?): %r" % out[-120:]
    live = {}     # id -> key : the multiset of elements inserted and not yet deleted
    pos = {}      # id -> position most recently reported through the callback
    at = {}       # position -> id that was last reported there
    hq = []       # lazy min-heap of (key, id)
    withcb = False
    created = False
    prev_min = None

    def push(i):
        heapq.heappush(hq, (live[i], i))

    def least():
        while hq and live.get(hq[0][1]) != hq[0][0]:
            heapq.heappop(hq)
        return hq[0][0] if hq else None
    for k, (op, rt) in enumerate(zip(ops, res)):
        st, notes, mn, ev = split_res(rt)
        where = "op %d (%s): " % (k, op[:24])
        c = op[0]
        nlive_before = len(live)
        if st == "fail":
            if c not in "CcIiA":
                return where + "an operation that cannot fail reported failure"
            if not refused(ev) and failmode:
                return where + "failure reported although no allocation was refused"
            if not failmode:
                return where + "failure reported without any allocation failure being injected"
            if notes:
                return where + "notifications were made by a failed operation"
        elif st == "ok":
            if failmode and refused(ev) and c in "CcIiA":
                return where + "an allocation was refused but the operation reported success"
            if c in "CcIi":
                created = True
                withcb = c in "CI"
                if c in "Cc" and len(op) > 1:
                    for pr in op[1:].split(","):
                        i, kv = pr.split("=")
                        live[int(i)] = int(kv)
                        push(int(i))
            elif c == "A":
                i, kv = op[1:].split("=")
                live[int(i)] = int(kv)
                push(int(i))
            elif c == "M":
                if prev_min is None or prev_min not in live:
                    return where + "deletemin on a heap whose reported minimum was not a live element"
                del live[prev_min]
            elif c in "DUL":
                i = int(re.match(r"\d+", op[1:]).group(0))
                if i not in live:
                    return where + "handle operation carried out on an element that is not in the heap"
                if c == "D":
                    del live[i]
                else:
                    d = int(op[1:].split("+" if c == "U" else "-")[1])
                    live[i] += d if c == "U" else -d
                    push(i)
            elif c == "T":
                if prev_min is None or prev_min not in live:
                    return where + "increasemin on a heap whose reported minimum was not a live element"
                live[prev_min] += int(op[2:])
                push(prev_min)
        elif st == "skip" and created and withcb and c in "DUL":
            if int(re.match(r"\d+", op[1:]).group(0)) in live:
                return where + "skipped although the element is live (driver and spec disagree on liveness)"
        # notifications: the last reported positions of the live elements must stay a bijection
        touched = []
        if notes:
            if not withcb:
                return where + "callback invoked on a heap created without one"
            for nt in notes.split(","):
                i, p = nt.split("@")
                pos[int(i)] = int(p)
                touched.append(int(i))
        if withcb and created:
            n = len(live)
            for i in touched:
                if i not in live:
                    continue
                p = pos[i]
                if p >= n:
                    return where + "element %d was last told position %d but only %d elements remain" % (i, p, n)
                o = at.get(p)
                if o is not None and o != i and o in live and pos.get(o) == p:
                    return where + "elements %d and %d were both last told position %d" % (o, i, p)
            for i in touched:
                if i in live:
                    at[pos[i]] = i
            if c in "CcA" and st == "ok":
                for i in ([int(op[1:].split("=")[0])] if c == "A" else list(live)):
                    if i not in pos or (c != "A" and pos[i] >= n):
                        return where + "element %d was inserted but never told a position" % i
            if n < nlive_before:
                o = at.get(n)
                if o is not None and o in live and pos.get(o) == n:
                    return where + "element %d still believes it is at position %d after the heap shrank to %d" % (o, n, n)
        # getmin
        lk = least()
        if mn == "-":
            if live:
                return where + "getmin returned NULL but %d elements are live" % len(live)
            prev_min = None
        else:
            m = int(mn)
            if m not in live:
                return where + "getmin returned element %d which is not in the heap (deleted or never added)" % m
            if live[m] != lk:
                return where + "getmin returned element %d with key %d but the least live key is %d" % (m, live[m], lk)
            prev_min = m
    fin = res[-1]
    if ":live=0:" not in fin + ":":
        return "blocks still live after ptrheap_free: " + fin[-60:]
    if "badfree" in fin or "badcookie" in fin:
        return "bad free / wrong cookie: " + fin[-60:]
    return None


def tq_property(case, out):
    toks = case.split()
    ops = toks[2:]
    res = out.split()
    failmode = toks[1] != "0"
    if len(res) != len(ops) + 2 or not res[-1].startswith("end"):
        return "malformed output (crash?): %r" % out[-120:]
    st0, _, _, ev0 = split_res(res[0])
    if st0 == "fail" and not (failmode and refused(ev0)):
        return "timerqueue_init failed without a refused allocation"
    if st0 == "ok" and failmode and refused(ev0):
        return "timerqueue_init succeeded although an allocation was refused"
    live = {}
    hq = []

    def least():
        while hq and live.get(hq[0][1]) != hq[0][0]:
            heapq.heappop(hq)
        return hq[0][0] if hq else None
    for k, (op, rt) in enumerate(zip(ops, res[1:])):
        st, rs, mn, ev = split_res(rt)
        where = "op %d (%s): " % (k, op[:24])
        c = op[0]
        if st == "fail":
            if c != "A" or not failmode or not refused(ev):
                return where + "failure reported by an operation that cannot fail / without a refused allocation"
        elif st == "ok":
            if failmode and refused(ev) and c == "A":
                return where + "an allocation was refused but timerqueue_add returned a cookie"
            if c in "AU":
                i, tv = op[1:].split("=")
                s, u = tv.split(".")
                live[int(i)] = (int(s), int(u))
                heapq.heappush(hq, (live[int(i)], int(i)))
            elif c == "D":
                live.pop(int(op[1:]), None)
            elif c == "P":
                s, u = op[1:].split(".")
                q = (int(s), int(u))
                lk = least()
                if rs == "-":
                    if lk is not None and lk <= q:
                        return where + "nothing released although an entry with time %r <= %r is queued" % (lk, q)
                else:
                    if not rs.isdigit() or int(rs) not in live:
                        return where + "released pointer %s does not belong to a queued entry" % rs
                    t = live[int(rs)]
                    if t > q:
                        return where + "released an entry with time %r later than the query time %r" % (t, q)
                    if t != lk:
                        return where + "released an entry with time %r while %r is queued (order not non-decreasing)" % (t, lk)
                    del live[int(rs)]
        lk = least()
        want = "-" if lk is None else "%d.%d" % lk
        if st0 == "ok" and mn != want:
            return where + "getmin is %s but the least queued time is %s" % (mn, want)
    fin = res[-1]
    if ":live=0:" not in fin + ":":
        return "blocks still live after timerqueue_free: " + fin[-60:]
    if "badfree" in fin:
        return "bad free: " + fin[-60:]
    return None


# --------------------------------------------------------------------------

def corpus_cases(prefixes):
    d = os.path.join(vlib.VERIF, "corpus", "heap")
    out = []
    if os.path.isdir(d):
        for fn in sorted(os.listdir(d)):
            for line in open(os.path.join(d, fn)):
                line = line.strip()
                if line and not line.startswith("#") and line.split()[0] in prefixes:
                    out.append(line)
    return out


def short(case):
    return case if len(case) < 600 else case[:600] + " ...(%d ops)" % (len(case.split()) - 2)


def judge(ctx, sub, cases, impl, model, pred, max_report=3):
    """property failures (shortest case first) are reported before mere impl/model differences"""
    props, diffs = [], []
    for c, a, m in zip(cases, impl, model):
        if a == "<not-run>":
            ctx.count(sub + ".not-run-after-crashes")
            continue
        why = "the process crashed (sanitizer report / abort) on this case" if a == "<crashed>" else pred(c, a)
        if why is not None:
            props.append((len(c), c, a, why))
        elif a != m:
            diffs.append((len(c), c, a, m))
    nd = len(props) + len(diffs)
    for _, c, a, why in sorted(props)[:max_report]:
        ctx.fail(sub, "property", short(c), why + " :: impl=" + a[:240], property_fails=True)
    for _, c, a, m in sorted(diffs)[:max_report]:
        i = next((k for k, (x, y) in enumerate(zip(a.split(), m.split())) if x != y), -1)
        ctx.fail(sub, "diff", short(c), "first differing op %d: impl=%s model=%s" % (
            i, " ".join(a.split()[max(0, i - 1):i + 2])[:200], " ".join(m.split()[max(0, i - 1):i + 2])[:200]),
            property_fails=False)
    ctx.count(sub + ".disagreements", nd)
    # sanitizer reports last, so that the replay names the concrete case found above
    for sb, st in getattr(ctx, "heap_pending_san", []):
        vlib.sanitizer_reports(ctx, sb, st, "see the crashed / malformed case(s) of this sub-check")
    ctx.heap_pending_san = []
    return nd


def complete(line):
    return line.startswith("end") or " end" in line or line == "bad-case"


def run_impl(ctx, sub, exe, cases):
    """run_sharded, but a case on which the driver dies must not hide the results of the cases that
    shared its shard: the crashing case is marked and the cases after it are run again."""
    impl, st = vlib.run_sharded(exe, cases, env=ENV)
    ctx.heap_pending_san = getattr(ctx, "heap_pending_san", []) + [(sub, st)]
    for _ in range(8):
        todo = []
        for i, a in enumerate(impl):
            if not a.startswith("<no-output"):
                continue
            if i == 0 or not impl[i - 1].startswith("<no-output") and complete(impl[i - 1]):
                impl[i] = "<crashed>"          # first case of its shard without output: it died here
            elif impl[i - 1] == "<crashed>" or impl[i - 1].startswith("<no-output") or not complete(impl[i - 1]):
                todo.append(i)
        if not todo:
            break
        again, _ = vlib.run_sharded(exe, [cases[i] for i in todo], env=ENV)
        for i, a in zip(todo, again):
            impl[i] = a
    # whatever is still unresolved is run one case per process (bounded), so that only cases on
    # which the driver really dies are blamed
    rest = [i for i, a in enumerate(impl) if a.startswith("<no-output")]
    for i in rest[:400]:
        out, _ = vlib.run_sharded(exe, [cases[i]], shards=1, env=ENV)
        impl[i] = out[0] if not out[0].startswith("<no-output") else "<crashed>"
    for i in rest[400:]:
        impl[i] = "<not-run>"
    return impl


def run_both(ctx, sub, exe, mexe, cases):
    impl = run_impl(ctx, sub, exe, cases)
    model, _ = vlib.run_sharded(mexe, cases)
    return impl, model


def balance(cases):
    """interleave expensive and cheap cases so that the shards of run_sharded are even"""
    order = sorted(range(len(cases)), key=lambda i: -len(cases[i]))
    sh = vlib.NCPU
    per = (len(cases) + sh - 1) // sh
    buckets = [[] for _ in range(sh)]
    load = [0] * sh
    for i in order:
        b = min((j for j in range(sh) if len(buckets[j]) < per), key=lambda j: load[j])
        buckets[b].append(cases[i])
        load[b] += len(cases[i]) ** 1.3
    return [c for b in buckets for c in b]


def check_heap(ctx):
    sub = "heap"
    exe, mexe = build(ctx, sub)
    if not exe:
        return
    cases = corpus_cases(("heap",)) + balance(gen_heap(ctx))
    impl, model = run_both(ctx, sub, exe, mexe, cases)
    judge(ctx, sub, cases, impl, model, heap_property)
    ctx.record(sub, cases, set(impl),
               "ptrheap programs (create-from-array/init with and without callback, add, deletemin, delete/increase/"
               "decrease by handle, increasemin; key ranges 1..1000 so most keys are duplicated; sizes 0..3000): "
               "impl line == model line (getmin after every op + every setreccookie call) and the C13 predicate on "
               "the impl output; non-trivial = distinct impl output lines",
               samples=[cases[0][:200], cases[len(cases) // 2][:200]])


def check_timerqueue(ctx):
    sub = "timerqueue"
    exe, mexe = build(ctx, sub)
    if not exe:
        return
    cases = corpus_cases(("tq",)) + balance(gen_tq(ctx))
    impl, model = run_both(ctx, sub, exe, mexe, cases)
    judge(ctx, sub, cases, impl, model, tq_property)
    ctx.record(sub, cases, set(impl),
               "timerqueue programs (add, delete, increase, getmin, getptr with equal and distinct times, query "
               "times at/just below/just above the minimum; up to 3000 entries): impl line == model line and the "
               "C13 predicate (least time, exact pointer, nothing later than the query, non-decreasing release)",
               samples=[cases[0][:200], cases[len(cases) // 2][:200]])


def check_heap_allocfail(ctx):
    sub = "heap.allocfail"
    exe, mexe = build(ctx, sub)
    if not exe:
        return
    r = ctx.rng
    base = []
    for _ in range(ctx.n(260, 2500)):
        if r.random() < 0.55:
            kr = r.choice([1, 3, 8, 100])
            ops = gen_heap_ops(r, r.choice([0, 0, 1, 2, 3, 5, 9, 17, 40]), r.randrange(0, 60), kr,
                               r.random() < 0.85, create=r.random() < 0.6,
                               weights={"A": 40, "M": 16, "D": 16, "U": 8, "L": 8, "T": 6, "G": 1})
            base.append(("heap", ops))
        else:
            base.append(("tq", gen_tq_ops(r, r.randrange(0, 70), r.choice([2, 10, 1000]))))
    plain = ["%s 0 %s" % (k, " ".join(o)) for k, o in base]
    out0 = run_impl(ctx, sub, exe, plain)
    cases = corpus_cases(("heapf", "tqf"))
    cases = [c.replace("heapf", "heap", 1).replace("tqf", "tq", 1) for c in cases]
    for (k, o), line in zip(base, out0):
        try:
            reqs = int(line.rsplit("reqs=", 1)[1].split(":")[0])
        except (IndexError, ValueError):
            ctx.fail(sub, "crash", short(plain[len(cases) % len(plain)]), "no request count: " + line[-100:], property_fails=True)
            continue
        ks = set(range(1, reqs + 1)) if not ctx.quick or reqs <= 5 else \
            set([1, 2, 3, reqs, reqs - 1] + [r.randrange(1, reqs + 1) for _ in range(3)])
        for kk in sorted(ks):
            for mode in ("", "+"):
                if mode == "+" and ctx.quick and r.random() < 0.5:
                    continue
                cases.append("%s %d%s %s" % (k, kk, mode, " ".join(o)))
                ctx.count("allocfail.%s.%s" % (k, "persistent" if mode else "single"))
    cases = balance(cases)
    impl, model = run_both(ctx, sub, exe, mexe, cases)
    judge(ctx, sub, cases, impl, model,
          lambda c, a: heap_property(c, a) if c.startswith("heap") else tq_property(c, a))
    ctx.record(sub, cases, set(impl),
               "every base program is run once to count the library's allocation requests n, then with the k-th "
               "request refused (single) and refused from k on (persistent), k sampled (quick) or all of 1..n "
               "(thorough): impl line == model line (return values, notifications, getmin, allocation events with "
               "sizes, live blocks after free) and the C14 predicate (fail iff a fallible op saw a refusal; no "
               "notification and unchanged multiset after a failed op; deletes never fail; nothing live at the end)",
               samples=[cases[0][:200], cases[-1][:200]])


SUBCHECKS = {"C13": [check_heap, check_timerqueue], "C14": [check_heap_allocfail]}
