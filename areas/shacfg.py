"""C03, SHA-256 part: every CPU configuration of alg/sha256.c (portable, SSE2, SHA-NI+SSSE3) against
the one proven model.  Reuses the hash area's driver and extracted model; builds the driver once per
configuration from /repo with harness/cpuconfig/<cfg>.h as CPUSUPPORT_CONFIG_FILE, and a white-box
probe that reports which transform hwaccel_init() selected (a silent fallback = not covered)."""
import os

import vlib
from areas import hash as H

CFG = {
    "none": ([], {}),
    "sse2": (["alg/sha256_sse2.c", "cpusupport/cpusupport_x86_sse2.c"], {"sha256_sse2.c": ["-msse2"]}),
    "shani_ssse3": (["alg/sha256_shani.c", "alg/sha256_sse2.c", "cpusupport/cpusupport_x86_shani.c",
                     "cpusupport/cpusupport_x86_ssse3.c", "cpusupport/cpusupport_x86_sse2.c"],
                    {"sha256_shani.c": ["-msse2", "-msha", "-mssse3"], "sha256_sse2.c": ["-msse2"]}),
}
EXPECT = {"none": "software", "sse2": "sse2", "shani_ssse3": "shani"}


def build_cfg(ctx, sub, cfg):
    extra, pff = CFG[cfg]
    hdr = os.path.join(vlib.VERIF, "harness", "cpuconfig", cfg + ".h")
    exe, err = vlib.build_c("drv_hash_" + cfg, "drv_hash.c", H.SOURCES + extra + ["util/warnp.c"], asan=True, cpuconfig=hdr,
                            per_file_flags=pff)
    if not exe:
        ctx.fail(sub, "build", cfg, "driver does not build in configuration %s: %s" % (cfg, err))
        return None, None
    probe, err = vlib.build_c("probe_sha_" + cfg, "drv_shacfg_probe.c",
                              ["util/insecure_memzero.c", "util/warnp.c"] + extra, cpuconfig=hdr, per_file_flags=pff)
    sel = "?"
    if probe:
        rc, out, _ = vlib.run([probe])
        sel = out.strip()
    else:
        ctx.notes.append("probe for %s does not build: %s" % (cfg, (err or "")[-200:]))
    return exe, sel


def check_sha256_configs(ctx):
    sub = "shacfg"
    mexe, err = vlib.build_model("hash")
    if not mexe:
        ctx.fail(sub, "tie", "", err)
        return
    r = ctx.rng
    cases = []
    # single-block transforms from arbitrary states (sharpest diff), messages at block boundaries
    # with partitions, placed so that update calls alternate between buffered and direct blocks
    nx = ctx.n(400, 20000)
    for i in range(nx):
        kind = r.randrange(4)
        if kind == 0:
            st = bytes(r.randrange(256) for _ in range(32)); blk = bytes(r.randrange(256) for _ in range(64))
        elif kind == 1:
            st = bytes(r.choice([0, 255, 128, 127]) for _ in range(32)); blk = bytes(r.choice([0, 255, 128]) for _ in range(64))
        elif kind == 2:
            st = bytes.fromhex("6a09e667bb67ae853c6ef372a54ff53a510e527f9b05688c1f83d9ab5be0cd19"); blk = bytes((i + j) & 255 for j in range(64))
        else:
            st = bytes(r.randrange(256) for _ in range(32)); blk = bytes([r.randrange(256)] * 64)
        cases.append("xform-sha256 %s %s" % (st.hex(), blk.hex()))
    nm = ctx.n(250, 8000)
    for i in range(nm):
        ln = r.choice(H.BOUNDARY_LENS + [191, 192, 193, 255, 256, 1000]) if r.random() < 0.6 else r.randrange(0, 700)
        msg = bytes(r.randrange(256) for _ in range(ln))
        parts, pos = [], 0
        while pos < ln:
            k = r.choice([1, 7, 55, 56, 63, 64, 65, 128, ln - pos, r.randrange(1, ln - pos + 1)])
            k = max(1, min(k, ln - pos)); parts.append(msg[pos:pos + k]); pos += k
        if r.random() < 0.2:
            parts.insert(r.randrange(len(parts) + 1), b"")
        cases.append("sha256 s " + " ".join(H.hx(p) for p in parts) if parts else "sha256 s")
        if r.random() < 0.3:
            key = bytes(r.randrange(256) for _ in range(r.choice(H.KEY_LENS)))
            cases.append("hmac-sha256 b %s %s" % (H.hx(key), H.hx(msg)))
    model, _ = vlib.run_sharded(mexe, cases)
    spec, _ = vlib.run_sharded(mexe, ["spec " + c for c in cases])
    model = H.strip_flag(model); spec = H.strip_flag(spec)
    cfgs = ["none", "sse2", "shani_ssse3"]
    covered = []
    for cfg in cfgs:
        exe, sel = build_cfg(ctx, sub, cfg)
        if not exe:
            continue
        ctx.count("shacfg.selected.%s=%s" % (cfg, sel))
        if sel != EXPECT[cfg]:
            ctx.notes.append("configuration %s selected '%s' (expected %s): this path is NOT covered on this host/tree" % (cfg, sel, EXPECT[cfg]))
            if sel == "software" and cfg != "none":
                # hwaccel_init's own self-test rejected the accelerated transform, or the CPU lacks it
                ctx.fail(sub + "." + cfg, "diff", cfg, "accelerated SHA-256 path %s was not selected (self-test mismatch or CPU feature missing)" % cfg,
                         property_fails=False)
        else:
            covered.append(cfg)
        impl, st = vlib.run_sharded(exe, cases, env={"ASAN_OPTIONS": "detect_leaks=1"})
        vlib.sanitizer_reports(ctx, sub + "." + cfg, st)
        impl = H.strip_flag(impl)
        # xform cases have no standard-level spec line: the model (proved = FIPS compress) stands in
        sp = [s if not c.startswith("xform") else m for c, s, m in zip(cases, spec, model)]
        vlib.tri_compare(ctx, sub + "." + cfg, cases, impl, model, sp)
        ctx.evaluations += len(cases)
    ctx.record(sub, cases, set(cases),
               "SHA-256 single-block transforms from arbitrary states + block-boundary messages with update partitions + one-shot HMAC, "
               "run in the configurations %s (selected paths counted in input_distribution); non-trivial = distinct case" % ",".join(covered),
               samples=[cases[0][:140], cases[-1][:140]])


SUBCHECKS = {"C03": [check_sha256_configs]}
