"""util/parsenum.h (PARSENUM / PARSENUM_EX) and util/humansize.c against the extracted model and spec.

C16: check_parsenum (integers: impl = model = parse_spec on every (call site, string); floats: impl = model
     = an oracle computed here (strtod's answer, the wrapper's outcome, and for float targets the
     correctly rounded narrowing in rational arithmetic); plus the probe of the known deviation
     "parsenum.float-target-narrowing": a float target accepts values outside float) and check_humansize
     (humansize / humansize_parse).
C15: check_parsenum_safety (malformed stream: ASan/UBSan-clean on exact-size strings, the model
     reports no Fault, every accepted value lies inside the bounds and the type)."""
import fractions
import importlib.util
import math
import os
import re
import struct

import vlib

_spec = importlib.util.spec_from_file_location(
    "gen_parsenum_sites", os.path.join(vlib.VERIF, "tools", "gen_parsenum_sites.py"))
gsites = importlib.util.module_from_spec(_spec)
_spec.loader.exec_module(gsites)

CORPUS = os.path.join(vlib.VERIF, "corpus", "parsenum")
BLANKS = b" \t\n\v\f\r"
DIGS = b"0123456789abcdefghijklmnopqrstuvwxyz"
U64 = 2 ** 64


def hx(bs):
    return bytes(bs).hex() if bs else "-"


def hz(v):
    return ("-%x" % -v) if v < 0 else "%x" % v


def unhz(t):
    return -int(t[1:], 16) if t.startswith("-") else int(t, 16)


# --------------------------------------------------------------------------
# builds (once per process)
_built = {}


def builds(ctx, sub, opt="-O2"):
    """C driver (ASan+UBSan, compiled from VERIF_REPO's header and sources on every run), model runner,
    site table.  opt="-O0" gives the build used by the C15 sub-check: at -O2 gcc deletes loads whose
    value is unused (e.g. a `*s` tested after `state == -1` is already known), which would hide a
    source-level read past the terminator from ASan."""
    if "common" not in _built:
        inc = os.path.join(vlib.VERIF, "harness", "parsenum_sites.inc")
        sl = gsites.sites()
        stale = not os.path.exists(inc) or open(inc).read() != gsites.render_inc(sl)
        mexe, merr = vlib.build_model("parsenum")
        _built["common"] = (mexe, merr, sl, stale)
    if opt not in _built:
        _built[opt] = vlib.build_c("drv_parsenum_asan" + ("" if opt == "-O2" else "_" + opt.strip("-")),
                                   "drv_parsenum.c", ["util/humansize.c", "util/asprintf.c", "util/warnp.c"],
                                   extra_sources=["drv_parsenum_p%d.c" % k for k in range(gsites.NPARTS)],
                                   wraps=["malloc", "strdup"],      # the library's own allocations (hs: re-entry)
                                   cflags=[opt, "-fno-builtin-malloc", "-fno-builtin-strdup"], asan=True)
    mexe, merr, sl, stale = _built["common"]
    exe, err = _built[opt]
    if stale:
        ctx.fail(sub, "tie", "", "harness/parsenum_sites.inc is not what tools/gen_parsenum_sites.py generates")
        return None
    if not exe:
        ctx.fail(sub, "build", "", "C driver does not build: " + (err or "")[-1500:])
        return None
    if not mexe:
        ctx.fail(sub, "tie", "", merr)
        return None
    return exe, mexe, sl


ASAN_ENV = {"ASAN_OPTIONS": "detect_leaks=1:abort_on_error=0", "UBSAN_OPTIONS": "print_stacktrace=0"}


# --------------------------------------------------------------------------
# integer numerals

def to_base(v, b):
    if v == 0:
        return b"0"
    out = bytearray()
    while v:
        out.append(DIGS[v % b])
        v //= b
    return bytes(reversed(out))


def rcase(r, bs):
    return bytes((c - 32 if 97 <= c <= 122 and r.random() < 0.4 else c) for c in bs)


def numeral(r, v, base, plus=0.15, zeros=0.15):
    """text of the integer v in the given strtol base (0 = pick decimal / 0x / 0-octal)"""
    mag = abs(v)
    if base == 0:
        k = r.randrange(5)
        body = (b"0x" if r.random() < 0.7 else b"0X") + rcase(r, to_base(mag, 16)) if k == 0 else \
            (b"0" + to_base(mag, 8)) if k == 1 else to_base(mag, 10)
    elif base == 16 and r.random() < 0.4:
        body = (b"0x" if r.random() < 0.7 else b"0X") + rcase(r, to_base(mag, 16))
    else:
        body = rcase(r, to_base(mag, base))
        if r.random() < zeros:
            body = b"0" * r.randrange(1, 4) + body
    sign = b"-" if v < 0 else (b"+" if r.random() < plus else b"")
    return sign + body


def site_bounds(s):
    lo, hi = gsites.tlim(s["kind"], s["width"])
    if s["min"] is None:
        return lo, hi, lo, hi
    return s["min"], s["max"], lo, hi


LIMIT_POOL = [0, 2 ** 7, 2 ** 8, 2 ** 15, 2 ** 16, 2 ** 31, 2 ** 32, 2 ** 63, 2 ** 64]
JUNK = [b" ", b"x", b"z", b".", b"8", b"9", b"g", b"\x80", b"-", b"+1", b"e5", b"L", b"u", b",", b"\t", b"_",
        b"\xff", b"0x", b":1"]
MALFORMED = [b"", b" ", b"-", b"+", b"+-5", b"-+5", b"- 5", b"  -  1", b"0x", b"0X", b"0xg", b"0x0x1", b"0X1f",
             b"-0x10", b"0b1", b"08", b"09", b"0", b"-0", b"+0", b"00", b"0x0", b"zz", b"Zz", b"102", b"--1",
             b"++1", b"1 ", b" 1", b"1-", b"0x-1", b"0x+1", b"0x 1", b"\v1", b"\f-0", b"1\t", b"\xd9\xa1",
             b"\xff", b"1\xff", b"-\xff", b" \t\n\v\f\r", b" \t\n\v\f\r7", b"-0x", b"+0x", b"-0xg", b"0x0",
             b"-1", b"-18446744073709551615", b"-18446744073709551616", b"18446744073709551615",
             b"18446744073709551616", b"-9223372036854775808", b"-9223372036854775809", b"9223372036854775807",
             b"9223372036854775808", b"\xa0" + b"1", b"1\x01", b"\x01", b"0x" + b"f" * 16, b"0x1" + b"0" * 16,
             b"-0x" + b"f" * 16, b"0" * 70, b"-" + b"0" * 70 + b"1", b"1" * 64, b"1" * 65, b"9" * 30]


def int_strings(ctx, r, s, n):
    """n strings aimed at site s: limit-adjacent values, wrap-around candidates, long digit runs, decorations"""
    mn, mx, tlo, thi = site_bounds(s)
    base = s["base"]
    w = s["width"]
    out = []
    lims = [mn, mx, tlo, thi] + LIMIT_POOL
    for _ in range(n):
        k = r.randrange(100)
        if k < 38:
            v = r.choice(lims) + r.choice([-2, -1, -1, 0, 0, 1, 1, 2])
            if r.random() < 0.25:
                v = -v
            ctx.count("pn.limit_adjacent")
        elif k < 50:
            # values that wrap into range when truncated / negated modulo 2^w or 2^64
            t = r.choice([mn, mx, 0, 1, thi, r.randrange(0, 2 ** w)])
            v = t + r.choice([1, -1, 2, 3]) * r.choice([2 ** w, U64, 2 ** 32 if w < 32 else U64])
            if r.random() < 0.5:
                v = -(U64 - (t % U64))        # strtoumax negation lands on t
            ctx.count("pn.wraparound_candidate")
        elif k < 56:
            lo, hi = max(mn, tlo), min(mx, thi)
            v = r.randrange(lo, hi + 1) if lo <= hi else r.randrange(tlo, thi + 1)
            ctx.count("pn.inside_bounds")
        elif k < 64:
            v = r.getrandbits(r.choice([3, 7, 8, 15, 16, 31, 32, 33, 62, 63, 64, 65, 70]))
            if r.random() < 0.35:
                v = -v
            ctx.count("pn.random_value")
        elif k < 72:
            # digit runs around the length of 2^64 in this base (20-22 decimal digits, ...)
            b = base if base else r.choice([8, 10, 16])
            ln = len(to_base(U64, b)) + r.randrange(-1, 3)
            v = int.from_bytes(bytes(r.randrange(256) for _ in range(12)), "big") % (b ** ln)
            v = max(v, b ** (ln - 1))
            if r.random() < 0.3:
                v = -v
            ctx.count("pn.long_digit_run")
        elif k < 84:
            out.append(r.choice(MALFORMED))
            ctx.count("pn.malformed_pool")
            continue
        else:
            alpha = b"0123456789abcfxXzZ+- \t\n._gG\x80" if r.random() < 0.8 else bytes(range(1, 256))
            out.append(bytes(r.choice(alpha) for _ in range(r.randrange(0, 9))))
            ctx.count("pn.random_bytes")
            continue
        t = numeral(r, v, base)
        d = r.randrange(10)
        if d < 2:
            t = bytes(r.choice(BLANKS) for _ in range(r.randrange(1, 4))) + t
            ctx.count("pn.leading_blanks")
        d = r.randrange(10)
        if d < 2:
            t = t + r.choice(JUNK)
            ctx.count("pn.trailing_junk")
        elif d == 2:
            # a digit that is not a digit of this base
            b = base if base else 10
            t = t + bytes([DIGS[min(35, b + r.randrange(0, 3))]]) if b < 36 else t + b"!"
            ctx.count("pn.digit_beyond_base")
        out.append(t.replace(b"\0", b"1"))
    return out


def pn_case(i, s, text):
    return "pn %d %s %s" % (i, s["desc"], hx(text))


def proj(line):
    """documented outcome only: the stored value is unspecified on failure"""
    t = line.split()
    if t and t[0] in ("EINVAL", "ERANGE"):
        return t[0]
    return line


def describe(case):
    t = case.split()
    try:
        if t[0] == "hs":
            return "%s  [n = %d]" % (case, int(t[1], 16))
        raw = bytes.fromhex(t[-1]) if t[-1] != "-" else b""
        if t[0] == "pf":
            raw = bytes.fromhex(t[9]) if t[9] != "-" else b""
        return "%s  [string %r]" % (case, raw)
    except Exception:
        return case


def load_corpus(name):
    p = os.path.join(CORPUS, name)
    if not os.path.exists(p):
        return []
    out = []
    for line in open(p, "rb").read().splitlines():
        if line.startswith(b"#"):
            continue
        out.append(line.decode("latin-1").encode("latin-1").decode("unicode_escape").encode("latin-1"))
    return out


def int_cases(ctx, sl, per_site, malformed_only=False):
    r = ctx.rng
    cases = []
    isites = [(i, s) for i, s in enumerate(sl) if s["kind"] != "f"]
    corpus = load_corpus("strings.txt")
    # corpus and the pinned libc behaviours first, on one site per (type, base, trailing) class
    seen = set()
    for i, s in isites:
        key = (s["ctype"], s["base"], s["trailing"])
        if key in seen:
            continue
        seen.add(key)
        for t in corpus:
            cases.append(pn_case(i, s, t))
    ctx.count("pn.corpus", len(cases))
    for i, s in isites:
        if malformed_only:
            strs = [r.choice(MALFORMED) for _ in range(per_site // 2)]
            strs += [bytes(r.choice(b"0123456789abfxX+- \t\n\v\f\r.zZ\x80\xff") for _ in range(r.randrange(0, 12)))
                     for _ in range(per_site // 2)]
            strs += [bytes(r.choice(BLANKS) for _ in range(r.randrange(1, 40))),
                     b" " * r.randrange(1, 30) + r.choice([b"-", b"+", b"0x", b"-0x", b"0", b""]),
                     r.choice([b"", b"-", b" "]) + bytes(r.choice(b"0123456789") for _ in range(r.randrange(18, 90)))]
            ctx.count("pn.malformed_stream", len(strs))
        else:
            strs = int_strings(ctx, r, s, per_site)
        for t in strs:
            cases.append(pn_case(i, s, t))
    return cases


def in_range_pred(sl):
    def pred(case, line):
        t = case.split()
        if t[0] != "pn":
            return True
        s = sl[int(t[1])]
        o = line.split()
        if o[0] != "OK":
            return o[0] in ("EINVAL", "ERANGE")
        mn, mx, tlo, thi = site_bounds(s)
        return max(mn, tlo) <= unhz(o[1]) <= min(mx, thi)
    return pred


# --------------------------------------------------------------------------
# floats: strtod's answer computed here, independently of libc

FLOAT_RE = re.compile(
    rb"[+-]?(?:(inf(?:inity)?)|(nan(?:\([0-9A-Za-z_]*\))?)|"
    rb"(0x(?:[0-9a-f]+\.?[0-9a-f]*|\.[0-9a-f]+)(?:p[+-]?[0-9]+)?)|"
    rb"((?:[0-9]+\.?[0-9]*|\.[0-9]+)(?:e[+-]?[0-9]+)?))", re.I)


def py_strtod(text):
    """(consumed, value, erange) of strtod(text) for the strings our generator produces"""
    i = 0
    while i < len(text) and text[i] in BLANKS:
        i += 1
    m = FLOAT_RE.match(text, i)
    if not m:
        return 0, 0.0, False
    tok = m.group(0).decode()
    neg = tok.startswith("-")
    er = False
    if m.group(1):
        v = float("inf")
    elif m.group(2):
        v = float("nan")
    elif m.group(3):
        try:
            v = abs(float.fromhex(tok))
        except OverflowError:
            v, er = float("inf"), True
        if v == 0.0 and re.search(r"[1-9a-fA-F]", tok.lower().split("p")[0][2:]):
            er = True
    else:
        v = abs(float(tok))
        if math.isinf(v):
            er = True
        if v == 0.0 and re.search(r"[1-9]", tok.lower().split("e")[0]):
            er = True
    if neg:
        v = -v
    return m.end(), v, er


def dbits(v):
    """the double as 16 hex digits ("nan" for a NaN: its sign / payload are not compared)"""
    if math.isnan(v):
        return "nan"
    return "%016x" % struct.unpack("<Q", struct.pack("<d", v))[0]


FLT_MAX = float(2 ** 128 - 2 ** 104)


def narrow32(v):
    """(float)v as a binary32 pattern, correctly rounded (nearest, ties to even, overflow to infinity, gradual
    underflow), in rational arithmetic: independent of the C compiler, of libc and of the Coq model"""
    sign = 0x80000000 if math.copysign(1.0, v) < 0 else 0
    if math.isinf(v):
        return sign | 0x7f800000
    if v == 0:
        return sign
    fr = fractions.Fraction(abs(v))
    k = fr.numerator.bit_length() - fr.denominator.bit_length()
    if fractions.Fraction(2) ** k > fr:
        k -= 1
    assert fractions.Fraction(2) ** k <= fr < fractions.Fraction(2) ** (k + 1)
    q = max(k - 23, -149)
    n = round(fr / fractions.Fraction(2) ** q)          # round() of a Fraction: half to even
    if n == 2 ** 24:
        n, q = 2 ** 23, q + 1
    if q + 23 > 127:
        return sign | 0x7f800000
    if n < 2 ** 23:
        assert q == -149
        return sign | n
    return sign | ((q + 150) << 23) | (n - 2 ** 23)


def narrow32_cast(v):
    """the same through CPython's own C cast (struct 'f'), used to cross-check the oracle"""
    try:
        return struct.unpack("<I", struct.pack("<f", v))[0]
    except OverflowError:
        return (0x80000000 if v < 0 else 0) | 0x7f800000


def stored_tok(v, width):
    """what *x must hold after the assignment of the double v"""
    if math.isnan(v):
        return "nan"
    return "%08x" % narrow32(v) if width == 32 else dbits(v)


def float_oracle(s, text, consumed, v, er, mn, mx):
    """(what the code does, what the property asks) for one float call: the wrapper's tests re-stated, the value
    left in the target, and the property's extra demand that a finite value lie within the target type"""
    tok = stored_tok(v, s["width"])
    if consumed == 0 or (not s["trailing"] and consumed != len(text)):
        return "EINVAL " + tok, "EINVAL"
    if v < mn or v > mx or er:
        return "ERANGE " + tok, "ERANGE"
    if s["width"] == 32 and not math.isnan(v) and not math.isinf(v) and abs(v) > FLT_MAX:
        return "OK " + tok, "ERANGE"
    return "OK " + tok, "OK"


F_POOL = [b"0", b"-0", b"1", b"-1", b"0.5", b".5", b"5.", b"1e3", b"1E3", b"1e+3", b"1e-3", b"1.5e2", b"123.456",
          b"0x1p0", b"0x1.8p1", b"0X1P-1", b"0x.8", b"0x10", b"0x1p", b"0x", b"0xg", b"1e", b"1e+", b"1.e1", b".",
          b"-.", b"+.5", b"inf", b"INF", b"-inf", b"+Infinity", b"infinit", b"infinityx", b"nan", b"NAN", b"-nan",
          b"nan(abc)", b"nan(", b"nan()", b"nanx", b"", b" ", b"-", b"+", b"e5", b".e5", b"1e999", b"-1e999",
          b"1e-999", b"0x1p99999", b"1e300", b"1e301", b"-1e300", b"1e-300", b"1e-301", b"0.25", b"0.75",
          b"0.2499999999", b"0.7500000001", b"9223372036854775807", b"9223372036854775808",
          b"9223372036854777856", b"-9223372036854775808", b"-9223372036854777857", b"18446744073709551615",
          b"18446744073709551616", b"18446744073709555712", b"3.4028234663852886e38", b"3.5e38", b"1e39",
          b"16777217", b"0.1", b"100", b"100.00000000000001", b"99.99999999999999", b"2.5", b"2.5000000000000004",
          b"-1.5", b"-1.5000000000000002", b"1000", b"1000.0000000000001", b"0.001", b"0.00099999999999999"]


# strings aimed at the edges of float: FLT_MAX, the overflow threshold 2^128 - 2^103 (an exact tie), FLT_MIN, the
# least subnormal 2^-149 and half of it (a tie with zero), ties in the 24th bit
F_EDGE = [b"3.4028234663852886e38", b"3.4028235e38", b"3.4028236e38", b"3.40282346638528859811704183484516925440e38",
          b"340282346638528859811704183484516925440", b"340282356779733661637539395458142568448",
          b"340282356779733623858607532500980858880", b"340282356779733661637539395458142568449",
          b"340282366920938463463374607431768211456", b"1e39", b"-1e39", b"1e300", b"-1e300", b"1.7976931348623157e308",
          b"0x1.fffffep127", b"0x1.ffffffp127", b"0x1.fffffefffffffp127", b"0x1.ffffff0000001p127", b"0x1p128",
          b"-0x1.ffffffp127", b"0x1p1023", b"1e-50", b"-1e-50", b"1e-300", b"1e-45", b"1.4e-45", b"7e-46", b"7.1e-46",
          b"7.006492321624085e-46", b"7.006492321624086e-46", b"1e-38", b"1.17549435e-38", b"1.1754942e-38",
          b"1.1754943508222875e-38", b"0x1p-126", b"0x1.fffffcp-127", b"0x1p-127", b"0x1p-149", b"0x1p-150",
          b"0x1.0000000000001p-150", b"0x1.8p-149", b"0x1.4p-149", b"0x1.cp-149", b"0x1.8p-148", b"-0x1p-150",
          b"0x1p-151", b"0x1.fffffffffffffp-151", b"0x1.000001p0", b"0x1.0000008p0", b"0x1.0000018p0",
          b"0x1.00000080000001p0", b"0x1.0000017ffffffp0", b"0x1.fffffffp0", b"0x1.ffffffp-127", b"16777217", b"16777219",
          b"33554434", b"33554438", b"0.1", b"-0.1", b"1e-40", b"1e38", b"65504", b"4e38", b"2e-38"]


def edge_string(ctx, r):
    """a numeral whose double sits on / next to a rounding boundary of float, or well outside float"""
    k = r.randrange(10)
    if k < 3:
        ctx.count("pf.float_edge_pool")
        return r.choice(F_EDGE)
    if k < 7:
        # a float (any exponent, subnormals and the top binade included), moved by 0, +-1 double ulp, or to the
        # midpoint to its neighbour (+- 1 double ulp): exact ties and near-ties
        bits = r.choice([r.randrange(0, 0x7f800000), r.randrange(0, 0x00800000 * 3), r.randrange(0x7e800000, 0x7f800000)])
        f = struct.unpack("<f", struct.pack("<I", bits))[0]
        g = struct.unpack("<f", struct.pack("<I", min(bits + 1, 0x7f7fffff)))[0]
        if bits == 0x7f7fffff and r.random() < 0.7:
            g = 2.0 ** 128                      # the tie above FLT_MAX
        v = r.choice([f, (f + g) / 2, (f + g) / 2, f + (g - f) / 4])
        for _ in range(r.choice([0, 0, 1, 1, 2])):
            v = math.nextafter(v, r.choice([0.0, math.inf]))
        ctx.count("pf.float_boundary")
    else:
        # anywhere in double's range, far outside float as often as inside
        v = math.ldexp(1.0 + r.random(), r.randrange(-170, 150) if r.random() < 0.7 else r.randrange(-1000, 1000))
        ctx.count("pf.float_any_exponent")
    if abs(v) > FLT_MAX and not math.isinf(v):
        ctx.count("pf.beyond_flt_max")
    if 0 < abs(v) < 2.0 ** -126:
        ctx.count("pf.below_flt_min")
    if r.random() < 0.35:
        v = -v
    if math.isinf(v) or math.isnan(v):
        return b"1e39"
    return (v.hex() if r.random() < 0.4 else repr(v)).encode()


def pf_case(ctx, i, s, t):
    """the case line for string t at float site s (strtod's answer and the comparisons computed here)"""
    mn = s["min"] if s["min"] is not None else float("-inf")
    mx = s["max"] if s["max"] is not None else float("inf")
    consumed, v, er = py_strtod(t)
    cls = "nan" if math.isnan(v) else "inf" if math.isinf(v) else "fin"
    case = "pf %d %s %s %d %d %d %d %s %s" % (i, s["desc"], hx(t), consumed, int(er), int(v < mn), int(v > mx), cls,
                                              dbits(v))
    does, asks = float_oracle(s, t, consumed, v, er, mn, mx)
    if s["width"] == 32 and cls == "fin" and narrow32(v) != narrow32_cast(v):
        ctx.fail("parsenum.float", "tie", describe(case), "the two narrowing oracles disagree: %08x vs %08x"
                 % (narrow32(v), narrow32_cast(v)))
    return case, does, asks


def float_cases(ctx, sl, per_site):
    """-> (case lines, what the code does per the oracle, what the property asks: OK / EINVAL / ERANGE)"""
    r = ctx.rng
    cases, does, asks = [], [], []
    for i, s in enumerate(sl):
        if s["kind"] != "f":
            continue
        for _ in range(per_site):
            k = r.randrange(100)
            if k < (40 if s["width"] == 32 else 20):
                t = edge_string(ctx, r)
            elif k < 65:
                t = r.choice(F_POOL)
                ctx.count("pf.pool")
            elif k < 87:
                m = r.choice([r.randrange(0, 1000), r.randrange(0, 10 ** 17)])
                f = r.choice([b"", b".", b".%d" % r.randrange(0, 10 ** 6)])
                e = r.choice([b"", b"", b"e%d" % r.randrange(-40, 41), b"E+%d" % r.randrange(0, 300)])
                t = r.choice([b"", b"", b"-", b"+"]) + b"%d" % m + f + e
                ctx.count("pf.decimal")
            else:
                t = r.choice([b"", b"-"]) + b"0x%x.%xp%d" % (r.randrange(1, 2 ** 20), r.randrange(0, 2 ** 16),
                                                            r.randrange(-60, 61))
                ctx.count("pf.hex")
            d = r.randrange(10)
            if d == 0:
                t = bytes(r.choice(BLANKS) for _ in range(r.randrange(1, 4))) + t
            elif d == 1:
                t = t + r.choice([b" ", b"x", b"f", b"L", b"e", b"..", b"\x80", b"-", b"p1", b"inf"])
                ctx.count("pf.trailing")
            c, dz, az = pf_case(ctx, i, s, t)
            cases.append(c)
            does.append(dz)
            asks.append(az)
    return cases, does, asks


# the known deviation (property C16): float targets are range-checked as doubles and narrowed afterwards
SIG_FLOAT_NARROWING = "parsenum.float-target-narrowing"
PROBE = [("p2", None, None, b"1e300"), ("p4", 0.0, 1e308, b"1e300"), ("p2", None, None, b"3.5e38"),
         ("p2", None, None, b"-1e300")]
PROBE_UNDERFLOW = [("p2", None, None, b"1e-50"), ("p4", 0.0, 1.0, b"1e-300")]


def find_float_site(sl, form, mn, mx, width=32):
    for i, s in enumerate(sl):
        if s["kind"] == "f" and s["width"] == width and s["form"] == form and s["min"] == mn and s["max"] == mx:
            return i, s
    return None


def call_text(s, t):
    b = "" if s["min"] is None else ", %s, %s" % (s["cmin"], s["cmax"])
    return "%s x; PARSENUM(&x, \"%s\"%s)" % (s["ctype"], t.decode(), b)


def probe_float_narrowing(ctx, sub, exe, mexe, sl):
    """Runs the witnesses of C16_parsenum_float_narrowing_refuted through the compiled header on every run.
    A float target that reports success for a finite value beyond FLT_MAX is the known finding; it is
    reported once, with the signature the coordinator lists."""
    rows = []
    for form, mn, mx, t in PROBE + PROBE_UNDERFLOW:
        fs = find_float_site(sl, form, mn, mx)
        if fs is None:
            ctx.fail(sub, "tie", "", "no generated float call site %s (%r, %r) for the narrowing probe" % (form, mn, mx))
            return
        c, dz, az = pf_case(ctx, fs[0], fs[1], t)
        rows.append((fs[1], t, c, dz, az))
    cases = [x[2] for x in rows]
    impl, st = vlib.run_sharded(exe, cases, env=ASAN_ENV)
    model, _ = vlib.run_sharded(mexe, cases)
    san_reports(ctx, sub, st, cases, impl)
    # the model states what the code does (proved: C16_parsenum_float_narrowing_refuted), so it must agree here too
    vlib.tri_compare(ctx, sub, cases, impl, model, [x[3] for x in rows], describe=describe)
    seen = ["%s -> %s" % (call_text(s, t), a) for (s, t, _, _, _), a in zip(rows, impl)]
    hit = [(c, s, t, a) for (s, t, c, _, az), a in zip(rows[:len(PROBE)], impl) if a.startswith("OK") and az == "ERANGE"]
    ctx.count("pf.probe_accepted_outside_float", len(hit))
    if hit:
        c, s, t, a = hit[0]
        ctx.fail(sub, "property", describe(c),
                 "known deviation: %s returns 0 with errno 0 and leaves %s (infinity) in the float although the value "
                 "is finite, inside the requested bounds and beyond FLT_MAX: the macro compares the double with the "
                 "bounds and narrows it afterwards; the property asks ERANGE.  All observations: %s"
                 % (call_text(s, t), a.split()[-1], "; ".join(seen)),
                 property_fails=True, signature=SIG_FLOAT_NARROWING)


# --------------------------------------------------------------------------
# sub-checks

def run3(exe, mexe, cases, with_spec=True):
    impl, st = vlib.run_sharded(exe, cases, env=ASAN_ENV)
    model, _ = vlib.run_sharded(mexe, cases)
    spec = None
    if with_spec:
        spec, _ = vlib.run_sharded(mexe, ["spec " + c for c in cases])
    return impl, st, model, spec


def san_reports(ctx, sub, st, cases, impl):
    """sanitizer / crash reports, naming the first case that produced no output (the driver stops there)"""
    first = next((describe(c)[:300] for c, a in zip(cases, impl) if a.startswith("<no-output")), "")
    vlib.sanitizer_reports(ctx, sub, st, first)


def not_property(c, a, b):
    return (False, None)


def check_parsenum(ctx):
    sub = "parsenum"
    b = builds(ctx, sub)
    if not b:
        return
    exe, mexe, sl = b
    cases = int_cases(ctx, sl, ctx.n(55, 1500))
    impl, st, model, spec = run3(exe, mexe, cases)
    san_reports(ctx, sub, st, cases, impl)
    # the documented outcome: implementation = model = spec
    vlib.tri_compare(ctx, sub, cases, [proj(x) for x in impl], [proj(x) for x in model], spec, describe=describe)
    # the full observable incl. the value left in *x on failure: implementation = model
    vlib.compare(ctx, sub + ".stored", cases, impl, model, describe=describe, property_pred=not_property)
    fc, fdoes, fasks = float_cases(ctx, sl, ctx.n(90, 2500))
    fimpl, fst = vlib.run_sharded(exe, fc, env=ASAN_ENV)
    fmodel, _ = vlib.run_sharded(mexe, fc)
    san_reports(ctx, sub + ".float", fst, fc, fimpl)
    # what the code does: implementation = model (its own narrowing, proved correctly rounded) = oracle
    vlib.tri_compare(ctx, sub + ".float", fc, fimpl, fmodel, fdoes, describe=describe)
    # what the property asks: the generated cases on which the code accepts a value outside float are counted
    # here; the deviation itself is reported once, by the probe
    ctx.count("pf.generated_accepted_outside_float",
              sum(1 for a, q in zip(fimpl, fasks) if a.startswith("OK") and q == "ERANGE"))
    ctx.count("pf.generated_underflow_to_zero",
              sum(1 for c, a in zip(fc, fimpl) if a in ("OK 00000000", "OK 80000000")
                  and c.split()[-1] not in ("0000000000000000", "8000000000000000")))
    probe_float_narrowing(ctx, sub + ".float_narrowing", exe, mexe, sl)
    ok = sum(1 for x in impl if x.startswith("OK"))
    ctx.count("pn.result_ok", ok)
    ctx.count("pn.result_einval", sum(1 for x in impl if x.startswith("EINVAL")))
    ctx.count("pn.result_erange", sum(1 for x in impl if x.startswith("ERANGE")))
    ctx.record(sub, cases + fc, set(zip(cases, impl)) | set(zip(fc, fimpl)),
               "%d generated PARSENUM/PARSENUM_EX call sites (int8..64, uint8..64, size_t, (u)intmax_t, float, double; "
               "type limits, negative bounds for unsigned targets, bounds beyond the type; bases 0,2,3,7,8,10,11,16,35,36; "
               "trailing on/off) x strings adjacent to every limit, wrap-around candidates modulo 2^w and 2^64, "
               "20-70 digit runs, signs, blanks, prefixes, junk; outcome compared impl = model = parse_spec, stored "
               "value impl = model; floats (float and double targets, bounds inside / at / beyond the range of float): "
               "errno and the bit pattern left in the target impl = model = oracle, strtod's answer and the correctly "
               "rounded narrowing computed independently in Python (rational arithmetic), strings on FLT_MAX, the "
               "overflow tie 2^128-2^103, FLT_MIN, the subnormal ties, and far outside float; the known deviation "
               "(float target accepts a value beyond FLT_MAX) is probed on every run; "
               "non-trivial = distinct (case, result)" % len(sl),
               samples=[describe(cases[len(cases) // 2])[:300], describe(fc[0])[:300]])


def hs_numbers(ctx, r, n):
    vals = []
    for k in range(0, 20):
        for d in (-2, -1, 0, 1, 2):
            for m in (1, 10, 100, 999, 9999, 99999):
                v = m * 10 ** k + d
                if 0 <= v < U64:
                    vals.append(v)
    vals += [0, 1, 9, 10, 99, 100, 999, 1000, 1001, 1099, 1100, 9999, 10000, 99999, 100000, 999999, 1000000,
             U64 - 1, U64 - 2, 2 ** 63, 2 ** 63 - 1, 2 ** 32, 2 ** 32 - 1, 18 * 10 ** 18, 18 * 10 ** 18 - 1]
    ctx.count("hs.boundaries", len(vals))
    for _ in range(n):
        k = r.randrange(3)
        if k == 0:
            v = r.getrandbits(r.randrange(1, 65))
        elif k == 1:
            # just below / at / above a two- or three-digit mantissa boundary at a random scale
            e = r.randrange(0, 19)
            v = r.randrange(1, 10000) * 10 ** e + r.choice([-1, 0, 1]) * r.choice([1, 10 ** max(0, e - 1)])
        else:
            v = r.randrange(0, U64)
        vals.append(max(0, min(U64 - 1, v)))
    ctx.count("hs.random", n)
    return vals


HP_POOL = [b"", b"0", b"1", b"12", b"12 ", b"12B", b"12 B", b"12k", b"12 k", b"12kB", b"12 kB", b"12  B", b"12 kBB",
           b"12kk", b"12Bk", b" 12", b"k", b"B", b"-1", b"+1", b"1.5 kB", b"12K", b"12 m", b"12 MB", b"12 GB",
           b"12 TB", b"12 PB", b"12 EB", b"18 EB", b"19 EB", b"18446744073709551615", b"18446744073709551616",
           b"18446744073709551615 B", b"18446744073709551 k", b"18446744073709552 k", b"18446744073709 M",
           b"18446744074 G", b"18446744 T", b"18446744074 GB", b"18446 P", b"18447 P", b"18 E", b"19 E",
           b"0 E", b"000000000000000000000000000000001 E", b"99999999999999999999", b"1844674407370955161",
           b"1844674407370955162", b"12 \x80", b"12\xff", b"\xb1", b"1\x80", b"12 E ", b"12 EBx", b"12\tk"]


def hp_strings(ctx, r, n):
    out = list(HP_POOL) + load_corpus("humansize.txt")
    ctx.count("hp.pool", len(out))
    pref = b"kMGTPE"
    for _ in range(n):
        k = r.randrange(10)
        if k < 6:
            # a sentence of the language, around the overflow boundary for its prefix
            e = r.randrange(0, 7)
            lim = (U64 - 1) // 1000 ** e
            v = r.choice([lim + r.choice([-1, 0, 1, 2]), r.randrange(0, lim + 1), r.randrange(0, 1000),
                          lim * 10 + r.randrange(10), r.getrandbits(70)])
            t = b"0" * r.choice([0, 0, 0, 1, 5]) + b"%d" % max(0, v)
            t += r.choice([b"", b" "]) + (pref[e - 1:e] if e else b"") + r.choice([b"", b"B"])
            ctx.count("hp.language")
            if r.random() < 0.35:
                # mutate: insert / delete / replace one byte
                p = r.randrange(len(t) + 1)
                c = bytes([r.choice(b"0123456789 kMGTPEBb.-+xK\t\x80\xff")])
                m = r.randrange(3)
                t = t[:p] + c + t[p:] if m == 0 else t[:p] + t[p + 1:] if m == 1 else t[:p] + c + t[p + 1:]
                ctx.count("hp.mutated")
        else:
            t = bytes(r.choice(b"0123456789 kMGTPEB.\x80") for _ in range(r.randrange(0, 8)))
            ctx.count("hp.random")
        out.append(t.replace(b"\0", b"0"))
    return out


def check_humansize(ctx):
    sub = "humansize"
    b = builds(ctx, sub)
    if not b:
        return
    exe, mexe, _ = b
    r = ctx.rng
    cases = ["hs %x" % v for v in hs_numbers(ctx, r, ctx.n(2500, 60000))]
    cases += ["hp " + hx(t) for t in hp_strings(ctx, r, ctx.n(4000, 100000))]
    impl, st, model, spec = run3(exe, mexe, cases)
    san_reports(ctx, sub, st, cases, impl)

    def projhp(c, line):
        return "-1" if c.startswith("hp") and line.startswith("-1") else line
    vlib.tri_compare(ctx, sub, cases, [projhp(c, x) for c, x in zip(cases, impl)],
                     [projhp(c, x) for c, x in zip(cases, model)], spec, describe=describe)
    vlib.compare(ctx, sub + ".size", cases, impl, model, describe=describe, property_pred=not_property)
    ctx.count("hp.accepted", sum(1 for c, x in zip(cases, impl) if c.startswith("hp") and x.startswith("0 ")))
    ctx.record(sub, cases, set(zip(cases, impl)),
               "humansize on every m*10^k +-2 boundary (m in 1,10,100,999,9999,99999), 2^64-1 and random 64-bit values: "
               "impl = model = greatest representable value rendered (search over all 7480 documented forms); "
               "two requests in progress at once: in three quarters of the hs cases (chosen by the case text) humansize() of "
               "ANOTHER size runs inside the allocation the outer call makes (malloc / strdup of the library interposed) and "
               "is compared with the same call made alone beforehand (`!other-request-disturbed`); the outer result must "
               "still be the model's; "
               "humansize_parse on the language digits ' '? [kMGTPE]? B? around the per-prefix overflow limit, "
               "one-byte mutations and random strings: impl = model = hs_parse_spec",
               samples=[cases[0], describe(cases[-1])[:200]])


def check_parsenum_safety(ctx):
    """C15: the number and size parsers on the malformed stream"""
    sub = "parsenum.safety"
    b = builds(ctx, sub, opt="-O0")
    if not b:
        return
    exe, mexe, sl = b
    r = ctx.rng
    cases = int_cases(ctx, sl, ctx.n(16, 400), malformed_only=True)
    ni = len(cases)
    cases += float_cases(ctx, sl, ctx.n(25, 500))[0]
    nf = len(cases)
    hp = hp_strings(ctx, r, ctx.n(1500, 40000))
    hp += [bytes(r.choice(b"0123456789") for _ in range(r.randrange(18, 60))) + r.choice([b"", b" ", b" E", b"kB"])
           for _ in range(200)]
    cases += ["hp " + hx(t) for t in hp]
    impl, st = vlib.run_sharded(exe, cases, env=ASAN_ENV)
    model, _ = vlib.run_sharded(mexe, cases)
    san_reports(ctx, sub, st, cases, impl)
    vlib.tri_compare(ctx, sub, cases, impl, model, None, describe=describe)
    pred = in_range_pred(sl)
    bad = 0
    for idx, (c, a, m) in enumerate(zip(cases, impl, model)):
        if m in ("fault", "assert", "fuel"):
            bad += 1
            if bad <= 3:
                ctx.fail(sub, "property", describe(c), "model reports %s (a read outside the string)" % m,
                         property_fails=False)
        ok = True
        if idx < ni:
            ok = pred(c, a)
        elif idx >= nf:
            o = a.split()
            ok = len(o) == 2 and o[0] in ("0", "-1") and 0 <= unhz(o[1]) < U64
        if not ok:
            bad += 1
            if bad <= 3:
                ctx.fail(sub, "property", describe(c), "result outside the documented range: " + a, property_fails=True)
    ctx.record(sub, cases, set(zip(cases, impl)),
               "malformed stream (sign / prefix / blanks only, over-long digit runs, bytes >= 0x80, every pinned libc "
               "corner) through all integer call sites, float sites and humansize_parse, each string in a malloc of "
               "exactly strlen+1 under ASan+UBSan; model must not Fault; accepted values must lie inside bounds and type",
               samples=[describe(cases[0])[:200], describe(cases[-1])[:200]])


SUBCHECKS = {"C16": [check_parsenum, check_humansize], "C15": [check_parsenum_safety]}
