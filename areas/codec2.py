"""codec2: util/b64encode.c, util/sysendian.h, util/sock.c (numeric forms) + util/sock_util.c,
aws/aws_readkeys.c, util/readpass_file.c -- correspondence of the C with the extracted model
(coq/Util/{B64,Endian,Sock,LineFiles}.v) and with independent oracles (the Coq specs, and
Python's base64 / struct / socket for the address forms)."""
import base64
import glob
import os
import re
import socket
import struct

import vlib

SOURCES = ["util/b64encode.c", "util/sock.c", "util/sock_util.c", "util/asprintf.c",
           "util/insecure_memzero.c", "aws/aws_readkeys.c", "util/readpass_file.c"]
ASAN_ENV = {"ASAN_OPTIONS": "detect_leaks=1:abort_on_error=0:detect_stack_use_after_return=0",
            "UBSAN_OPTIONS": "print_stacktrace=0"}


def hx(bs):
    bs = bytes(bs)
    return bs.hex() if bs else "-"


def unhx(tok):
    return b"" if tok == "-" else bytes.fromhex(tok)


WARNP_WRAPS = ["getaddrinfo", "syslog", "vsyslog", "__syslog_chk", "__vsyslog_chk", "openlog", "closelog"]


def build(ctx, sub, real_warnp=False):
    """real_warnp: the library's util/warnp.c is linked instead of the driver's silent stand-ins
    (syslog(3) and friends interposed so that nothing reaches the system log)."""
    if real_warnp:
        exe, err = vlib.build_c("drv_codec2_warnp_asan", "drv_codec2.c", SOURCES + ["util/warnp.c"],
                                cflags=["-DDRV_REAL_WARNP", "-D_DEFAULT_SOURCE"], wraps=WARNP_WRAPS, asan=True)
    else:
        exe, err = vlib.build_c("drv_codec2_asan", "drv_codec2.c", SOURCES, wraps=["getaddrinfo"], asan=True)
    if not exe:
        ctx.fail(sub, "build", "", "C driver does not build: " + (err or "")[-1500:])
        return None, None
    mexe, err = vlib.build_model("codec2")
    if not mexe:
        ctx.fail(sub, "tie", "", err)
        return None, None
    return exe, mexe


def corpus(prefixes):
    """Minimised cases kept from earlier failures: run first."""
    out = []
    for p in sorted(glob.glob(os.path.join(vlib.VERIF, "corpus", "codec2", "*.txt"))):
        for line in open(p):
            line = line.strip()
            if line and not line.startswith("#") and line.split()[0] in prefixes:
                out.append(line)
    return out


def run_impl(ctx, sub, exe, cases, env=None, label=""):
    """The implementation on every case; sanitizer reports and crashes become failures.
    Returns (output lines, [(rc, stderr)])."""
    e = dict(ASAN_ENV)
    e.update(env or {})
    impl, st = vlib.run_sharded(exe, cases, env=e)
    # a crashed / sanitizer-stopped shard shows as <no-output>: its first missing line is the input
    # the implementation died on; record that first so that the replay names a concrete input
    prev = ""
    for c, a in zip(cases, impl):
        if a.startswith("<no-output") and not prev.startswith("<no-output"):
            msg = next((re.search(r"(ERROR: AddressSanitizer[^\n]*|[^\n]*runtime error:[^\n]*)", e_).group(1)
                        for rc, e_ in st if re.search(r"ERROR: AddressSanitizer|runtime error:", e_)), "no sanitizer text")
            ctx.fail(sub, "sanitizer", c, (label + " " if label else "") +
                     "implementation stopped on this input (crash or sanitizer report): " + msg[:200],
                     property_fails=True)
            break
        prev = a
    vlib.sanitizer_reports(ctx, sub, st, label)
    return impl, st


def run_all(ctx, sub, cases, spec_cases=None, py_spec=None, rule="", describe=None, real_warnp=False,
            syslog_verbs=None, no_model=()):
    """impl vs model on every case; impl vs Coq spec where spec_cases[i] is not None;
    impl vs python oracle where py_spec[i] is not None.
    real_warnp: the build with the library's own util/warnp.c (messages to stderr).
    syslog_verbs: a second pass of the cases with these verbs through the same build after
    warnp_syslog(1) (VERIF_WARNP_MODE=syslog); same expected results.
    no_model: indices of cases not given to the model runner (list-based memory: quadratic in the
    string length); they need a python oracle, against which alone the implementation is compared."""
    exe, mexe = build(ctx, sub, real_warnp)
    if not exe:
        return None
    impl, st = run_impl(ctx, sub, exe, cases, env={"VERIF_WARNP_MODE": "stderr"} if real_warnp else None)
    skip = set(no_model)
    midx = [i for i in range(len(cases)) if i not in skip]
    mout, _ = vlib.run_sharded(mexe, [cases[i] for i in midx])
    model = [None] * len(cases)
    for i, o in zip(midx, mout):
        model[i] = o
    for i in skip:
        if py_spec is None or py_spec[i] is None:
            ctx.fail(sub, "tie", cases[i][:200], "case without model run and without oracle")
        model[i] = py_spec[i] if py_spec is not None and py_spec[i] is not None else "<not-run>"
    ctx.count(sub + ".not_given_to_model", len(skip))
    spec = None
    if spec_cases is not None:
        idx = [i for i, c in enumerate(spec_cases) if c is not None]
        sout, _ = vlib.run_sharded(mexe, ["spec " + spec_cases[i] for i in idx])
        spec = [None] * len(cases)
        for i, o in zip(idx, sout):
            spec[i] = o
    if py_spec is not None:
        spec = spec or [None] * len(cases)
        for i, o in enumerate(py_spec):
            if o is not None:
                if spec[i] is not None and spec[i] != o:
                    ctx.fail(sub, "tie", cases[i], "the two oracles disagree: coq-spec=%s python=%s" % (spec[i][:200], o[:200]))
                spec[i] = o
    vlib.tri_compare(ctx, sub, cases, impl, model, spec, describe=describe)
    ctx.record(sub, cases, set(zip((c.split()[0] for c in cases), impl)), rule,
               samples=[cases[0][:120], cases[len(cases) // 2][:120]])
    if real_warnp and syslog_verbs:
        idx = [i for i, c in enumerate(cases) if c.split()[0] in syslog_verbs]
        sub_cases = [cases[i] for i in idx]
        impl2, st2 = run_impl(ctx, sub, exe, sub_cases, env={"VERIF_WARNP_MODE": "syslog"}, label="[VERIF_WARNP_MODE=syslog, build drv_codec2_warnp_asan]")
        vlib.tri_compare(ctx, sub, sub_cases, impl2, [model[i] for i in idx],
                         [spec[i] for i in idx] if spec is not None else None,
                         describe=lambda c: "[VERIF_WARNP_MODE=syslog] " + (describe(c) if describe else c))
        lines = sum(int(m.group(1)) for rc, e_ in st2 for m in [re.search(r"drv_codec2: syslog-lines (\d+)", e_)] if m)
        stray = sum(int(m.group(1)) for rc, e_ in st for m in [re.search(r"drv_codec2: syslog-lines (\d+)", e_)] if m)
        ctx.count(sub + ".syslog_lines", lines)
        if lines == 0 or stray != 0:
            ctx.fail(sub, "tie", "", "reporting modes not exercised as intended: %d lines reached the interposed syslog in "
                     "syslog mode, %d in stderr mode" % (lines, stray))
        ctx.record(sub + "-syslog", sub_cases, set(zip((c.split()[0] for c in sub_cases), impl2)),
                   "the same cases with the library's util/warnp.c in SYSLOG mode (warnp_syslog(1); syslog/vsyslog "
                   "interposed): every rejection message is formatted into warnp's fixed-size line buffer",
                   samples=[sub_cases[0][:120]])
    return impl


# --------------------------------------------------------------------------------------------
# base-64

B64 = b"ABCDEFGHIJKLMNOPQRSTUVWXYZabcdefghijklmnopqrstuvwxyz0123456789+/"
B64RE = re.compile(rb"[A-Za-z0-9+/]*={0,2}")


def py_b64dec(s):
    """RFC 4648 decoding with Python's base64 (accepting non-zero trailing bits)."""
    if len(s) % 4 != 0 or not B64RE.fullmatch(s):
        return None
    return base64.b64decode(s)


def gen_b64_bytes(ctx, n):
    r = ctx.rng
    out = [bytes(range(256)), bytes(range(255, -1, -1)), bytes(range(1, 256)), bytes(range(2, 256))]
    for ln in list(range(0, 50)) + [254, 255, 256, 257, 765, 766, 767, 1000]:
        out.append(bytes(r.randrange(256) for _ in range(ln)))
        ctx.count("b64.enc.len_mod3=%d" % (ln % 3))
    for b in (0, 255, 0x55, 0xaa):
        for ln in (1, 2, 3, 4, 5):
            out.append(bytes([b]) * ln)
    for _ in range(n):
        ln = r.randrange(0, 40)
        out.append(bytes(r.randrange(256) for _ in range(ln)))
        ctx.count("b64.enc.len_mod3=%d" % (ln % 3))
    return out


def gen_b64_candidates(ctx, n):
    """Candidate encodings: valid, non-zero trailing bits, wrong length, padding in wrong places,
    non-alphabet / NUL / high characters at every position."""
    r = ctx.rng
    out = [b"", b"=", b"==", b"===", b"====", b"A===", b"AA==", b"AAA=", b"AAAA", b"AB==", b"AAB=", b"A",
           b"AA", b"AAA", b"AA=", b"AA=A", b"A=AA", b"=AAA", b"AA==AAAA", b"AAAA====", b"AAAAAA==", b"AAAAA===",
           b"AAAAAAA=", b"AA==\x00", b"\x00\x00\x00\x00", b"AAA\x00", b"////", b"++++", b"----", b"____",
           b"AAA\n", b"AA A", b"\xff\xff\xff\xff", b"QUJD", b"QUI=", b"QR==", b"QUJDRA==", b"QUJDREU=",
           b"=" * 8, b"A=======", b"AAAAAAA\x00"]
    near = b"=\x00-_ \n\r.,:;@[`{\x7f\x80\xc1\xff*!$"
    for _ in range(n):
        ln = r.randrange(0, 16)
        raw = bytes(r.randrange(256) for _ in range(ln))
        s = bytearray(base64.b64encode(raw))
        kind = r.randrange(10)
        if kind == 0 and s:
            # every position in turn gets a non-alphabet character (a few per base string)
            for pos in range(len(s)):
                t = bytearray(s)
                t[pos] = r.choice(near)
                out.append(bytes(t))
            ctx.count("b64.dec.badchar_every_pos")
            continue
        if kind == 1 and s:
            s = s[:r.randrange(len(s))]
            ctx.count("b64.dec.truncated")
        elif kind == 2:
            s += bytes(r.choice(B64 + b"=") for _ in range(r.randrange(1, 4)))
            ctx.count("b64.dec.extended")
        elif kind == 3 and s:
            s[r.randrange(len(s))] = ord("=")
            ctx.count("b64.dec.pad_inside")
        elif kind == 4 and len(s) >= 4 and s[-1] == ord("="):
            # non-zero trailing bits: change the last digit before the padding
            k = len(s) - 2 if s[-2] != ord("=") else len(s) - 3
            s[k] = r.choice(B64)
            ctx.count("b64.dec.trailing_bits")
        elif kind == 5 and s:
            s[r.randrange(len(s))] = r.randrange(256)
            ctx.count("b64.dec.randbyte")
        elif kind == 6 and s:
            s[r.randrange(len(s))] = 0
            ctx.count("b64.dec.nul")
        elif kind == 7 and len(s) >= 4:
            # unpadded / over-padded tails
            s = s.rstrip(b"=") + b"=" * r.randrange(0, 4)
            ctx.count("b64.dec.padcount")
        else:
            ctx.count("b64.dec.valid")
        out.append(bytes(s))
    return out


def b64_cases(ctx, n_enc, n_dec):
    cases, specs, py = [], [], []
    for c in corpus({"b64enc", "b64dec", "b64decfull"}):
        cases.append(c)
        specs.append(c if not c.startswith("b64decfull") else None)
        py.append(None)
    for b in gen_b64_bytes(ctx, n_enc):
        c = "b64enc " + hx(b)
        cases.append(c)
        specs.append(c)
        py.append("ok " + hx(base64.b64encode(b) + b"\0"))
    for i, s in enumerate(gen_b64_candidates(ctx, n_dec)):
        c = "b64dec " + hx(s)
        d = py_b64dec(s)
        cases.append(c)
        specs.append(c)
        py.append("ok none" if d is None else "ok " + hx(d))
        ctx.count("b64.dec.accepted" if d is not None else "b64.dec.rejected")
        if i % 3 == 0:
            cases.append("b64decfull " + hx(s))
            specs.append(None)
            py.append(None)
    return cases, specs, py


def check_b64(ctx):
    cases, specs, py = b64_cases(ctx, ctx.n(3000, 100000), ctx.n(6000, 150000))
    run_all(ctx, "b64", cases, specs, py,
            "b64encode on all byte values and lengths 0..1000 (every length mod 3) against the RFC 4648 spec and "
            "Python base64; b64decode on valid encodings, non-zero trailing bits, truncated/extended strings, '=' "
            "and non-alphabet/NUL/high bytes at every position against the spec decoder and Python; whole output "
            "object and outlen against the model; non-trivial = distinct (kind, result)")


def check_b64_safety(ctx):
    cases, specs, py = b64_cases(ctx, ctx.n(500, 15000), ctx.n(7000, 200000))
    impl = run_all(ctx, "b64-safety", cases, specs, py,
                   "b64decode/b64encode under ASan+UBSan with input and output in exact-size allocations "
                   "(in: inlen bytes, out: (inlen/4)*3 resp. b64len+1 bytes); outlen within (inlen/4)*3")
    for c, a in zip(cases, impl or []):
        if "out-of-range" in a:
            ctx.fail("b64-safety", "property", c, "outlen exceeds (inlen/4)*3: " + a, property_fails=True)


# --------------------------------------------------------------------------------------------
# endian

FNS = [("be16", 2, ">H"), ("be32", 4, ">I"), ("be64", 8, ">Q"), ("le16", 2, "<H"), ("le32", 4, "<I"), ("le64", 8, "<Q")]


def pattern(n):
    return bytes((i * 7 + 3) & 255 for i in range(n))


def check_endian(ctx):
    r = ctx.rng
    cases, py = [], []
    for c in corpus({"endenc", "enddec"}):
        cases.append(c)
        py.append(None)
    n = ctx.n(100, 3000)
    for fn, w, fmt in FNS:
        top = (1 << (8 * w)) - 1
        vals = [0, 1, top, top - 1, 0x0102030405060708 & top, 0x8000000000000000 >> (64 - 8 * w), 0xff, 0xff00 & top,
                0x80, 0x7f] + [1 << k for k in range(0, 8 * w, 5)] + [r.randrange(top + 1) for _ in range(n)]
        for off in range(8):                      # every alignment of the store
            for x in vals:
                buflen = off + w + r.randrange(0, 4)
                cases.append("endenc %s %d %d %x" % (fn, off, buflen, x))
                b = bytearray(pattern(buflen))
                b[off:off + w] = struct.pack(fmt, x)
                py.append("ok %s %x" % (hx(b), x))
                ctx.count("endian.enc.%s" % fn)
            for _ in range(n // 2 + 4):
                buflen = off + w + r.randrange(0, 4)
                b = bytes(r.choice([0, 0xff, 0x80, r.randrange(256)]) for _ in range(buflen))
                cases.append("enddec %s %d %s" % (fn, off, hx(b)))
                py.append("ok %x" % struct.unpack(fmt, b[off:off + w])[0])
                ctx.count("endian.dec.%s" % fn)
    run_all(ctx, "endian", cases, cases, py,
            "be/le 16/32/64 enc at every offset 0..7 of an exact-size byte buffer (whole buffer compared: only the "
            "N/8 target bytes change) followed by dec (round trip on the implementation); dec on random buffers; "
            "against the byte-order spec and Python struct")


# --------------------------------------------------------------------------------------------
# socket addresses

AF_INET, AF_INET6, AF_UNIX, SOCK_STREAM = socket.AF_INET, socket.AF_INET6, socket.AF_UNIX, socket.SOCK_STREAM
SUN_PATH = 108


def sockaddr_in(port, a4):
    return struct.pack("=H", AF_INET) + struct.pack(">H", port) + a4 + b"\0" * 8


def sockaddr_in6(port, a16):
    return struct.pack("=H", AF_INET6) + struct.pack(">H", port) + b"\0" * 4 + a16 + b"\0" * 4


def sockaddr_un(path):
    return struct.pack("=H", AF_UNIX) + path + b"\0" * (SUN_PATH - len(path))


def sa_line(fam, typ, name):
    return "%d %d %s" % (fam & 0xffffffff, typ & 0xffffffff, hx(name))


def rand_a4(r):
    return bytes(r.choice([0, 1, 9, 10, 99, 100, 127, 199, 200, 255, r.randrange(256)]) for _ in range(4))


def rand_a16(r):
    k = r.randrange(8)
    if k == 0:
        return bytes(16)
    if k == 1:
        return bytes(15) + b"\x01"
    if k == 2:
        return bytes(10) + b"\xff\xff" + rand_a4(r)          # ::ffff:1.2.3.4
    if k == 3:
        return bytes(12) + rand_a4(r)                         # ::1.2.3.4
    if k == 4:
        w = [r.choice([0, 0, 0, 1, 0xffff, r.randrange(65536)]) for _ in range(8)]
        return b"".join(struct.pack(">H", x) for x in w)
    if k == 5:
        return bytes(r.choice([0, 0, 0, 1, 255]) for _ in range(16))
    return bytes(r.randrange(256) for _ in range(16))


def v6_forms(r, a16):
    """Several spellings of one IPv6 address."""
    w = struct.unpack(">8H", a16)
    canon = socket.inet_ntop(AF_INET6, a16)
    forms = [canon, canon.upper(), ":".join("%x" % x for x in w), ":".join("%04x" % x for x in w),
             ":".join("%04X" % x for x in w)]
    forms.append(":".join("%x" % x for x in w[:6]) + ":" + socket.inet_ntop(AF_INET, a16[12:]))
    return forms


def rand_port(r):
    return r.choice([1, 1, 2, 9, 10, 80, 99, 100, 443, 999, 1000, 9999, 10000, 32767, 32768, 65534, 65535, 65535,
                     r.randrange(1, 65536)])


def rand_path(r, ln):
    alpha = b"abcxyz/._-0189 :[]\x80\xff"
    return b"/" + bytes(r.choice(alpha) for _ in range(ln - 1))


def gen_resolve_valid(ctx, n):
    """(string, expected result line) for literals whose denotation is known."""
    r = ctx.rng
    out = []
    for _ in range(n):
        k = r.randrange(3)
        p = rand_port(r)
        if k == 0:
            a = rand_a4(r)
            s = "[%s]:%d" % (socket.inet_ntop(AF_INET, a), p)
            out.append((s.encode(), "addrs " + sa_line(AF_INET, SOCK_STREAM, sockaddr_in(p, a))))
            ctx.count("sock.resolve.ipv4")
        elif k == 1:
            a = rand_a16(r)
            f = r.choice(v6_forms(r, a))
            if ":" not in f:
                continue
            s = "[%s]:%d" % (f, p)
            out.append((s.encode(), "addrs " + sa_line(AF_INET6, SOCK_STREAM, sockaddr_in6(p, a))))
            ctx.count("sock.resolve.ipv6")
        else:
            ln = r.choice([1, 2, 3, 10, 50, 100, 105, 106, 107, r.randrange(1, 108)])
            path = rand_path(r, ln)
            out.append((path, "addrs " + sa_line(AF_UNIX, SOCK_STREAM, sockaddr_un(path))))
            ctx.count("sock.resolve.unix")
    # port spellings the library's own number parser accepts
    for ps, p in [("+80", 80), (" 80", 80), ("\t\n 80", 80), ("080", 80), ("0000000000000000000001", 1), ("65535", 65535),
                  ("+65535", 65535), ("1", 1)]:
        out.append((("[1.2.3.4]:" + ps).encode(), "addrs " + sa_line(AF_INET, SOCK_STREAM, sockaddr_in(p, bytes([1, 2, 3, 4])))))
        out.append((("[::1]:" + ps).encode(), "addrs " + sa_line(AF_INET6, SOCK_STREAM, sockaddr_in6(p, bytes(15) + b"\1"))))
    for lit, a in [("::", bytes(16)), ("::1", bytes(15) + b"\1"), ("1::", b"\0\1" + bytes(14)),
                   ("::ffff:1.2.3.4", bytes(10) + b"\xff\xff\1\2\3\4"), ("::1.2.3.4", bytes(12) + b"\1\2\3\4"),
                   ("1:2:3:4:5:6:7:8", bytes([0, 1, 0, 2, 0, 3, 0, 4, 0, 5, 0, 6, 0, 7, 0, 8])),
                   ("1:2:3:4:5:6:1.2.3.4", bytes([0, 1, 0, 2, 0, 3, 0, 4, 0, 5, 0, 6, 1, 2, 3, 4])),
                   ("fe80::1", b"\xfe\x80" + bytes(13) + b"\1"), ("FFFF::", b"\xff\xff" + bytes(14))]:
        for p in (1, 65535):
            out.append((("[%s]:%d" % (lit, p)).encode(), "addrs " + sa_line(AF_INET6, SOCK_STREAM, sockaddr_in6(p, a))))
    return out


def gen_resolve_hostile(ctx, n):
    """Malformed numeric forms: stray brackets and colons, bad ports, over-long paths, high bytes.
    Strings never contain NUL (they are C strings)."""
    r = ctx.rng
    fixed = [b"", b":", b"::", b"[", b"]", b"[]", b"[:", b"]:", b"[]:", b"[]:80", b"[:80", b"]:80", b"[:]:80", b"[::]:",
             b"[1.2.3.4]", b"[1.2.3.4]:", b"[1.2.3.4]:0", b"[1.2.3.4]:65536", b"[1.2.3.4]:-1", b"[1.2.3.4]:80 ",
             b"[1.2.3.4]:8 0", b"[1.2.3.4]:0x50", b"[1.2.3.4]:80:", b"[1.2.3.4]80", b"[1.2.3.4:80", b"1.2.3.4]:80",
             b"[[1.2.3.4]]:80", b"[1.2.3.4]]:80", b"[[1.2.3.4]:80", b"[1.2.3.4] :80", b"[ 1.2.3.4]:80", b"[1.2.3.4 ]:80",
             b"[1.2.3]:80", b"[1.2.3.4.5]:80", b"[01.2.3.4]:80", b"[256.2.3.4]:80", b"[1..3.4]:80", b"[.1.2.3.4]:80",
             b"[1.2.3.4.]:80", b"[::1]:", b"[::1]:0", b"[::1]:65536", b"[::1]:99999999999999999999", b"[:::]:80",
             b"[1::2::3]:80", b"[::1]80", b"[::1", b"::1]:80", b"[::1%lo]:80", b"[::g]:80", b"[12345::]:80",
             b"[1:2:3:4:5:6:7:8:9]:80", b"[::1.2.3]:80", b"[]:", b"[a]:b", b"[:1]:1", b"[1:]:1",
             b"[1.2.3.4]:+", b"[1.2.3.4]:-", b"[1.2.3.4]:-0", b"[1.2.3.4]:+0", b"[1.2.3.4]:9223372036854775808",
             b"[1.2.3.4]:18446744073709551617", b"[1.2.3.4]:\xff", b"[\xff]:1", b"[1.2.3.4]:1\xff", b"[::\xff]:1"]
    out = list(fixed)
    for ln in (107, 108, 109, 110, 111, 120, 200, 1000):
        out.append(rand_path(r, ln))
        ctx.count("sock.resolve.unix_len=%d" % ln)
    out += [b"/", b"/" * 107, b"/" * 108, b"/:[]", b"/[1.2.3.4]:80"]
    alpha = b"[]::..0123456789af/ +-x%\x80\xff"
    valid = [s for s, _ in gen_resolve_valid(ctx, n // 3 + 5) if not s.startswith(b"/")]
    for _ in range(n):
        k = r.randrange(4)
        if k == 0 and valid:
            s = bytearray(r.choice(valid))
            for _ in range(r.randrange(1, 3)):
                op, pos = r.randrange(3), r.randrange(len(s) + 1)
                if op == 0:
                    s.insert(pos, r.choice(alpha))
                elif op == 1 and len(s) > 1:
                    del s[min(pos, len(s) - 1)]
                elif s:
                    s[min(pos, len(s) - 1)] = r.choice(alpha)
            ctx.count("sock.resolve.mutated")
        elif k == 1:
            s = b"[" + bytes(r.choice(alpha) for _ in range(r.randrange(0, 12)))
            ctx.count("sock.resolve.bracket_garbage")
        elif k == 2:
            s = bytes(r.choice(alpha) for _ in range(r.randrange(0, 14)))
            ctx.count("sock.resolve.garbage")
        else:
            s = b"[" + bytes(r.choice(b"0123456789.") for _ in range(r.randrange(0, 16))) + b"]:" + \
                bytes(r.choice(b"0123456789 +-") for _ in range(r.randrange(0, 7)))
            ctx.count("sock.resolve.digits")
        out.append(bytes(s).replace(b"\0", b"0"))
    return out


def rand_unix_name(r):
    """An AF_UNIX name of any shape: too short to reach sun_path, without terminator, terminator in
    the middle, full sockaddr_un without terminator, longer than sockaddr_un."""
    k = r.randrange(6)
    fam = struct.pack("=H", AF_UNIX)
    if k == 0:
        return fam[:r.randrange(0, 3)]                                     # 0, 1, 2 bytes
    if k == 1:
        return fam + bytes(r.randrange(1, 256) for _ in range(r.choice([1, 2, 4, 20, 107, 108, r.randrange(1, 120)])))
    if k == 2:
        body = bytes(r.randrange(1, 256) for _ in range(r.randrange(0, 20)))
        return fam + body + b"\0" + bytes(r.randrange(256) for _ in range(r.randrange(0, 5)))
    if k == 3:
        return fam + bytes(r.choice([47, 97, 255]) for _ in range(SUN_PATH))  # full size, no NUL
    if k == 4:
        return fam + bytes(r.randrange(256) for _ in range(r.choice([109, 110, 128, 300])))
    return bytes(r.randrange(256) for _ in range(r.choice([0, 1, 2, 3, 15, 16, 109, 110, 111, r.randrange(0, 130)])))


def rand_sa(ctx):
    """(fam, type, name) of a socket address: mostly well-formed, sometimes arbitrary.  AF_UNIX names
    of every shape are included (since the repair F14 the printer is bounded by namelen)."""
    r = ctx.rng
    k = r.randrange(7)
    if k == 0:
        return AF_INET, SOCK_STREAM, sockaddr_in(r.choice([0, rand_port(r)]), rand_a4(r))
    if k == 1:
        return AF_INET6, SOCK_STREAM, sockaddr_in6(r.choice([0, rand_port(r)]), rand_a16(r))
    if k == 2:
        return AF_UNIX, SOCK_STREAM, sockaddr_un(rand_path(r, r.randrange(1, 108)))
    if k == 3:
        return r.choice([0, 1, 2, 10, 3, 0xffffffff, 0x80000000]), r.choice([0, 1, 2, 5, 0xffffffff]), \
            bytes(r.randrange(256) for _ in range(r.choice([0, 1, 2, 15, 16, 17, 27, 28, 29, 110, r.randrange(0, 130)])))
    if k == 4:
        # right family, wrong length
        fam = r.choice([AF_INET, AF_INET6, AF_UNIX])
        return fam, SOCK_STREAM, bytes(r.randrange(256) for _ in range(r.choice([0, 1, 2, 3, 15, 16, 17, 27, 28, 29, 109, 110, 111])))
    ctx.count("sock.unix_name_any_shape")
    return AF_UNIX, r.choice([1, 2]), rand_unix_name(r)


# Regression witnesses of finding F14 (repaired): serialised AF_UNIX addresses whose name has no NUL
# inside the block or stops at the sun_path offset.  The decoder accepts them; the printer used to
# strdup() sun_path without consulting namelen.  (bytes, what prettyprint(deserialize(.)) gives)
UNTERMINATED_UNIX = [
    (struct.pack("=iiI", AF_UNIX, SOCK_STREAM, 6) + struct.pack("=H", AF_UNIX) + b"/bcd", "str " + b"/bcd".hex()),
    (struct.pack("=iiI", AF_UNIX, SOCK_STREAM, 2) + struct.pack("=H", AF_UNIX), "str -"),
    (struct.pack("=iiI", AF_UNIX, SOCK_STREAM, 1) + b"\1", "null"),
    (struct.pack("=iiI", AF_UNIX, SOCK_STREAM, 110) + struct.pack("=H", AF_UNIX) + b"/" + b"p" * 107,
     "str " + (b"/" + b"p" * 107).hex())]


def rand_numeric(r):
    """One numeric / Unix-path address string with what it denotes: (string, fam, name, printed form)."""
    k = r.randrange(3)
    p = rand_port(r)
    if k == 0:
        a = rand_a4(r)
        canon = "[%s]:%d" % (socket.inet_ntop(AF_INET, a), p)
        return canon.encode(), AF_INET, sockaddr_in(p, a), canon.encode()
    if k == 1:
        a = rand_a16(r)
        f = r.choice([f for f in v6_forms(r, a) if ":" in f])
        return ("[%s]:%d" % (f, p)).encode(), AF_INET6, sockaddr_in6(p, a), \
            ("[%s]:%d" % (socket.inet_ntop(AF_INET6, a), p)).encode()
    path = rand_path(r, r.choice([1, 2, 3, 10, 50, 106, 107, r.randrange(1, 108)]))
    return path, AF_UNIX, sockaddr_un(path), path


def multi_cases(ctx, n):
    """Histories over several addresses that are alive at the same time (a listening address and a
    target address, a list of targets, ...): "+<string>" resolves into the next slot, "-<k>" releases
    slot k.  Shapes: with and without an address resolved and released BEFORE the others; 2..6
    addresses all held together and then released in any order; releases between resolves (a slot
    released while others stay); the same address twice; a rejected string in between.  After every
    step every held address is printed, duplicated, serialised and compared with every other one.
    Addresses are values: the expected line is put together from the single-address results."""
    r = ctx.rng
    out = []
    for it in range(n):
        ops, slots, want = [], [], []       # slots: None or (entry text, key)

        def snap():
            alive = [(i, s) for i, s in enumerate(slots) if s is not None]
            cmpd = "".join("0" if a[1][1] == b[1][1] else "1" for x, a in enumerate(alive) for b in alive[x + 1:])
            want.append("[" + "".join("%d=%s " % (i, s[0]) for i, s in alive) + "cmp=" + cmpd + "]")

        def resolve(bad=False, again=None):
            if bad:
                ops.append("+" + hx(r.choice([b"[1.2.3.4]:0", b"[::1]:65536", b"[1.2.3]:80", b"/" + b"p" * 108, b"[::g]:1"])))
                slots.append(None)
            else:
                s, fam, nm, printed = again if again is not None else rand_numeric(r)
                ln = sa_line(fam, SOCK_STREAM, nm)
                ser = struct.pack("=iiI", fam, SOCK_STREAM, len(nm)) + nm
                ops.append("+" + hx(s))
                slots.append(("%s/%s/%s/%s" % (ln, hx(printed), ln, hx(ser)), (fam, nm)))
                made.append((s, fam, nm, printed))
            snap()

        def release(k):
            ops.append("-%d" % k)
            slots[k] = None
            snap()
        made = []
        shape = it % 4
        if shape != 3:                       # an address of an earlier phase of the program, already released
            resolve()
            release(0)
        k = r.choice([2, 2, 3, 4, 5, 6])
        for j in range(k):
            if shape == 2 and j and r.randrange(3) == 0:
                alive = [i for i, s in enumerate(slots) if s is not None]
                if alive:
                    release(r.choice(alive))
            if r.randrange(12) == 0:
                resolve(bad=True)
            resolve(again=r.choice(made) if made and r.randrange(8) == 0 else None)
        alive = [i for i, s in enumerate(slots) if s is not None]
        r.shuffle(alive)
        for i in alive[:r.randrange(len(alive) + 1)]:      # out-of-order releases; the rest at the end of the case
            release(i)
            if r.randrange(4) == 0 and len(slots) < 12:
                resolve()
        out.append(("multi " + ",".join(ops), "".join(want)))
        ctx.count("sock.multi.shape=%d" % shape)
        ctx.count("sock.multi.addresses=%d" % k)
    return out


def sock_cases(ctx, n):
    r = ctx.rng
    cases, py = [], []

    def add(c, want=None):
        cases.append(c)
        py.append(want)
    for c in corpus({"resolve", "pp", "ser", "deser", "deserpp", "cmp", "dup", "ensure", "rtpp", "rtser", "multi"}):
        add(c)
    for c, want in multi_cases(ctx, max(40, n // 10)):
        add(c, want)
    for s, want in gen_resolve_valid(ctx, n):
        add("resolve " + hx(s), want)
    for s in gen_resolve_hostile(ctx, n // 2):
        add("resolve " + hx(s))
    # printing and resolving back: the predicate resolve(prettyprint(sa)) == sa on the implementation
    for _ in range(n):
        k = r.randrange(3)
        p = rand_port(r)
        if k == 0:
            a = rand_a4(r)
            nm, fam = sockaddr_in(p, a), AF_INET
            want = "rt %s same" % hx(("[%s]:%d" % (socket.inet_ntop(AF_INET, a), p)).encode())
        elif k == 1:
            a = rand_a16(r)
            nm, fam = sockaddr_in6(p, a), AF_INET6
            want = "rt %s same" % hx(("[%s]:%d" % (socket.inet_ntop(AF_INET6, a), p)).encode())
        else:
            path = rand_path(r, r.choice([1, 2, 50, 106, 107, r.randrange(1, 108)]))
            nm, fam = sockaddr_un(path), AF_UNIX
            want = "rt %s same" % hx(path)
        add("rtpp " + sa_line(fam, SOCK_STREAM, nm), want)
        ctx.count("sock.roundtrip.print_resolve")
    for b, want in UNTERMINATED_UNIX:
        add("deserpp " + hx(b), want)
    for _ in range(n):
        fam, typ, nm = rand_sa(ctx)
        ln = sa_line(fam, typ, nm)
        add("deserpp " + hx(struct.pack("=III", fam, typ, len(nm)) + nm))
        add("rtpp " + ln)
        add("rtser " + ln, "rt same")
        add("dup " + ln, "sa " + ln)
        add("ser " + ln, "ok " + hx(struct.pack("=iiI", fam if fam < 2 ** 31 else fam - 2 ** 32,
                                                 typ if typ < 2 ** 31 else typ - 2 ** 32, len(nm)) + nm))
        add("cmp %s %s" % (ln, ln), "ok 0")
        add("pp " + ln)
        # a differing partner: one field or one byte changed, or a length change
        k = r.randrange(5)
        f2, t2, n2 = fam, typ, bytearray(nm)
        if k == 0:
            f2 = (fam + 1) & 0xffffffff
        elif k == 1:
            t2 = (typ ^ 0x100) & 0xffffffff
        elif k == 2 and n2:
            n2[r.randrange(len(n2))] ^= 1 << r.randrange(8)
        elif k == 3:
            n2 += b"\0"
        elif n2:
            n2 = n2[:-1]
        same = (f2, t2, bytes(n2)) == (fam, typ, nm)
        add("cmp %s %s" % (ln, sa_line(f2, t2, bytes(n2))), "ok 0" if same else "ok 1")
        ctx.count("sock.ser_dup_cmp")
    for s in [b"", b":", b"/", b"/a:b", b"host", b"host:80", b"[", b"[1.2.3.4]", b"[1.2.3.4]:80", b"[::1]", b"[::1]:80",
              b"[::1", b":80", b"a:", b"[]:", b"[]", b"]", b"[a]b:c", b"[a:b"] + \
            [bytes(r.choice(b"[]:/ab0") for _ in range(r.randrange(0, 8))) for _ in range(n // 2)]:
        add("ensure " + hx(s))
        ctx.count("sock.ensure_port")
    return cases, py


def check_sock(ctx):
    cases, py = sock_cases(ctx, ctx.n(2000, 50000))
    run_all(ctx, "sock", cases, None, py,
            "sock_resolve on IPv4/IPv6 literals in all spellings (::, ::ffff:a.b.c.d, upper case, leading zeros), ports "
            "1..65535 and their accepted spellings, Unix paths up to 107 bytes, against the address they denote "
            "(Python struct/socket) and the model; resolve(prettyprint(sa)) == sa, deserialize(serialize(sa)) == sa, "
            "dup, cmp evaluated on the implementation itself; histories over 2..6 addresses alive at the same time (with "
            "and without an address released earlier in the process, releases in any order, equal addresses, a rejected "
            "string in between) with print/dup/serialize of every held address and cmp of every pair after every step; "
            "malformed forms against the model; prettyprint, "
            "deserialize-then-prettyprint and print-then-resolve on addresses of every family and name shape "
            "(AF_UNIX names unterminated, short, over-long; F14 witnesses) against the model")


def gen_deser(ctx, n):
    """Serialised addresses with every inconsistent namelen, truncations, hostile headers."""
    r = ctx.rng
    out = [b""] + [bytes(k) for k in range(1, 14)] + [b"\xff" * k for k in range(1, 14)]
    for _ in range(n):
        fam, typ, nm = rand_sa(ctx)
        real = len(nm)
        for claimed in {real, real - 1, real + 1, 0, 1, real + 12, max(0, real - 12), 0xffffffff, 0xfffffff4, 0xfffffff3,
                        0x80000000, 0x7fffffff, 0x100 + real, r.randrange(0, 2 ** 32)}:
            if claimed < 0:
                continue
            b = struct.pack("=III", fam & 0xffffffff, typ & 0xffffffff, claimed & 0xffffffff) + nm
            out.append(b)
            ctx.count("sock.deser.namelen_consistent" if claimed == real else "sock.deser.namelen_inconsistent")
        b = struct.pack("=III", fam & 0xffffffff, typ & 0xffffffff, real) + nm
        out.append(b[:r.randrange(len(b) + 1)])
        ctx.count("sock.deser.truncated")
    return out


# Rejection messages of util/sock.c that quote untrusted text: (prefix of the address, fill byte,
# suffix, length of the message text around the quoted part, name).  The quoted part is the whole
# address for the Unix path; the address up to the last ':' for a stray bracket; the bracket content
# for a bad literal; the text after the last ':' for a bad port.
LONG_FORMS = [(b"/", b"a", b"", len("socket path too long: ") + 1, "unix_path"),
              (b"[127.0.0.1]:", b"9", b"", len("Invalid port number: "), "bad_port"),
              (b"[127.0.0.1]:8", b" ", b"x", len("Invalid port number: ") + 2, "bad_port_trailing"),
              (b"[", b"x", b"]:80", len("Error parsing IP address: "), "bad_v4_literal"),
              (b"[:", b"f", b"]:80", len("Error parsing IP address: ") + 1, "bad_v6_literal"),
              (b"[", b"1", b":80", len("Invalid [IP address]: ") + 1, "stray_bracket"),
              (b"[", b"x", b"]", len("Address must contain port number: ") + 2, "missing_port")]


def warnp_line_max():
    """WARNP_SYSLOG_MAX_LINE of the tree under test (4095 in the unchanged tree)."""
    try:
        m = re.search(r"#define\s+WARNP_SYSLOG_MAX_LINE\s+(\d+)", open(vlib.repo_src("util/warnp.h")).read())
        v = int(m.group(1)) if m else 4095
    except OSError:
        v = 4095
    return v if 64 <= v <= 60000 else 4095


def gen_resolve_long(ctx):
    """Rejected addresses whose warning text is about as long as warnp's syslog line buffer
    (WARNP_SYSLOG_MAX_LINE, 4095 characters + NUL): message lengths 4000..4200 in steps of 8, every
    length within -15..+17 of the macro's value, and addresses of 8192 and 70000 bytes, for every rejection
    message that quotes its input.  All are rejected ("fail").  Yields (address, message length or None)."""
    mx = warnp_line_max()
    msg_lens = sorted(set(range(4000, 4201, 8)) | set(range(mx - 15, mx + 18)))
    out = []
    for pre, fill, suf, fixed, name in LONG_FORMS:
        for m in msg_lens:
            out.append((pre + fill * (m - fixed) + suf, m))
            ctx.count("sock.resolve.long.%s" % name)
        for total in (8192, 70000):
            out.append((pre + fill * (total - len(pre) - len(suf)) + suf, None))
            ctx.count("sock.resolve.long.%s" % name)
    return out


def check_sock_safety(ctx):
    n = ctx.n(1500, 40000)
    cases, py = [], []
    for c in corpus({"resolve", "deser", "deserpp", "pp", "ensure"}):
        cases.append(c)
        py.append(None)
    for b, want in UNTERMINATED_UNIX:                 # regression F14
        cases.append("deserpp " + hx(b))
        py.append(want)
    for s in gen_resolve_hostile(ctx, 3 * n):
        cases.append("resolve " + hx(s))
        py.append(None)
        cases.append("ensure " + hx(s))
        py.append(None)
    # the model runner sees the long addresses around the line-buffer size only (quick tier: message
    # lengths 4095..4097; thorough: all up to 8192 bytes); the others are compared with "fail" alone
    skip_model = set()
    mx = warnp_line_max()
    for s, m in gen_resolve_long(ctx):
        if not ((m is not None and mx <= m <= mx + 2) or (ctx.tier == "thorough" and len(s) <= 8192)):
            skip_model.add(len(cases))
        cases.append("resolve " + hx(s))
        py.append("fail")
    for s, want in gen_resolve_valid(ctx, n // 2):
        cases.append("resolve " + hx(s))
        py.append(want)
    for b in gen_deser(ctx, n // 2):
        cases.append("deser " + hx(b))
        py.append(None)
    # a decoded address is handed on to sock_addr_prettyprint: every family with every name length
    # around sizeof(sockaddr_in) = 16, sizeof(sockaddr_in6) = 28, sizeof(sockaddr_un) = 110 and well
    # beyond (the printer copies the name into a fixed-size object on its stack; AF_UNIX names with
    # and without terminator, shorter than the sun_path offset, longer than sockaddr_un)
    r = ctx.rng
    for _ in range(n // 2):
        fam, typ, nm = rand_sa(ctx)
        cases.append("pp %d %d %s" % (fam, typ, hx(nm)))
        py.append(None)
        cases.append("deserpp " + hx(struct.pack("=III", fam & 0xffffffff, typ & 0xffffffff, len(nm)) + nm))
        py.append(None)
    for fam in (AF_INET, AF_INET6, AF_UNIX):
        for ln in [0, 1, 2, 3, 8, 15, 16, 17, 18, 24, 27, 28, 29, 30, 32, 48, 64, 109, 110, 111, 128, 300]:
            cases.append("pp %d %d %s" % (fam, SOCK_STREAM, hx(bytes(r.randrange(256) for _ in range(ln)))))
            py.append(None)
            ctx.count("sock.pp.namelen_sweep")
    # shuffled so that the long addresses (slow in the model) are spread over the shards
    order = list(range(len(cases)))
    r.shuffle(order)
    no_model = [k for k, i in enumerate(order) if i in skip_model]
    cases, py = [cases[i] for i in order], [py[i] for i in order]
    run_all(ctx, "sock-safety", cases, None, py,
            "sock_resolve / sock_addr_ensure_port on bracketed and Unix-path strings with stray brackets, colons, bad "
            "ports, paths of 107..1000 bytes, and rejected addresses of 4000..4200, 8192 and 70000 bytes for every "
            "rejection message that quotes its input (exact strlen+1 allocations); sock_addr_deserialize on buffers "
            "with every inconsistent namelen and every truncation (exact-size allocations), decoded addresses of every "
            "family and name shape (AF_UNIX names unterminated, short, over-long; F14 witnesses) handed to "
            "sock_addr_prettyprint; under ASan+UBSan with the library's own util/warnp.c reporting to stderr, "
            "results against the model (rejected addresses of 4 kB and more: against the model at message lengths 4095..4097, "
            "otherwise against the known result 'fail')",
            real_warnp=True, syslog_verbs={"resolve"}, no_model=no_model)


# --------------------------------------------------------------------------------------------
# line files

def gen_files(ctx, n, bufsize, key_lines):
    r = ctx.rng
    out = [b"", b"\n", b"\r\n", b"\0", b"\0\n", b"=", b"=\n", b"a", b"a\n", b"a\r", b"a\r\n", b"a\n\n", b"a\nb", b"a\nb\n",
           b"\n\n", b"a\0b\n", b"a\0b", b"\0\0\0", b"a=b", b"a=b\n"]
    body = b"ACCESS_KEY_ID=idid\nACCESS_KEY_SECRET=secret\n"
    if key_lines:
        out += [body, body[:-1], body.replace(b"\n", b"\r\n"), body + body, body + b"X=1\n", b"X=1\n" + body,
                b"ACCESS_KEY_SECRET=s\nACCESS_KEY_ID=i\n", b"ACCESS_KEY_ID=\nACCESS_KEY_SECRET=\n", body + b"junk",
                b"ACCESS_KEY_ID=a=b\nACCESS_KEY_SECRET==\n", b"ACCESS_KEY_ID=i\n", b"ACCESS_KEY_ID\nACCESS_KEY_SECRET=s\n",
                b"ACCESS_KEY_ID=i\nACCESS_KEY_ID=j\nACCESS_KEY_SECRET=s\n", b"ACCESS_KEY_ID=i\0x\nACCESS_KEY_SECRET=s\n",
                b"ACCESS_KEY_IDX=i\nACCESS_KEY_SECRET=s\n", b"ACCESS_KEY_I=i\n", b"ACCESS_KEY_ID=i\n\nACCESS_KEY_SECRET=s\n",
                body + b"\0", b"ACCESS_KEY_ID=i\rACCESS_KEY_SECRET=s\n"]
    # lines around the buffer size: bufsize-2 .. bufsize+2 characters, with and without terminator
    for ln in [bufsize - 3, bufsize - 2, bufsize - 1, bufsize, bufsize + 1, bufsize + 2, 2 * bufsize - 2, 2 * bufsize - 1,
               2 * bufsize, 2 * bufsize + 1, 3 * bufsize]:
        for term in (b"", b"\n", b"\r\n"):
            filler = bytes(r.choice(b"abcXYZ019") for _ in range(ln))
            out.append(filler + term)
            ctx.count("files.longline")
            if key_lines:
                k = b"ACCESS_KEY_ID="
                out.append(k + filler[len(k):] + term + b"ACCESS_KEY_SECRET=s\n")
                out.append(b"ACCESS_KEY_SECRET=s\n" + k + filler[len(k):] + term)
                out.append(filler[:ln // 2] + b"=" + filler[ln // 2 + 1:] + term)
            f2 = bytearray(filler)
            f2[r.randrange(len(f2))] = 0
            out.append(bytes(f2) + term)
            out.append(filler + term + b"x")
            out.append(filler + term + b"\n")
    for _ in range(n):
        k = r.randrange(5)
        if k == 0 and key_lines:
            s = bytearray(body)
            for _ in range(r.randrange(1, 4)):
                pos = r.randrange(len(s) + 1)
                op = r.randrange(3)
                if op == 0:
                    s.insert(pos, r.choice(b"\0\n\r=A x\xff"))
                elif op == 1 and s:
                    del s[min(pos, len(s) - 1)]
                elif s:
                    s[min(pos, len(s) - 1)] = r.choice(b"\0\n\r=A x\xff")
            ctx.count("files.mutated_keyfile")
        elif k == 1:
            s = bytes(r.choice(b"ab=\n\r\0") for _ in range(r.randrange(0, 12)))
            ctx.count("files.small_garbage")
        elif k == 2:
            s = bytes(r.randrange(256) for _ in range(r.randrange(0, 64)))
            ctx.count("files.random_bytes")
        elif k == 3:
            ln = r.randrange(0, 40)
            s = bytes(r.choice(b"abc \t") for _ in range(ln)) + r.choice([b"", b"\n", b"\r\n", b"\r", b"\n\n", b"\nx", b"\0\n"])
            ctx.count("files.one_line")
        else:
            parts = []
            for _ in range(r.randrange(1, 4)):
                parts.append(r.choice([b"ACCESS_KEY_ID", b"ACCESS_KEY_SECRET", b"ACCESS_KEY", b"X", b""]) +
                             r.choice([b"=", b"=", b"", b"=="]) + bytes(r.choice(b"abc=\0") for _ in range(r.randrange(0, 6))) +
                             r.choice([b"\n", b"\n", b"\r\n", b""]))
            s = b"".join(parts)
            ctx.count("files.key_like")
        out.append(bytes(s))
    return out


def check_linefiles_safety(ctx):
    n = ctx.n(1200, 30000)
    gen = ["aws " + hx(f) for f in gen_files(ctx, n, 1024, True)]
    gen += ["rp " + hx(f) for f in gen_files(ctx, n, 2048, False)]
    ctx.rng.shuffle(gen)          # spread the long-line cases (slow in the model) over the shards
    cases = corpus({"aws", "rp"}) + gen
    run_all(ctx, "linefiles-safety", cases, None, None,
            "aws_readkeys / readpass_file on files (scratch dir under /tmp) with lines of bufsize-3..3*bufsize "
            "characters with/without terminator, NUL bytes, CR/LF mixes, missing/duplicate keys, under ASan+UBSan "
            "(stack buffers), results against the fgets-based model; the library's own util/warnp.c linked, every "
            "case in stderr mode and again in syslog mode (these readers quote the file name only, never content)",
            real_warnp=True, syslog_verbs={"aws", "rp"})


SUBCHECKS = {"C17": [check_b64, check_endian, check_sock],
             "C15": [check_b64_safety, check_sock_safety, check_linefiles_safety]}
