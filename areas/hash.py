"""alg/sha256.c, alg/sha1.c, alg/md5.c (portable paths): digests, HMACs, PBKDF2-HMAC-SHA256.

Correspondence of the compiled C (ASan/UBSan build, no CPU acceleration configured) with the
extracted Gallina model (coq/Alg/HashRepo.v: the model instantiated with the constants the
translator regenerates from the C) and with the extracted standards (coq/Alg/*Spec.v).
C01: digest bytes.  C20: the context object is all-zero bytes after Final.
"""
import glob
import os

import vlib

SOURCES = ["alg/sha256.c", "alg/sha1.c", "alg/md5.c", "util/insecure_memzero.c"]
ALGS = ("sha256", "sha1", "md5")
BOUNDARY_LENS = [0, 1, 54, 55, 56, 57, 62, 63, 64, 65, 66, 118, 119, 120, 121, 122, 127, 128, 129]
KEY_LENS = [0, 1, 63, 64, 65, 100, 131, 200]


def hx(bs):
    b = bytes(bs)
    return b.hex() if b else "-"


def build(ctx, sub):
    # the portable C path is this area's subject: an empty CPUSUPPORT configuration
    exe, err = vlib.build_c("drv_hash_asan", "drv_hash.c", SOURCES, asan=True, cpuconfig="/dev/null")
    if not exe:
        ctx.fail(sub, "build", "", "C driver does not build: " + err)
        return None, None
    mexe, err = vlib.build_model("hash")
    if not mexe:
        ctx.fail(sub, "tie", "", err)
        return None, None
    return exe, mexe


def corpus(prefixes):
    out = []
    d = os.path.join(vlib.VERIF, "corpus", "hash")
    for p in sorted(glob.glob(os.path.join(d, "*.txt"))):
        for line in open(p):
            line = line.strip()
            if line and not line.startswith("#") and line.split()[0].startswith(prefixes):
                out.append(line)
    return out


def replay_cases(ctx, sub):
    rp = getattr(ctx, "replay", None)
    if not rp:
        return None
    cs = [f["case"] for f in rp.get("failures", []) if f.get("sub") == sub and f.get("case")]
    fi = rp.get("failing_input")
    if fi and fi.get("sub") == sub and fi.get("case") and fi["case"] not in cs:
        cs.insert(0, fi["case"])
    return cs


# ---------------------------------------------------------------------------
# partitions of a message into Update calls, aimed at the case splits of update_body:
# len < 64 - r (copy only), len = 64 - r (finish block exactly), len = 64 - r +- 1, whole blocks
# straight from the source, empty parts (early return), one byte per call.

def partition(ctx, msg, kind, tag):
    r = ctx.rng
    n = len(msg)
    cuts = []
    if kind == "one" or n == 0:
        ctx.count(tag + ".part.one")
        parts = [msg]
        if kind == "empties":
            parts = [b"", msg, b"", b""]
        elif kind == "none":
            parts = []
        return parts
    if kind == "fill":          # second part ends exactly at a block boundary
        a = r.randrange(0, n + 1)
        b = min(n, a + (64 - a % 64))
        cuts = [a, b]
        ctx.count(tag + ".part.cut_at_64-r")
    elif kind == "fill-1":
        a = r.randrange(0, n + 1)
        b = min(n, a + max(0, 63 - a % 64))
        cuts = [a, b]
        ctx.count(tag + ".part.cut_at_64-r-1")
    elif kind == "fill+1":
        a = r.randrange(0, n + 1)
        b = min(n, a + (65 - a % 64))
        cuts = [a, b]
        ctx.count(tag + ".part.cut_at_64-r+1")
    elif kind == "bytes":
        cuts = list(range(1, n))
        ctx.count(tag + ".part.one_byte_each")
    elif kind == "blocks":      # cuts at multiples of 64 and multi-block parts
        cuts = sorted(set(64 * r.randrange(0, n // 64 + 1) for _ in range(r.randrange(1, 4))))
        ctx.count(tag + ".part.block_aligned")
    else:
        cuts = sorted(r.randrange(0, n + 1) for _ in range(r.randrange(1, 6)))
        ctx.count(tag + ".part.random")
    cuts = [0] + [c for c in cuts if 0 <= c <= n] + [n]
    cuts.sort()
    parts = [msg[cuts[i]:cuts[i + 1]] for i in range(len(cuts) - 1)]
    if kind == "empties" or r.randrange(4) == 0:
        k = r.randrange(0, len(parts) + 1)
        parts.insert(k, b"")
        ctx.count(tag + ".part.with_empty")
    return parts


PART_KINDS = ["one", "fill", "fill-1", "fill+1", "bytes", "blocks", "random", "random", "empties"]


def rand_bytes(ctx, n):
    k = ctx.rng.randrange(8)
    if k == 0:
        return bytes([ctx.rng.choice([0, 0xff, 0x80])]) * n
    return bytes(ctx.rng.getrandbits(8) for _ in range(n))


def gen_lengths(ctx, nrand, maxlen):
    ls = list(BOUNDARY_LENS)
    for _ in range(nrand):
        ls.append(ctx.rng.randrange(0, maxlen + 1))
    return ls


def gen_digest(ctx):
    r = ctx.rng
    cases = []
    for alg in ALGS:
        cases.append("%s s" % alg)                                   # Init; Final
        for ln in gen_lengths(ctx, ctx.n(150, 3000), 400):
            msg = rand_bytes(ctx, ln)
            kinds = PART_KINDS if ln in BOUNDARY_LENS else [r.choice(PART_KINDS), r.choice(PART_KINDS)]
            for kind in kinds:
                if kind == "bytes" and ln > 140:
                    kind = "random"
                parts = partition(ctx, msg, kind, "digest")
                cases.append("%s s %s" % (alg, " ".join(hx(p) for p in parts)))
            cases.append("%s b %s" % (alg, hx(msg)))
            ctx.count("digest.len.%s" % ("boundary" if ln in BOUNDARY_LENS else "random"), 1)
        if not ctx.quick:
            for ln in (65536, 65535 + r.randrange(0, 130)):
                msg = rand_bytes(ctx, ln)
                cases.append("%s b %s" % (alg, hx(msg)))
                parts = partition(ctx, msg, "random", "digest")
                cases.append("%s s %s" % (alg, " ".join(hx(p) for p in parts)))
                ctx.count("digest.len.64KiB")
    return cases


def gen_hmac(ctx):
    r = ctx.rng
    cases = []
    for alg in ALGS:
        klens = list(KEY_LENS) + [r.randrange(0, 260) for _ in range(ctx.n(20, 400))]
        for kl in klens:
            key = rand_bytes(ctx, kl)
            lens = [0, r.choice(BOUNDARY_LENS), r.choice(BOUNDARY_LENS), r.randrange(0, 300)]
            if kl in KEY_LENS:
                lens += [55, 56, 64, r.randrange(0, 300)]
            for ln in lens:
                msg = rand_bytes(ctx, ln)
                parts = partition(ctx, msg, r.choice(PART_KINDS[:4] + PART_KINDS[5:]), "hmac")
                cases.append("hmac-%s s %s %s" % (alg, hx(key), " ".join(hx(p) for p in parts)))
                if kl in KEY_LENS or r.randrange(2) == 0:      # the one-shot path, always for the listed key lengths
                    cases.append("hmac-%s b %s %s" % (alg, hx(key), hx(msg)))
                    ctx.count("hmac.oneshot.%s" % ("key<=64" if kl <= 64 else "key>64"))
            ctx.count("hmac.keylen.%s" % ("<64" if kl < 64 else "=64" if kl == 64 else ">64"))
    return [c.rstrip() for c in cases]


def gen_pbkdf2(ctx):
    r = ctx.rng
    cases = []
    # RFC 7914 section 11 vectors (c = 1 and a partial third block)
    cases.append("pbkdf2 %s %s 1 64" % (hx(b"passwd"), hx(b"salt")))
    dks = [0, 1, 20, 31, 32, 33, 40, 63, 64, 65, 100]
    for dk in dks:
        c = r.choice([0, 1, 2, 3, r.randrange(1, 21)])
        cases.append("pbkdf2 %s %s %x %d" % (hx(rand_bytes(ctx, r.randrange(0, 20))), hx(rand_bytes(ctx, r.randrange(0, 20))), c, dk))
        ctx.count("pbkdf2.dklen.%s" % ("multiple_of_32" if dk % 32 == 0 else "partial_block"))
    for _ in range(ctx.n(80, 1500)):
        pl = r.choice([0, 1, 8, 63, 64, 65, 100, r.randrange(0, 130)])
        sl = r.choice([0, 1, 16, 51, 52, 59, 60, 61, r.randrange(0, 130)])     # salt||INT(i) around 55/56/64
        c = r.choice([0, 1, 2, r.randrange(1, 21), r.randrange(1, 21)])
        dk = r.choice([r.randrange(0, 100), r.randrange(0, 100), 32 * r.randrange(0, 4)])
        cases.append("pbkdf2 %s %s %x %d" % (hx(rand_bytes(ctx, pl)), hx(rand_bytes(ctx, sl)), c, dk))
        ctx.count("pbkdf2.c.%s" % ("0" if c == 0 else "1" if c == 1 else ">1"))
        ctx.count("pbkdf2.dklen.%s" % ("multiple_of_32" if dk % 32 == 0 else "partial_block"))
        ctx.count("pbkdf2.passwd.%s" % (">64" if pl > 64 else "<=64"))
    if not ctx.quick:
        for c in (1000, 257 + r.randrange(0, 600)):
            cases.append("pbkdf2 %s %s %x %d" % (hx(rand_bytes(ctx, 12)), hx(rand_bytes(ctx, 16)), c, r.choice([33, 40, 64])))
            ctx.count("pbkdf2.c.large")
    return cases


def gen_resume(ctx):
    """White-box: the whole public context (state words, bit count, buffer) is set by hand so that
    the bit counter sits just below / at / above a multiple of 2^32 bits (carry from the low into
    the high count word of SHA-1 / MD5, in both word orders) or just below 2^64 bits (wrap of the
    64-bit count), with residues r in {0,1,55,56,63,...}; one short Update crosses the boundary."""
    r = ctx.rng
    cases = []
    nst = {"sha256": 32, "sha1": 20, "md5": 16}
    his = [1, 2, 1 << 32]                       # boundary = hi * 2^32 bits; 2^32 * 2^32 = the 2^64 wrap
    for alg in ALGS:
        for rep in range(ctx.n(1, 12)):
            for hi in his + [r.randrange(1, 1 << 32)]:
                boundary_bytes = hi << 29
                for res in [0, 1, 55, 56, 63, r.randrange(2, 55), r.randrange(57, 63)]:
                    base = (64 - res) % 64            # bytes missing to the boundary, modulo 64
                    for where in ("below", "below", "at", "above"):
                        if where == "below":
                            delta = base + 64 * r.randrange(0, 3)
                            if delta == 0:
                                delta = 64
                            nb = boundary_bytes - delta
                            lens = [r.choice([delta, delta + 1, delta + r.randrange(1, 201), max(0, delta - 1), r.randrange(0, delta + 1)])]
                        elif where == "at":
                            if res != 0:
                                continue
                            nb, delta = boundary_bytes, 0
                            lens = [r.randrange(0, 200)]
                        else:
                            nb, delta = boundary_bytes + res + 64 * r.randrange(0, 3), 0
                            lens = [r.randrange(0, 200)]
                        lens.append(r.randrange(0, 130))
                        bits = (8 * nb) % (1 << 64)
                        lo, hw = bits & 0xffffffff, bits >> 32
                        if alg == "sha256":
                            c0, c1 = bits, 0
                        elif alg == "sha1":
                            c0, c1 = hw, lo
                        else:
                            c0, c1 = lo, hw
                        parts = [rand_bytes(ctx, l) for l in lens]
                        cases.append(("resume-%s %s %x %x %s %s" % (alg, hx(rand_bytes(ctx, nst[alg])), c0, c1,
                                                                   hx(rand_bytes(ctx, 64)), " ".join(hx(p) for p in parts))).rstrip())
                        crossed = where == "below" and lens[0] >= delta
                        ctx.count("resume.%s.%s" % ("2^64" if hi == 1 << 32 else "k*2^32",
                                                    "crossing" if crossed else where))
    return cases


def gen_xform(ctx):
    r = ctx.rng
    cases = []
    nst = {"sha256": 32, "sha1": 20, "md5": 16}
    for alg in ALGS:
        for i in range(ctx.n(300, 6000)):
            if i < 6:
                st = bytes([[0, 0xff, 0x80, 0x7f, 1, 0xaa][i]]) * nst[alg]
                blk = bytes([[0, 0xff, 0x80, 0x7f, 0xff, 0x55][i]]) * 64
            else:
                st, blk = rand_bytes(ctx, nst[alg]), rand_bytes(ctx, 64)
            cases.append("xform-%s %s %s" % (alg, hx(st), hx(blk)))
    return cases


def strip_flag(lines):
    """'ok <hex> <flag>' -> 'ok <hex>' (C01 observes digest bytes only)."""
    out = []
    for l in lines:
        p = l.split()
        out.append(" ".join(p[:2]) if len(p) == 3 and p[0] == "ok" else l)
    return out


def only_flag(lines):
    out = []
    for l in lines:
        p = l.split()
        out.append(p[2] if len(p) == 3 and p[0] == "ok" else l)
    return out


def spread(ctx, cases):
    """Deterministic shuffle so that run_sharded's contiguous shards get similar work."""
    cs = list(cases)
    ctx.rng.shuffle(cs)
    return cs


def run_c01(ctx, sub, cases, rule, prefixes):
    exe, mexe = build(ctx, sub)
    if not exe:
        return
    rp = replay_cases(ctx, sub)
    if rp is not None:
        cases = rp
        if not cases:
            return
    else:
        cases = corpus(prefixes) + spread(ctx, cases)
    impl, st = vlib.run_sharded(exe, cases, env={"ASAN_OPTIONS": "detect_leaks=1:abort_on_error=0"})
    vlib.sanitizer_reports(ctx, sub, st)
    model, _ = vlib.run_sharded(mexe, cases, timeout=5400)
    spec, _ = vlib.run_sharded(mexe, ["spec " + c for c in cases], timeout=5400)
    impl_d, model_d, spec_d = strip_flag(impl), strip_flag(model), strip_flag(spec)
    vlib.tri_compare(ctx, sub, cases, impl_d, model_d, spec_d)
    ctx.record(sub, cases, set(zip((c[:200] for c in cases), impl_d)), rule,
               samples=[cases[0][:200], cases[-1][:200]])


def check_digest(ctx):
    run_c01(ctx, "digest", gen_digest(ctx),
            "SHA-256/SHA-1/MD5 Init/Update*/Final and _Buf on lengths {0,1,54..57,62..66,118..122,127..129}+random<=400 "
            "(thorough: 64 KiB), partitions cutting at 64-r, 64-r+-1, block multiples, with empty parts, one byte per call; "
            "impl = model = FIPS 180-4 / RFC 1321 spec; non-trivial = distinct (case, digest)",
            ("sha256", "sha1", "md5"))


def check_hmac(ctx):
    run_c01(ctx, "hmac", gen_hmac(ctx),
            "HMAC-SHA256/SHA1/MD5 Init/Update*/Final and _Buf, key lengths {0,1,63,64,65,100,200}+random<260, "
            "message partitions as for the digests; impl = model = RFC 2104 spec",
            ("hmac-",))


def check_pbkdf2(ctx):
    run_c01(ctx, "pbkdf2", gen_pbkdf2(ctx),
            "PBKDF2_SHA256 with dkLen in {0,1,20,31,32,33,40,63,64,65,100}+random<100 (partial last block), "
            "c in {0,1,2,..20} (thorough: up to 1000), passwords on both sides of 64 bytes, salts placing "
            "S||INT(i) around the 55/56/64 padding boundaries; impl = model = RFC 8018 spec over the HMAC spec",
            ("pbkdf2",))


def check_xform(ctx):
    run_c01(ctx, "xform", gen_xform(ctx),
            "one block through Update on a context with hand-set state words: C transform = model transform "
            "(rotating array) = spec compression function (a..h shifting), random and extreme states/blocks",
            ("xform-",))


def check_resume(ctx):
    run_c01(ctx, "resume", gen_resume(ctx),
            "white-box: SHA1_CTX / MD5_CTX / SHA256_CTX written by hand with the bit count just below / at / above "
            "k*2^32 bits (carry between the two count words, both word orders) and 2^64 bits (wrap), residues "
            "{0,1,55,56,63,..}, one short Update across the boundary, Final; digest and the bit count after each "
            "Update: impl = model = standard's padding/compression continued from that chaining value",
            ("resume-",))


def check_wipe(ctx):
    """C20 (hash part): after XXX_Final / HMAC_XXX_Final every byte of the context object is zero.
    Property itself: the flag the C driver computes from the real struct must be "z" (a "nz" is a
    failing input whatever the model says).  Correspondence: the extracted model - whose Final
    functions zero exactly the fields in the zero set the Coq interpreter derives from the
    REGENERATED statement lists of the C Final functions (coq/Alg/HashWipe.v) - must give the same flag."""
    sub = "hash-wipe"
    exe, mexe = build(ctx, sub)
    if not exe:
        return
    r = ctx.rng
    cases = []
    rp = replay_cases(ctx, sub)
    if rp is not None:
        cases = rp
        if not cases:
            return
    else:
        for alg in ALGS:
            cases.append("%s s" % alg)
            for ln in BOUNDARY_LENS + [r.randrange(0, 300) for _ in range(ctx.n(10, 300))]:
                msg = rand_bytes(ctx, ln)
                parts = partition(ctx, msg, r.choice(PART_KINDS), "wipe")
                cases.append(("%s s %s" % (alg, " ".join(hx(p) for p in parts))).rstrip())
                key = rand_bytes(ctx, r.choice(KEY_LENS))
                cases.append(("hmac-%s s %s %s" % (alg, hx(key), " ".join(hx(p) for p in parts))).rstrip())
                ctx.count("wipe.%s" % alg, 2)
            for _ in range(ctx.n(6, 120)):
                # a hand-set context (arbitrary state words, count, buffer) through Update* and Final
                c0, c1 = r.getrandbits(32), r.getrandbits(32) & ~7
                if alg == "sha256":
                    c0, c1 = r.getrandbits(64) & ~7, 0
                elif alg == "md5":
                    c0, c1 = c1, c0
                nst = {"sha256": 32, "sha1": 20, "md5": 16}[alg]
                parts = [rand_bytes(ctx, r.randrange(0, 130)) for _ in range(r.randrange(0, 3))]
                cases.append(("resume-%s %s %x %x %s %s" % (alg, hx(rand_bytes(ctx, nst)), c0, c1, hx(rand_bytes(ctx, 64)),
                                                           " ".join(hx(p) for p in parts))).rstrip())
                ctx.count("wipe.%s.hand_set_context" % alg)
            for n in (0, 1, 55):
                # bit count one block below 2^32 (2^64 for SHA-256): the low count word is 0 after the padding
                lo, hi = 0xfffffe00, r.getrandbits(32)
                c0, c1 = {"sha256": ((1 << 64) - 512, 0), "sha1": (hi, lo), "md5": (lo, hi)}[alg]
                nst = {"sha256": 32, "sha1": 20, "md5": 16}[alg]
                cases.append(("resume-%s %s %x %x %s %s" % (alg, hx(rand_bytes(ctx, nst)), c0, c1, hx(rand_bytes(ctx, 64)),
                                                           hx(rand_bytes(ctx, n)))).rstrip())
                ctx.count("wipe.%s.count_word_zero_after_pad" % alg)
        cases = corpus(("sha", "md5", "hmac-")) + spread(ctx, cases)
        cases = [c for c in cases if len(c.split()) >= 2 and (c.split()[1] == "s" or c.startswith("resume-"))]
    # the repository's own optimisation level decides whether a wipe survives: plain -O2 build too
    exe2, err = vlib.build_c("drv_hash_o2", "drv_hash.c", SOURCES, asan=False, cpuconfig="/dev/null")
    if not exe2:
        ctx.fail(sub, "build", "", "C driver does not build: " + err)
        return
    model, _ = vlib.run_sharded(mexe, cases)
    mflag = only_flag(model)
    want = ["z"] * len(cases)
    for name, e in (("asan", exe), ("O2", exe2)):
        impl, st = vlib.run_sharded(e, cases, env={"ASAN_OPTIONS": "detect_leaks=1:abort_on_error=0"})
        if name == "asan":
            vlib.sanitizer_reports(ctx, sub, st)
        # impl flag != "z": the property fails on this input; impl flag != model flag: correspondence broken
        iflag = only_flag(impl)
        if len(iflag) != len(cases) or len(mflag) != len(cases):
            vlib.tri_compare(ctx, sub, cases, iflag, mflag, want)
            continue
        # failing inputs first (the report is capped), then the cases where only the model disagrees
        for sel in ([i for i, f in enumerate(iflag) if f != "z"], [i for i, f in enumerate(iflag) if f == "z"]):
            vlib.tri_compare(ctx, sub, [cases[i] for i in sel], [iflag[i] for i in sel], [mflag[i] for i in sel],
                             [want[i] for i in sel])
    ctx.record(sub, cases, set(c[:200] for c in cases),
               "context object filled with 0xAA, Init (or every field set by hand), Update*, Final, then every byte of the "
               "real struct inspected (ASan build and plain -O2 build): all zero; same flag from the model, whose Final "
               "functions zero exactly the fields the interpreter of the regenerated Final bodies reports as wiped",
               samples=[cases[0][:200], cases[-1][:200]])


SUBCHECKS = {"C01": [check_digest, check_hmac, check_pbkdf2, check_xform, check_resume], "C20": [check_wipe]}
