"""util/getopt.c: correspondence of the C (back-end API and compiled GETOPT_SWITCH loops) with the
extracted model and with the reference parser written from the header comment of getopt.h."""
import itertools
import os
import re

import vlib


def hx(b):
    return bytes(b).hex() if b else "-"


SHORT_POOL = [b"-a", b"-b", b"-c", b"-o", b"-f", b"-x", b"-=", b"-1"]
LONG_POOL = [b"--foo", b"--fo", b"--foobar", b"--bar", b"--o", b"--out", b"--a", b"--b-c", b"---", b"--\xff\x01"]

# the GETOPT_SWITCH statements compiled into harness/drv_getopt.c, read from its text: for loop k the
# list of its source lines from the GETOPT_SWITCH line (offset 0 = dispatch slot 0) to the line before
# GETOPT_DEFAULT; a line is None | "M" (GETOPT_MISSING_ARG) | (name, hasarg).  The model gets exactly
# this layout (it runs the indexing pass of the macros on it), the reference parser the label set.
_RE_FN = re.compile(r"^static void loop(\d+)\(")
_RE_LABEL = re.compile(r'GETOPT_(OPTARG|OPT)\("([^"\\]*)"\)|GETOPT_(MISSING_ARG)\b')


def read_layouts(path=None):
    path = path or os.path.join(vlib.VERIF, "harness", "drv_getopt.c")
    lays, k, lay = {}, None, None
    for line in open(path):
        m = _RE_FN.match(line)
        if m:
            k, lay = int(m.group(1)), None
            continue
        if k is None or line.lstrip().startswith(("#", "*", "/*")):
            continue
        if lay is None:
            if "GETOPT_SWITCH(ch)" not in line:
                continue
            lay = []
        if "GETOPT_DEFAULT" in line:
            lays[k] = lay
            k, lay = None, None
            continue
        labels = _RE_LABEL.findall(line)
        if len(labels) > 1:
            raise ValueError("two GETOPT labels on one line: " + line)
        if not labels:
            lay.append(None)
        elif labels[0][2]:
            lay.append("M")
        else:
            lay.append((labels[0][1].encode(), 1 if labels[0][0] == "OPTARG" else 0))
    if k is not None or not lays:
        raise ValueError("drv_getopt.c: GETOPT_SWITCH loops not recognised")
    return lays


SW_LAYOUTS = read_layouts()
SW_KEYS = sorted(SW_LAYOUTS)
# loops that write the first label on the GETOPT_SWITCH line itself / other layouts of loops 0-2
SW_RELAYOUT = [k for k in SW_KEYS if k >= 4]


class Table:
    """slots: list of None | (name, hasarg); miss: None | slot number"""

    def __init__(self, slots, miss):
        self.slots, self.miss = slots, miss

    def names(self):
        return [s for s in self.slots if s is not None]

    def text(self):
        return "%s %%s %d %s" % ("-" if self.miss is None else str(self.miss), len(self.slots),
                                 " ".join("-" if s is None else "%s:%d" % (hx(s[0]), s[1]) for s in self.slots))


def sw_table(k):
    """the dispatch table the macros build for loop k: slot = line offset, maxopts = offset of GETOPT_DEFAULT"""
    lay = SW_LAYOUTS[k]
    miss = [i for i, l in enumerate(lay) if l == "M"]
    return Table([l if isinstance(l, tuple) else None for l in lay], miss[-1] if miss else None)


def random_table(r):
    n = r.randrange(1, 7)
    pool = SHORT_POOL + LONG_POOL
    names = r.sample(pool, n)
    slots = []
    for nm in names:
        while r.random() < 0.2:
            slots.append(None)
        slots.append((nm, r.randrange(2)))
    while r.random() < 0.2:
        slots.append(None)
    miss = None
    if r.random() < 0.5:
        free = [i for i, s in enumerate(slots) if s is None]
        if not free:
            slots.append(None)
            free = [len(slots) - 1]
        miss = r.choice(free)
    return Table(slots, miss)


def alphabet(tab, r, size=None):
    """words aimed at the case splits of the proofs, derived from the table"""
    names = tab.names()
    shorts = [n for n, _ in names if len(n) == 2 and n[1:2] != b"-"]
    longs = [n for n, _ in names if n not in shorts]
    chars = [n[1:2] for n in shorts] + [b"z", b"-", b"="]
    w = [b"-", b"--", b"", b"op", b"-z", b"--zz", b"--zz=v", b"---", b"--=", b"--=x", b"x-a", b"=", b"-\xfe"]
    for n in shorts:
        c = n[1:2]
        w += [n, n + b"val", n + b"=v", n + b"=", n + r.choice(chars), b"-z" + c, n + b"-", b"-" + c + c,
              b"-" + c + r.choice(chars) + r.choice(chars)]
    for n in longs:
        w += [n, n + b"=v", n + b"=", n + b"==", n + b"=--", n + b"x", n[:-1], n[1:], n + b"=" + n]
    # random packs
    for _ in range(4):
        w.append(b"-" + b"".join(r.choice(chars) for _ in range(r.randrange(1, 5))))
    if size is not None:
        base = [b"-", b"--", b"", b"op"]
        rest = [x for x in w if x not in base]
        r.shuffle(rest)
        w = base + rest[:max(0, size - len(base))]
    return w


def parse_text(tab, argv, stop=None):
    return "api " + tab.text() % ("-" if stop is None else str(stop)) + " %d %s" % (len(argv), " ".join(hx(a) for a in argv))


def lay_text(k, argv, stop=None):
    lay = SW_LAYOUTS[k]
    return "lay %s %d %s %d %s" % ("-" if stop is None else str(stop), len(lay),
                                   " ".join("-" if l is None else "M" if l == "M" else "%s:%d" % (hx(l[0]), l[1]) for l in lay),
                                   len(argv), " ".join(hx(a) for a in argv))


def sw_text(k, argv, stop=None):
    return "sw %d %s %d %s" % (k, "-" if stop is None else str(stop), len(argv), " ".join(hx(a) for a in argv))


def classify_argv(ctx, pfx, tab, argv):
    names = {n for n, _ in tab.names()}
    for a in argv[1:]:
        if a == b"--":
            ctx.count(pfx + ".word.dashdash")
        elif a == b"-":
            ctx.count(pfx + ".word.lone-dash")
        elif a == b"":
            ctx.count(pfx + ".word.empty")
        elif a.startswith(b"--"):
            base = a.split(b"=", 1)[0]
            ctx.count(pfx + (".word.long-eq" if b"=" in a[2:] else ".word.long") + ("" if base in names else "-unreg"))
        elif a.startswith(b"-"):
            ctx.count(pfx + (".word.pack" if len(a) > 2 else ".word.short"))
        else:
            ctx.count(pfx + ".word.operand")


def gen(ctx, sub, hostile=False):
    """returns (cases for the C driver, the same cases for the model)"""
    r = ctx.rng
    cc, cm = [], []

    def add(parses):
        # parses: list of (k|None, Table, argv, stop)
        c, m = [], []
        for k, tab, argv, stop in parses:
            m.append(lay_text(k, argv, stop) if k is not None else parse_text(tab, argv, stop))
            c.append(sw_text(k, argv, stop) if k is not None else parse_text(tab, argv, stop))
            if k is not None:
                lay = SW_LAYOUTS[k]
                ctx.count(sub + ".layout.first-label-on-switch-line" if lay[0] is not None else
                          sub + ".layout.first-label-below")
                ctx.count(sub + ".layout.missing-" + ("absent" if "M" not in lay else "first" if [l for l in lay if l][0] == "M"
                                                       else "last" if [l for l in lay if l][-1] == "M" else "middle"))
            classify_argv(ctx, sub, tab, argv)
        cc.append(" | ".join(c))
        cm.append(" | ".join(m))

    def rand_argv(words, maxlen=8):
        n = r.randrange(0, maxlen + 1)
        if n == 0 and r.random() < 0.5:
            return []                                  # argc = 0
        return [b"prog"] + [r.choice(words) for _ in range(n)]

    # corpus first
    cdir = os.path.join(vlib.VERIF, "corpus", "getopt")
    if os.path.isdir(cdir):
        for f in sorted(os.listdir(cdir)):
            for line in open(os.path.join(cdir, f)):
                line = line.strip()
                if line and not line.startswith("#"):
                    cc.append(line)
                    cm.append(line)
                    ctx.count(sub + ".corpus")

    # the command lines of tests/getopt and the DESIGN list, on the compiled loops and the API
    fixed = [[], [b"-"], [b"-b"], [b"--bar"], [b"-f", b"bar"], [b"--foo", b"bar"], [b"--foo=bar"], [b"-bb"],
             [b"-bbf", b"bar"], [b"-bbfbar"], [b"foo", b"bar", b"baz"], [b"-b", b"--foo=bar", b"baz"],
             [b"-b", b"--", b"--foo", b"bar", b"baz"], [b"-a"], [b"-f"], [b"--foo"], [b"--bar=foo"],
             [b"--foo", b"--", b"--bar"], [b"-f", b"-"], [b"-bf"], [b"-fb"], [b"--foobar"], [b"--fo=1"],
             [b"-o=x"], [b"-=a="], [b"-a=", b"-o"], [b"--o=1"], [b"--out="], [b"--out", b""], [b"", b"-a"]]
    for k in SW_KEYS:
        for a in fixed:
            add([(k, sw_table(k), [b"prog"] + a, None)])
            add([(None, sw_table(k), [b"prog"] + a, None)])

    nrand = ctx.n(14000, 150000)
    for _ in range(nrand):
        kind = r.random()
        if kind < 0.25:
            k = r.choice(SW_KEYS)
            tab = sw_table(k)
        else:
            k = None
            tab = random_table(r)
        words = alphabet(tab, r)
        if hostile:
            words += [bytes(r.randrange(1, 256) for _ in range(r.randrange(1, 6))) for _ in range(4)]
            words += [b"-" * r.randrange(3, 7), b"--" + bytes([r.randrange(1, 256)]), b"-" + bytes([r.randrange(1, 256)])]
        nparse = 1 if r.random() < 0.6 else r.randrange(2, 4)
        parses = []
        for j in range(nparse):
            if j > 0 and r.random() < 0.5:
                if r.random() < 0.3:
                    k = r.choice(SW_KEYS)
                    tab = sw_table(k)
                else:
                    k = None
                    tab = random_table(r)
                words = alphabet(tab, r)
            argv = rand_argv(words)
            stop = None
            if j < nparse - 1 and r.random() < 0.5:
                stop = r.randrange(0, 4)               # leave the loop early, often inside a pack
                ctx.count(sub + ".parse.stopped-early")
            parses.append((k, tab, argv, stop))
        ctx.count(sub + ".parses-per-case.%d" % nparse)
        ctx.count(sub + (".mode.switch" if k is not None else ".mode.api"))
        add(parses)

    # exhaustive: every argv of length 0..L over a 12-word alphabet, per table; the re-laid-out
    # switch statements (first label on the GETOPT_SWITCH line, ...) one word shorter
    L = ctx.n(3, 4)
    tabs = [(k, sw_table(k), L) for k in SW_KEYS if k < 4] if not ctx.quick else [(2, sw_table(2), L)]
    tabs += [(k, sw_table(k), L - 1) for k in SW_RELAYOUT]
    tabs += [(None, sw_table(3), L), (None, Table([(b"-a", 1), None, (b"--a", 1), (b"-b", 0), (b"--ab", 0)], 1), L)]
    for k, tab, lmax in tabs:
        names = tab.names()
        sh = [n for n, h in names if len(n) == 2]
        lo = [n for n, h in names if len(n) > 2]
        al = [b"-", b"--", b"", b"op", b"-z" + sh[0][1:2]]
        al += [sh[0], sh[-1] + sh[0][1:2], sh[-1] + b"=v"]
        al += [lo[0], lo[0] + b"=v", lo[-1], lo[-1] + b"=", lo[0] + b"x"]
        al = list(dict.fromkeys(al))[:12]
        for ln in range(0, lmax + 1):
            for tup in itertools.product(al, repeat=ln):
                add([(k, tab, [b"prog"] + list(tup), None)])
                ctx.count(sub + ".exhaustive")
    return cc, cm


LONG_NAME_LENGTHS = [255, 256, 4000, 16384, 65535, 65536, 65539, 131072]
LONG_NAME_LENGTHS_MORE = [65537, 65541, 196611, 1000003]        # thorough tier


def gen_long_names(ctx, sub):
    """Tables in which a registered long option name has 255 .. 131072 (thorough: about 10^6) characters -
    getopt.h puts no bound on the length of a name, and getopt_register_opt takes any string (the
    GETOPT_OPT / GETOPT_OPTARG macros accept a `const char *` built at run time).  Per length and per
    hasarg: the full name, name=value, name and a separate argument, the name last with its argument
    missing, the name extended / shortened by one character, and - what must NOT be taken for the option -
    the (length mod 65536)-, (length mod 256)- and (length mod 2^32 ...)-character prefixes of the name, alone,
    with =value and followed by a word; also two registered names that agree on their first 65536 (or L-1)
    characters.  Same text for the driver and the model.  -> [(length, heavy for the model?, case)]"""
    r = ctx.rng
    cases = []
    lengths = LONG_NAME_LENGTHS + ([] if ctx.quick else LONG_NAME_LENGTHS_MORE)
    for L in lengths:
        body = bytes(r.choice(b"abcdefghijklmnopqrstuvwxyz-_0123456789") for _ in range(L - 2))
        name = b"--" + body
        twin_at = min(L - 1, 65536)
        twin = name[:twin_at] + (b"Z" if name[twin_at:twin_at + 1] != b"Z" else b"Y") + name[twin_at + 1:] + b"q"
        prefixes = [k for k in sorted({L % 65536, L % 256, L % 65535} - {L}) if k >= 3]
        big = L > 200000
        for hasarg in (0, 1):
            miss = 3 if hasarg else None
            if L in (65536, 65539) and r.random() < 0.5:
                miss = None if hasarg else 3
            tab = Table([(b"-b", 0), (name, hasarg), (b"-f", 1), None, (b"--" + body[:1] if L % 65536 != 3 else b"--zz", 0)], miss)
            tab2 = Table([(name, hasarg), (twin, 1 - hasarg), None, (b"-b", 0)], 2 if miss is not None else None)
            argvs = [[b"-b", name, b"-f", b"x"], [name + b"=value", b"-b"], [name, b"val", b"-b", b"op"], [b"-b", name]]
            if not big:
                argvs += [[name + b"=", b"-b"], [name + b"x", b"-b"], [name[:-1], b"-b"], [b"--", name]]
            for k in prefixes:
                argvs += [[name[:k], b"-b"], [name[:k] + b"=1", b"-b"], [b"-b", name[:k], b"val", b"-b"]]
            def heavy(a):      # a long word that the parser compares with the long registered names
                return any(len(w) > 20000 for w in (a[:a.index(b"--")] if b"--" in a else a))
            for a in argvs:
                cases.append((L, heavy(a), parse_text(tab, [b"prog"] + a)))
            for a in ([twin, b"v", name, b"v"], [twin + b"=v", name + b"=v"], [name[:65536], twin[:-1], b"-b"]):
                cases.append((L, heavy(a), parse_text(tab2, [b"prog"] + a)))
        ctx.count(sub + ".long-name.length=%d" % L)
    return cases


def gen_irregular(ctx, sub):
    """tables outside wf_table (names containing '=', duplicates, invalid names, missing label on an
    occupied slot): only impl vs model (and vs the as-coded reference where nothing aborts)"""
    r = ctx.rng
    cases = []
    weird = [b"--a=b", b"--a", b"--a=", b"-=", b"--=", b"--a=b=c", b"--foo", b"--foo=bar"]
    bad = [b"-", b"--", b"x", b"-ab", b"", b"a-", b"-a", b"-a"]
    for _ in range(ctx.n(1500, 20000)):
        kind = r.randrange(4)
        n = r.randrange(1, 5)
        if kind == 0:
            names = r.sample(weird, n)
            ctx.count(sub + ".irregular.eq-in-name")
        elif kind == 1:
            names = [r.choice(weird + SHORT_POOL) for _ in range(n)]
            ctx.count(sub + ".irregular.maybe-duplicate")
        elif kind == 2:
            names = r.sample(weird + SHORT_POOL, n)
            names[r.randrange(n)] = r.choice(bad)
            ctx.count(sub + ".irregular.invalid-name")
        else:
            names = r.sample(weird + SHORT_POOL + LONG_POOL, n)
            ctx.count(sub + ".irregular.miss-slot")
        slots = [(nm, r.randrange(2)) for nm in names]
        if r.random() < 0.3:
            slots.insert(r.randrange(len(slots) + 1), None)
        miss = None
        if kind == 3:
            miss = r.choice([r.randrange(len(slots)), len(slots) + 1, len(slots), len(slots) + 2])
        tab = Table(slots, miss)
        words = alphabet(tab, r) + [b"--a=b", b"--a=b=c", b"--a", b"--a=", b"--foo=bar", b"--foo=bar=x"]
        argv = [b"prog"] + [r.choice(words) for _ in range(r.randrange(0, 6))]
        cases.append((parse_text(tab, argv), kind != 3))
    return cases


def _sanitizer(ctx, sub, st, cases, impl):
    """like vlib.sanitizer_reports, but names the case each crashing shard stopped at (a shard
    prints one complete line per finished case, so the first missing line is the crashing case)"""
    n = len(cases)
    if n == 0:
        return
    shards = max(1, min(vlib.NCPU, n))
    per = (n + shards - 1) // shards
    for k, (rc, err) in enumerate(st):
        if rc == 0 and "ERROR: AddressSanitizer" not in err and "runtime error:" not in err and "LeakSanitizer" not in err:
            continue
        lo, hi = k * per, min(n, (k + 1) * per)
        bad = [i for i in range(lo, hi) if impl[i].startswith("<no-output")]
        vlib.sanitizer_reports(ctx, sub, [(rc, err)], cases_desc=cases[bad[0]] if bad else "")


def _run(ctx, sub, hostile):
    exe, err = vlib.build_c("drv_getopt_asan", "drv_getopt.c", ["util/getopt.c"], asan=True)
    if not exe:
        ctx.fail(sub, "build", "", "C driver does not build: " + err)
        return
    mexe, err = vlib.build_model("getopt")
    if not mexe:
        ctx.fail(sub, "tie", "", err)
        return
    env = {"ASAN_OPTIONS": "detect_leaks=1:abort_on_error=0:handle_abort=0"}
    cc, cm = gen(ctx, sub, hostile)
    impl, st = vlib.run_sharded(exe, cc, env=env)
    _sanitizer(ctx, sub, st, cc, impl)
    model, _ = vlib.run_sharded(mexe, cm)
    spec, _ = vlib.run_sharded(mexe, ["spec " + c for c in cm])
    vlib.tri_compare(ctx, sub, cc, impl, model, spec)
    ctx.record(sub, cc, set(zip(cm, impl)),
               "argv of 0..8 words over an alphabet derived from the table (registered/unregistered short and long "
               "options, packs, attached and =value arguments, '-', '--', '', operands), random sparse tables through the "
               "back-end API and %d compiled GETOPT_SWITCH loops (the same option sets in several source layouts: first "
               "label on the GETOPT_SWITCH line = slot 0, compact, blank lines / multi-line bodies, label directly before "
               "GETOPT_DEFAULT, GETOPT_MISSING_ARG first/middle/last/absent; the model runs the macros' indexing pass on the "
               "layout read from the driver source), 1-3 parses per process state separated by optreset "
               "(some left early inside a pack); exhaustive argv up to length %d over 12 words; compared: ordered "
               "(label, optarg) list and final optind against extracted model and reference parser; "
               "non-trivial = distinct (case, result)" % (len(SW_KEYS), ctx.n(3, 4)),
               samples=[cc[len(cc) // 2][:200], cc[-1][:200]])
    # registered long option names of 255 .. 131072 (thorough: 10^6) characters.  The extracted model is a
    # list program: comparing a word of 65536 characters with a registered name of that length costs it 7 s.
    # It sees every case whose words are short (all the prefix cases, whatever the length of the registered
    # name) or whose name has up to 16384 characters, in the thorough tier also the others up to 65541;
    # every case is compared with the reference parser (the Coq spec, linear), which is what the theorems
    # equate the model with.
    lcl = gen_long_names(ctx, sub)
    lc = [c for _, _, c in lcl]
    limpl, st = vlib.run_sharded(exe, lc, env=env)
    _sanitizer(ctx, sub + ".long-name", st, lc, limpl)
    # the extracted programs recurse once per character in places: a stack of 4 GB (or unlimited) for them
    big = ["-c", 'ulimit -s 4000000 2>/dev/null || ulimit -s unlimited 2>/dev/null; exec "$0"', mexe]
    lspec, _ = vlib.run_sharded("/bin/sh", ["spec " + c for c in lc], args=big)
    mi = [i for i, (L, heavy, c) in enumerate(lcl) if not heavy or (not ctx.quick and L <= 65541)]
    mi.sort(key=lambda i: -lcl[i][0])           # the slow ones first, one per shard
    mout, _ = vlib.run_sharded("/bin/sh", [lc[i] for i in mi], shards=min(len(mi), 4 * vlib.NCPU), timeout=3000, args=big)
    lmodel = list(lspec)
    for i, o in zip(mi, mout):
        lmodel[i] = o
    ctx.count(sub + ".long-name.through_model", len(mi))
    vlib.tri_compare(ctx, sub + ".long-name", lc, limpl, lmodel, lspec)
    ctx.record(sub + ".long-name", lc, set(zip((c[:40] + str(len(c)) for c in lc), limpl)),
               "tables with a registered long option name of 255, 256, 4000, 16384, 65535, 65536, 65539, 131072 (thorough: "
               "also 65537, 65541, 196611, 1000003) characters, registered at run time through the back-end API: full name, "
               "=value, separate and missing argument, name +/- one character, the (length mod 65536 / 256 / 65535)-character "
               "prefixes (not options), two names agreeing on their first 65536 characters; against the reference parser, "
               "and against the extracted model where no word of more than 20000 characters is compared (thorough: up to 65541)")
    # irregular tables: model only (+ as-coded reference when nothing aborts)
    icf = gen_irregular(ctx, sub)
    ic = [c for c, _ in icf]
    iimpl, st = vlib.run_sharded(exe, ic, env=env)
    _sanitizer(ctx, sub + ".irregular", st, ic, iimpl)
    imodel, _ = vlib.run_sharded(mexe, ic)
    icoded, _ = vlib.run_sharded(mexe, ["coded " + c for c in ic])
    vlib.compare(ctx, sub + ".irregular", ic, iimpl, imodel,
                 property_pred=lambda c, a, b: (False, None))
    keep = [i for i, m in enumerate(imodel) if "assert" not in m and icf[i][1]]
    vlib.compare(ctx, sub + ".irregular-coded", [ic[i] for i in keep], [iimpl[i] for i in keep],
                 [icoded[i] for i in keep], property_pred=lambda c, a, b: (False, None))
    ctx.count(sub + ".irregular.aborting", len(ic) - len(keep))
    ctx.record(sub + ".irregular", ic, set(zip(ic, iimpl)),
               "tables outside wf_table (names containing '=', duplicate and invalid registrations -> DIE, "
               "missing label on an occupied/default slot): C vs extracted model incl. abort behaviour")


def check_getopt(ctx):
    _run(ctx, "getopt", hostile=False)


def check_getopt_safety(ctx):
    _run(ctx, "getopt-safety", hostile=True)


SUBCHECKS = {"C18": [check_getopt], "C15": [check_getopt_safety]}
