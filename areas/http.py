"""http/http.c: correspondence of the real client (http.c + netbuf + network + events of /repo, ASan/UBSan
build, scripted kernel) with the extracted Coq model, plus the spec-level predicates evaluated on the
implementation's own observations (C08 bounds / one callback / clean exit; C09 exact decode of
rendered well-formed responses and the documented request bytes; C14 allocation failure)."""
import os
import re

import vlib

SRC = ["http/http.c", "netbuf/netbuf_read.c", "netbuf/netbuf_write.c", "network/network_connect.c",
       "network/network_read.c", "network/network_write.c", "events/events.c", "events/events_immediate.c",
       "events/events_network.c", "events/events_network_selectstats.c", "events/events_timer.c",
       "util/sock.c", "util/sock_util.c", "util/monoclock.c", "util/warnp.c", "util/asprintf.c",
       "datastruct/elasticarray.c", "datastruct/ptrheap.c", "datastruct/timerqueue.c"]
WRAPS = ["malloc", "calloc", "realloc", "free", "socket", "connect", "getsockopt", "setsockopt", "close",
         "poll", "recv", "send"]
ENV = {"ASAN_OPTIONS": "detect_leaks=1:abort_on_error=0:allocator_may_return_null=1",
       "UBSAN_OPTIONS": "print_stacktrace=0"}
NOTE_UBSAN = ("http.c is built with -fno-sanitize=nonnull-attribute: addbody calls memcpy(&body[0], buf, 0) with "
              "body == NULL on an empty first read (benign; C99 7.21.1p2 is stricter than every libc)")
SIZE_MAX = (1 << 64) - 1
CRLF = b"\r\n"


def hx(b):
    b = bytes(b)
    return b.hex() if b else "-"


def hx0(b):
    return bytes(b).hex()


# --------------------------------------------------------------------------------------------
# building and running

def _build(ctx, sub):
    exe, err = vlib.build_c("drv_http_asan", "drv_http.c", SRC, extra_sources=["wrap_http.c"], wraps=WRAPS,
                            asan=True,
                            # -fno-builtin: every memcmp/memcpy/str* call of http.c goes through ASan's interceptors,
                            # which check the whole range (an inlined 4-byte compare straddling the end of an
                            # allocation escapes the inline shadow check)
                            per_file_flags={"http/http.c": ["-fno-sanitize=nonnull-attribute", "-fno-builtin"]})
    if not exe:
        ctx.fail(sub, "build", "", "C driver does not build: " + (err or "")[-1500:])
        return None, None
    mexe, err = vlib.build_model("http")
    if not mexe:
        ctx.fail(sub, "tie", "", err)
        return None, None
    if NOTE_UBSAN not in ctx.notes:
        ctx.notes.append(NOTE_UBSAN)
    return exe, mexe


def run_model(mexe, lines, timeout=5400):
    # deep (non tail recursive) list functions of the extracted code need a large stack for MiB bodies
    out, st = vlib.run_sharded("/bin/sh", lines, args=["-c", "ulimit -s unlimited 2>/dev/null; exec " + mexe],
                               timeout=timeout)
    return out


def run_impl(exe, lines, timeout=5400):
    out, st = vlib.run_sharded(exe, lines, env=ENV, timeout=timeout)
    sem, health = [], []
    for l in out:
        if " | " in l or l.startswith("crashed |"):
            a, _, b = l.partition(" |")
            sem.append(a.strip())
            health.append(b.strip())
        else:
            sem.append(l)
            health.append("malformed-output")
    return sem, health, st


def health_problem(h, want_refused=False):
    """None if the process side of a case is clean: normal exit, nothing live at the end."""
    m = re.match(r"allocs=(\d+) refused=(\d+) live=(\d+)( live-table-overflow)? exit=(\S+)$", h)
    if not m:
        return "no clean exit: " + h[:120]
    if m.group(5) != "ok":
        return "exit=" + m.group(5)
    if m.group(3) != "0" or m.group(4):
        return "leak: %s blocks live after all frees" % m.group(3)
    return None


def first_sanitizer_line(status):
    for rc, err in status:
        m = re.search(r"(ERROR: AddressSanitizer[^\n]*|[^\n]*runtime error:[^\n]*|ERROR: LeakSanitizer[^\n]*|"
                      r"[^\n]*Assertion[^\n]*failed[^\n]*)", err)
        if m:
            return m.group(1)[:300]
    return ""


CB = re.compile(r" cb=(null|(-?\d+)/(\S*?)/(\S+))")


def parse_sem(sem):
    """-> dict(req, ret, cbs, cb list, end) or None"""
    m = re.match(r"req=(\S+) ret=(\S+) cbs=(\d+)((?: cb=\S+)*) end=(\S+)$", sem)
    if not m:
        return None
    cbl = []
    for c in CB.finditer(m.group(4)):
        if c.group(1) == "null":
            cbl.append(None)
        else:
            cbl.append((int(c.group(2)), c.group(3), c.group(4)))
    return {"req": m.group(1), "ret": m.group(2), "cbs": int(m.group(3)), "cb": cbl, "end": m.group(5)}


def body_len_fields(btxt):
    """body text of the driver -> (bnull, claimed bodylen, actual buffer length) or None if malformed"""
    if btxt == "null":
        return 1, 0, 0
    if btxt == "toobig":
        return 1, SIZE_MAX, 0
    if btxt == "toobig-with-buffer":
        return 0, SIZE_MAX, 1
    if btxt == "len0-with-buffer":
        return 0, 0, 0
    m = re.match(r"nullptr-len([0-9a-f]+)$", btxt)
    if m:
        return 1, int(m.group(1)), 0
    m = re.match(r"L(\d+)C[0-9a-f]{8}$", btxt)
    if m:
        return 0, int(m.group(1)), int(m.group(1))
    if re.match(r"([0-9a-f]{2})+$", btxt):
        return 0, len(btxt) // 2, len(btxt) // 2
    return None


def case_line(stream, limit=4096, method=b"GET", segs="-", ending="e", path=b"/", hdrs=(), body=b"",
              sendchunk=0, opts=""):
    h = ",".join(hx0(a) + ":" + hx0(b) for a, b in hdrs) or "-"
    s = "http %s %s %s %s %d %x %s %s %s" % (hx(method), hx(path), h, hx(body), sendchunk, limit, ending, segs, hx(stream))
    return s + (" " + opts if opts else "")


def case_fields(case):
    t = case.split()
    return {"method": t[1], "limit": int(t[6], 16), "ending": t[7], "segs": t[8], "stream": t[9], "opts": t[10:]}


# --------------------------------------------------------------------------------------------
# segmentations

def seg_random(r, n):
    sizes, tot = [], 0
    mode = r.randrange(4)
    while tot < n and len(sizes) < 400:
        if r.random() < 0.07:
            sizes.append(0)
            continue
        if mode == 0:
            k = r.randrange(1, 6)
        elif mode == 1:
            k = r.randrange(1, 120)
        elif mode == 2:
            k = r.choice([1, 2, 3, 5, 17, 255, 256, 257, 1000, 4095, 4096, 4097, 5000])
        else:
            k = r.randrange(1, max(2, n))
        sizes.append(k)
        tot += k
    return ",".join(map(str, sizes)) or "-"


def delimiter_cuts(stream):
    """all offsets strictly inside or right after a CRLF / CRLFCRLF"""
    cuts = set()
    i = stream.find(CRLF)
    while i != -1:
        for d in (1, 2, 3, 4):
            if 0 < i + d < len(stream):
                cuts.add(i + d)
        i = stream.find(CRLF, i + 1)
    return sorted(cuts)


def seg_at(cuts):
    sizes, last = [], 0
    for c in cuts:
        sizes.append(c - last)
        last = c
    return ",".join(map(str, sizes)) or "-"


def seg_choice(ctx, r, stream, tag):
    n = len(stream)
    k = r.randrange(10)
    if k <= 2:
        ctx.count(tag + ".seg.oneshot")
        return "-"
    if k == 3 and n <= 3000:
        ctx.count(tag + ".seg.everybyte")
        return "r1"
    if k == 4:
        ctx.count(tag + ".seg.fixed")
        # (small segments of a long stream cost the model O(n^2): keep them for short streams)
        return "r" + str(r.choice([2, 3, 7, 64, 255, 256, 257, 4095, 4096, 4097] if n <= 6000 else [4095, 4096, 4097, 10000]))
    if k <= 6:
        cuts = delimiter_cuts(stream)
        if cuts:
            ctx.count(tag + ".seg.in-delimiter")
            if r.random() < 0.5:
                return seg_at([r.choice(cuts)])
            return seg_at(sorted(r.sample(cuts, min(len(cuts), r.randrange(1, 12)))))
    ctx.count(tag + ".seg.random")
    return seg_random(r, n)


# --------------------------------------------------------------------------------------------
# C08: structured mutations of valid responses

def rand_token(r, lo=1, hi=12):
    return bytes(r.choice(b"abcdefghijklmnopqrstuvwxyzABCDEFGHIJKLMNOPQRSTUVWXYZ0123456789-_") for _ in range(r.randrange(lo, hi)))


def rand_body(r, n):
    kind = r.randrange(4)
    if kind == 0:
        return bytes(r.randrange(256) for _ in range(n))
    if kind == 1:
        return bytes(r.choice(b"\r\n\r\n\x00 ab:") for _ in range(n))
    if kind == 2:
        return (b"0\r\n\r\n" * (n // 5 + 1))[:n]
    return bytes(97 + (i % 26) for i in range(n))


def head_block(r, status=200, fields=(), minor=b"1", reason=b"OK"):
    s = b"HTTP/1." + minor + b" " + str(status).encode() + b" " + reason + CRLF
    for a, b in fields:
        s += a + b": " + b + CRLF
    return s + CRLF


def chunked_body(r, body, sizes=None, case="x"):
    out, i = b"", 0
    while i < len(body):
        k = sizes.pop(0) if sizes else r.randrange(1, max(2, len(body) - i + 1))
        k = max(1, min(k, len(body) - i))
        line = ("%" + case) % k
        out += line.encode() + CRLF + body[i:i + k] + CRLF
        i += k
    return out + b"0" + CRLF + CRLF


def extra_fields(r, n):
    return [(rand_token(r), rand_token(r, 0, 20)) for _ in range(n)]


def valid_stream(r, framing, body, nf=None, status=200):
    f = extra_fields(r, r.randrange(0, 5) if nf is None else nf)
    pos = r.randrange(len(f) + 1)
    if framing == "clen":
        # Content-Length = 1*DIGIT: leading zeros are legal and must not change the value (seed C09-i: base 0)
        f.insert(pos, (b"Content-Length", b"0" * r.choice([0, 0, 0, 1, 1, 2, 7]) + str(len(body)).encode()))
        return head_block(r, status, f) + body
    if framing == "chunked":
        f.insert(pos, (b"Transfer-Encoding", b"chunked"))
        return head_block(r, status, f) + chunked_body(r, body)
    if framing == "close":
        return head_block(r, status, f) + body
    return head_block(r, status, f)


CHUNK_LINES = [b"", b" ", b"   ", b"\t", b"zz", b"g", b"-5", b"-0", b"-", b"+", b"+5", b" 5", b"\t\x0b\x0c 5", b"5 ", b"5;x=y",
               b"0x5", b"0X5", b"0x", b"0xg", b"x5", b"5\x005", b"\x005", b"ffffffffffffffff", b"fffffffffffffffe",
               b"fffffffffffffffd", b"fffffffffffffffc", b"10000000000000000", b"ffffffffffffffffffffffff",
               b"-ffffffffffffffff", b"-10000000000000000", b"00000000000000000000005", b"7fffffffffffffff",
               b"8000000000000000", b"5" + b" " * 250, b"5" + b";" + b"e" * 251, b"5" + b";" + b"e" * 252,
               b"5" + b";" + b"e" * 253, b"5;" + b"e" * 300, b" " * 253, b" " * 254, b" " * 255, b" " * 256, b" " * 300,
               b"5\r", b"5\n", b"\r", b"0", b"00", b"0;last", b"-0;x", b"+0", b" 0", b"0x0", b"0x"]

CLEN_VALUES = [b"010", b"011", b"08", b"09", b"0019", b"0123", b"00", b"000", b"005000", b"0011", b"00000000011",
               b"", b" ", b"5", b"05", b"+5", b"-5", b"-0", b"0", b" 5", b"5 ", b"\x0b5", b"5\x0b", b"0x5", b"5,5", b"5;",
               b"five", b"18446744073709551615", b"18446744073709551616", b"18446744073709551614",
               b"99999999999999999999999999", b"-18446744073709551615", b"4294967296", b"4294967301", b"5\x00", b"1e1",
               b"5.0", b"00000000000000000000000005", b"9223372036854775807", b"9223372036854775808"]

STATUS_LINES = [b"HTTP/1.1 200 OK", b"HTTP/1.0 200 OK", b"HTTP/1.1 200", b"HTTP/1.1 200 ", b"HTTP/1.1  200  OK",
                b"HTTP/1.1\t200\tOK", b"HTTP/1.1 99 X", b"HTTP/1.1 100", b"HTTP/1.1 199 X", b"HTTP/1.1 600 X",
                b"HTTP/1.1 599 X", b"HTTP/1.1 0 X", b"HTTP/1.1 -200 X", b"HTTP/1.1 +200 X", b"HTTP/2.0 200 OK",
                b"HTTP/0.9 200 OK", b"HTTP/1.1200", b"HTTP/1.1 2x", b"HTTP/1.1 20 0", b"http/1.1 200 OK",
                b"HTTP/ 1. 1  200 x", b"HTTP/+1.-1 0200 ", b"HTTP/1.1 4294967496 X", b"HTTP/4294967297.1 200 X",
                b"HTTP/1.1 99999999999999999999 X", b"HTTP/1.1 -99999999999999999999 X", b"HTTP/1.1 9223372036854775807",
                b"HTTP/1.1 9223372036854776008", b"HTTP/-1.1 200", b"HTTP/1.-1 200 X", b"HTTP/1 200", b"HTTP/1. 200",
                b"HTTP/1.1", b"HTTP/1.1 ", b"HTTP/", b"HTTP", b"", b" HTTP/1.1 200 OK", b"HTTP/1.1 200 OK\x00", b"\x00",
                b"HTTP/1.1 204 No Content", b"HTTP/1.1 304 Not Modified", b"HTTP/1.1 0204 X", b"HTTP/1.1 2 04",
                b"HTTP/1.1 200\x0bOK", b"HTTP/1.1\x0c200", b"HTTP/1.1 200 " + b"R" * 300, b"HTTP/1.1 2147483848 X",
                b"HTTP/1.1 -4294967096 X", b"HTTP/01.1 200", b"HTTP/1.1 0x200"]


def gen_mutations(ctx, r, n):
    """-> list of (tag, stream, limit, method)"""
    out = []

    def add(tag, stream, limit=None, method=b"GET"):
        if limit is None:
            limit = r.choice([0, 1, 5, 100, 4096, 70000, SIZE_MAX, SIZE_MAX - 1, 1 << 63])
        out.append((tag, stream, limit, method))

    # every chunk-size spelling, first and second chunk, then random
    for ln in CHUNK_LINES:
        h = head_block(r, 200, [(b"Transfer-Encoding", b"chunked")])
        add("chunkline.first", h + ln + CRLF + b"hello" + CRLF + b"0" + CRLF + CRLF, r.choice([5, 100, SIZE_MAX]))
        add("chunkline.second", h + b"3\r\nabc\r\n" + ln + CRLF + b"hello" + CRLF + b"0\r\n\r\n", r.choice([3, 8, 100, SIZE_MAX]))
    for v in CLEN_VALUES:
        add("clen.value", head_block(r, 200, [(b"Content-Length", v)]) + b"hello world", r.choice([4, 5, 6, 100, SIZE_MAX]))
        add("clen.value.ows", b"HTTP/1.1 200 OK\r\nContent-Length:" + r.choice([b"", b" ", b"\t ", b"  "]) + v +
            r.choice([b"", b" ", b"\t"]) + CRLF + CRLF + b"hello world", r.choice([5, 100]))
    for sl in STATUS_LINES:
        add("statusline", sl + CRLF + b"Content-Length: 3\r\n\r\nabc", 100)
        add("statusline.bare", sl + CRLF + CRLF + b"abc", 100)
    # bodies at limit-1 / limit / limit+1, limit 0, all framings
    for framing in ("clen", "chunked", "close"):
        for blen in (0, 1, 2, 3, 7, 100, 4095, 4096, 4097, 9000):
            body = rand_body(r, blen)
            for d in (-3, -2, -1, 0, 1, 2, 3):
                lim = blen + d
                if lim < 0:
                    continue
                add("limit.%s.%+d" % (framing, d), valid_stream(r, framing, body), lim)
        add("limit.%s.zero" % framing, valid_stream(r, framing, rand_body(r, r.randrange(0, 4))), 0)
        add("limit.%s.max" % framing, valid_stream(r, framing, rand_body(r, r.randrange(0, 400))), SIZE_MAX)
    # chunk totals creeping up to the limit with several chunks
    for _ in range(n // 25):
        sizes = [r.randrange(1, 40) for _ in range(r.randrange(1, 8))]
        body = rand_body(r, sum(sizes))
        h = head_block(r, 200, [(b"Transfer-Encoding", b"chunked")])
        add("limit.chunked.multi", h + chunked_body(r, body, list(sizes), r.choice("xX")), sum(sizes) + r.randrange(-4, 4) if sum(sizes) > 4 else sum(sizes))
    # HEAD / 204 / 304 / 1xx
    for st in (204, 304, 200, 404):
        add("bodiless", valid_stream(r, r.choice(["clen", "chunked", "close"]), b"abc", status=st) + b"trailing", None,
            r.choice([b"GET", b"HEAD", b"HEAD"]))
    for k in (1, 2, 3, 50, 300):
        s = b""
        for _ in range(k):
            s += head_block(r, r.randrange(100, 200), extra_fields(r, r.randrange(0, 30)))
        add("interim.flood", s + valid_stream(r, r.choice(["clen", "chunked", "close"]), rand_body(r, r.randrange(0, 50))), 100)
        add("interim.only", s, 100)
    # Transfer-Encoding / Content-Length interplay
    for te in (b"chunked", b"gzip, chunked", b"notchunkedx", b"Chunked", b"gzip", b"", b"chunke", b"chunked\x0b"):
        add("te.value", head_block(r, 200, [(b"Transfer-Encoding", te), (b"Content-Length", b"3")]) + b"3\r\nabc\r\n0\r\n\r\n", 100)
    add("te.case", head_block(r, 200, [(b"transfer-encoding", b"chunked")]) + b"3\r\nabc\r\n0\r\n\r\n", 100)
    add("clen.case", head_block(r, 200, [(b"content-length", b"3")]) + b"abcdef", 100)
    add("clen.twice", head_block(r, 200, [(b"Content-Length", b"3"), (b"Content-Length", b"5")]) + b"abcdef", 100)
    # header-line shapes
    for ln in (b"NoColon", b":", b"::", b": v", b"a:", b"a: ", b"a :b", b" a:b", b"a:b:c", b"a:\tb\t", b"a: \t b \t ", b"  ",
               b"\t", b"a\rb: c", b"a\nb: c", b"a: b\rc", b"\r", b"\n", b"a\x00b: c", b"a: b\x00", b"\x00", b"a:" + b" " * 300,
               b"a" * 5000 + b": " + b"b" * 5000):
        add("headerline", b"HTTP/1.1 200 OK\r\n" + ln + CRLF + b"Content-Length: 2\r\n\r\nok", 100)
    # more than 64 KiB of headers, with and without a terminator, around the cap
    for total in (65530, 65535, 65536, 65537, 65538, 65540, 70000, 140000):
        line = b"HTTP/1.1 200 OK\r\nX: "
        pad = total - len(line) - 4 - len(b"Content-Length: 2\r\n")
        blk = line + b"p" * pad + CRLF + b"Content-Length: 2\r\n" + CRLF
        assert len(blk) == total
        add("bigheader.terminated", blk + b"ok", 100)
        add("bigheader.unterminated", blk[:-2] + b"x" * 50, 100)
        many = b"HTTP/1.1 200 OK\r\n" + b"a:b\r\n" * ((total - 19) // 5)
        add("bigheader.manylines", many + CRLF + b"rest", 100)
    # structure damage
    for _ in range(n // 6):
        s = bytearray(valid_stream(r, r.choice(["clen", "chunked", "close"]), rand_body(r, r.randrange(0, 60))))
        k = r.randrange(7)
        if k == 0 and s:
            s[r.randrange(len(s))] = 0
            tag = "damage.nul"
        elif k == 1:
            i = bytes(s).find(CRLF, r.randrange(len(s)))
            if i >= 0:
                del s[i:i + r.choice([1, 2])]
            tag = "damage.crlf-removed"
        elif k == 2:
            i = bytes(s).find(CRLF, r.randrange(len(s)))
            if i >= 0:
                s[i:i + 2] = r.choice([b"\n", b"\r", b"\n\r", b"\r\r\n", b"\r\n\r\n"])
            tag = "damage.crlf-replaced"
        elif k == 3 and s:
            for _ in range(r.randrange(1, 4)):
                s[r.randrange(len(s))] = r.randrange(256)
            tag = "damage.flip"
        elif k == 4:
            i = r.randrange(len(s) + 1)
            s[i:i] = bytes(r.choice(b"\r\n\x00 :0f") for _ in range(r.randrange(1, 6)))
            tag = "damage.insert"
        elif k == 5:
            del s[r.randrange(len(s)):]
            tag = "damage.truncated"
        else:
            s = bytearray(r.choice(b"\r\n\x00 :HTP/1.20aX") for _ in range(r.randrange(0, 80)))
            tag = "damage.garbage"
        add(tag, bytes(s))
    # valid ones too
    for _ in range(n // 8):
        add("valid", valid_stream(r, r.choice(["clen", "chunked", "close", "none"]), rand_body(r, r.randrange(0, 300))),
            r.choice([1000, SIZE_MAX]), r.choice([b"GET", b"GET", b"HEAD"]))
    return out


def pad_head(prefix_fields, total):
    """a header block (status line .. blank line) of exactly `total` bytes"""
    base = b"HTTP/1.1 200 OK\r\n" + b"".join(a + b": " + b + CRLF for a, b in prefix_fields)
    pad = total - len(base) - len(b"X-Pad: \r\n") - 2
    assert pad >= 0
    blk = base + b"X-Pad: " + b"p" * pad + CRLF + CRLF
    assert len(blk) == total
    return blk


def gen_boundary(ctx, r):
    """buffer-boundary placement: the interesting bytes end exactly at (or 1..3 around) offset T of the reader's
    buffer; delivered in one shot so that recv fills the buffer to the brim.  -> list of (tag, stream, limit, segs, ending)"""
    out = []
    TE = [(b"Transfer-Encoding", b"chunked")]
    for T in (4096, 8192, 16384):
        for d in (-3, -2, -1, 0, 1, 2, 3):
            # 1. the header terminator ends at T + d
            blk = pad_head([(b"Content-Length", b"5")], T + d)
            out.append(("boundary.terminator", blk + b"hello", 100, "-", "e"))
            out.append(("boundary.terminator.cut", blk + b"hello", 100, "%d" % T, "e"))
            out.append(("boundary.terminator.partial", blk[:T], 100, "-", r.choice("ers")))
        for d in (-2, -1, 0, 1, 2):
            for hl in (300, T - 200) if T == 4096 else (T - 3000,):
                if hl < 60:
                    continue
                blk = pad_head(TE, hl)
                fill = T + d - hl
                # 2. chunk-size line empty / blank, followed by white space up to the end of the buffer (F2 shape)
                for line in (b"", b" ", b"\t\x0b"):
                    rest = line + CRLF
                    s = blk + rest + b" " * (fill - len(rest))
                    out.append(("boundary.chunkline.blanks-to-end", s, 100, "-", r.choice("es")))
                    s2 = blk + rest + (b"\r\n \t\x0b\x0c" * fill)[:fill - len(rest)]
                    out.append(("boundary.chunkline.spaces-to-end", s2, 100, "-", "e"))
                # 3. a valid size line whose CRLF ends at T + d, data following
                data = rand_body(r, 7)
                line = b"7" + b";" + b"e" * 10
                pre = fill - len(line) - 2
                if pre >= 0:
                    blk2 = pad_head(TE, hl + pre)
                    s = blk2 + line + CRLF + data + CRLF + b"0\r\n\r\n"
                    out.append(("boundary.chunkline.ends-at", s, 100, "-", "e"))
                # 4. chunk data whose trailing CRLF straddles T + d
                dl = fill - 3 - 2
                if 0 < dl < 70000:
                    data = rand_body(r, dl)
                    s = blk + b"%x" % dl + CRLF + data + CRLF + b"0\r\n\r\n"
                    out.append(("boundary.chunkdata.ends-at", s, r.choice([dl, dl + 1, 100000]), "-", "e"))
                # 5. digits then blanks to the end of the buffer, no EOL at all
                s = blk + b"5" + b" " * (fill - 1)
                out.append(("boundary.chunkline.no-eol", s, 100, "-", r.choice("es")))
    for tag, *_ in out:
        ctx.count(tag)
    return out


def gen_truncations(ctx, r):
    out = []
    for framing in ("clen", "chunked", "close", "none"):
        s = valid_stream(r, framing, b"hello", nf=1)
        if framing != "none" and r.random() < 0.5:
            s = head_block(r, 100, []) + s
        for k in range(len(s) + 1):
            out.append(("truncate." + framing, s[:k], 100, r.choice(["-", "r1", "r3"]), "ers"[k % 3]))
    for tag, *_ in out:
        ctx.count(tag)
    return out


def corpus_cases(name):
    p = os.path.join(vlib.VERIF, "corpus", "http", name)
    if not os.path.exists(p):
        return []
    return [l.strip() for l in open(p) if l.strip() and not l.startswith("#")]


def replay_cases(ctx, sub):
    rp = getattr(ctx, "replay", None)
    if not rp:
        return None
    cs = [f["case"] for f in rp.get("failures", []) if f.get("sub") == sub and str(f.get("case", "")).startswith("http ")]
    fi = rp.get("failing_input")
    if fi and fi.get("sub") == sub and str(fi.get("case", "")).startswith("http ") and fi["case"] not in cs:
        cs.insert(0, fi["case"])
    return cs


def check_common(ctx, sub, cases, exe, mexe, expect_cb=None, expect_req=None):
    """Run impl and model on `cases`; correspondence + the implementation-only predicates.
    expect_cb[i] / expect_req[i]: spec-level expectation (C09) or None."""
    sem, health, st = run_impl(exe, cases)
    model = run_model(mexe, cases)
    san = first_sanitizer_line(st)
    nbad = 0
    cbok_lines, cbok_idx = [], []
    for i, c in enumerate(cases):
        f = case_fields(c)
        problems = []
        hp = health_problem(health[i])
        if hp:
            problems.append(hp + ((" [" + san + "]") if san else ""))
        p = parse_sem(sem[i])
        if p is None:
            if not hp:
                problems.append("unparsable result: " + sem[i][:120])
        else:
            # exactly one callback, none if cancelled; the request call itself succeeded
            if p["ret"] != "ok":
                problems.append("http_request returned NULL")
            if p["end"] == "done" and p["cbs"] != 1:
                problems.append("%d callbacks for a finished request" % p["cbs"])
            if p["end"] == "cancelled" and p["cbs"] != 0:
                problems.append("callback made for a cancelled request")
            if p["end"] not in ("done", "cancelled"):
                problems.append("request ended with " + p["end"])
            for cb in p["cb"]:
                if cb is None:
                    continue
                bl = body_len_fields(cb[2])
                if bl is None:
                    problems.append("malformed body field " + cb[2][:40])
                    continue
                cbok_lines.append("cbok %x %d %d %x %x" % (f["limit"], cb[0], bl[0], bl[1], bl[2]))
                cbok_idx.append(i)
            if expect_cb is not None and expect_cb[i] is not None:
                want = "cbs=1" + expect_cb[i] + " end=done"
                got = sem[i].split(" ret=ok ", 1)[-1]
                if got != want:
                    problems.append("decoded response differs from the generated one: got %s want %s" % (got[:200], want[:200]))
            if expect_req is not None and expect_req[i] is not None and p["req"] != expect_req[i]:
                problems.append("request bytes differ from the documented layout: got %s want %s" % (p["req"][:200], expect_req[i][:200]))
        if problems:
            nbad += 1
            if nbad <= 4:
                ctx.fail(sub, "property", c, "; ".join(problems)[:600] + " || impl=" + sem[i][:200], property_fails=True)
    # spec predicate cb_ok (extracted from HttpSpec.v) on the implementation's callbacks
    if cbok_lines:
        res = run_model(mexe, cbok_lines)
        for j, rline in enumerate(res):
            if rline != "ok 1":
                nbad += 1
                if nbad <= 4:
                    i = cbok_idx[j]
                    ctx.fail(sub, "property", cases[i], "callback violates the bounds (status 100..599, body <= limit or "
                             "(size_t)-1 without buffer): %s -> %s || impl=%s" % (cbok_lines[j], rline, sem[i][:200]),
                             property_fails=True)
    # correspondence with the model (a diff is a failing input while the proofs stand)
    nd = 0
    for i, c in enumerate(cases):
        if sem[i] != model[i]:
            nd += 1
            if nd <= 4:
                ctx.fail(sub, "diff", c, "impl=%s model=%s" % (sem[i][:300], model[i][:300]),
                         property_fails=not ctx.proof_broken)
    ctx.count(sub + ".disagreements", nd)
    ctx.count(sub + ".property-failures", nbad)
    return sem, model


def check_http_safety(ctx):
    sub = "http.safety"
    exe, mexe = _build(ctx, sub)
    if not exe:
        return
    r = ctx.rng
    rp = replay_cases(ctx, sub)
    if rp is not None:
        cases = rp
    else:
        cases = corpus_cases("c08.txt")
        n = ctx.n(1500, 60000)
        muts = gen_mutations(ctx, r, n)
        # every mutation with several arrival patterns
        reps = ctx.n(1, 12)
        for tag, stream, limit, method in muts:
            big = len(stream) > 20000
            for _ in range(1 if big and ctx.quick else reps + (0 if big else 1)):
                segs = seg_choice(ctx, r, stream, "c08")
                ending = r.choice("eeeeeers")
                ctx.count("c08." + tag.split(".")[0])
                cases.append(case_line(stream, limit, method, segs, ending))
        for tag, stream, limit, segs, ending in gen_boundary(ctx, r):
            cases.append(case_line(stream, limit, b"GET", segs, ending))
        for tag, stream, limit, segs, ending in gen_truncations(ctx, r):
            cases.append(case_line(stream, limit, b"GET", segs, ending))
        if not ctx.quick:
            # chunk sizes above the 1 MiB wait cap, bodies of several MiB
            for blen in (1048576 - 1, 1048576, 1048577, 1300000, 2500000):
                body = bytes(97 + (i % 23) for i in range(blen))
                h = head_block(r, 200, [(b"Transfer-Encoding", b"chunked")])
                s = h + b"%x" % blen + CRLF + body + CRLF + b"0\r\n\r\n"
                for lim in (blen - 1, blen, blen + 1, SIZE_MAX):
                    cases.append(case_line(s, lim, b"GET", r.choice(["-", "r4096", "r65536", "r1000003"]), "e"))
                    ctx.count("c08.above-waitcap")
                cases.append(case_line(head_block(r, 200, [(b"Content-Length", str(blen).encode())]) + body, blen, b"GET",
                                       r.choice(["-", "r4097"]), "e"))
    sem, model = check_common(ctx, sub, cases, exe, mexe)
    # connection / write failures: one callback, NULL (implementation-only predicate; not modelled)
    extra = []
    if rp is None:
        s = valid_stream(r, "clen", b"hello")
        extra = [case_line(s, 100, opts="sockerr=111"), case_line(s, 100, opts="sendfail=1"),
                 case_line(s, 100, body=b"x" * 9000, sendchunk=1000, opts="sendfail=3"),
                 case_line(s, 100, body=b"x" * 9000, sendchunk=4096, opts="sendfail=2")]
        esem, ehealth, est = run_impl(exe, extra)
        for c, a, h in zip(extra, esem, ehealth):
            p = parse_sem(a)
            ok = p is not None and p["cbs"] == 1 and p["cb"] == [None] and p["end"] == "done" and health_problem(h) is None
            ctx.count("c08.io-failure")
            if not ok:
                ctx.fail(sub, "property", c, "connect/send failure must give exactly one NULL callback and a clean exit: %s | %s" % (a[:200], h), property_fails=True)
    ctx.record(sub, cases + extra, set(zip(cases, sem)),
               "real http.c+netbuf+network+events (ASan/UBSan/LSan, one forked process per case, scripted recv/send/poll) vs "
               "extracted HttpModel on structured mutations of valid responses x arrival patterns x buffer-boundary placement "
               "x truncation at every offset (EOF / ECONNRESET / stall+cancel); predicates on the implementation alone: clean "
               "exit, nothing live after all frees, exactly one callback (none if cancelled), HttpSpec.cb_ok on every "
               "callback; non-trivial = distinct (case, result)",
               samples=[cases[0][:300], cases[-1][:300]] if cases else [])


# --------------------------------------------------------------------------------------------
# C09: well-formed responses rendered by the SPEC (HttpSpec.render)

def ows(r):
    return bytes(r.choice(b" \t") for _ in range(r.choice([0, 0, 1, 1, 1, 2, 5])))


def gen_value(r):
    k = r.randrange(8)
    if k == 0:
        return b""
    if k == 1:
        return b"a:b::c"
    if k == 2:
        return b":"
    n = r.randrange(1, 30)
    v = bytearray(r.choice(b"abcdefghijklmnopqrstuvwxyz0123456789 :;,=\t\"/-_.\x01\x7f\xff") for _ in range(n))
    if v[0] in b" \t":
        v[0] = 0x61
    if v[-1] in b" \t":
        v[-1] = 0x7a
    return bytes(v)


def gen_name(r):
    k = r.randrange(6)
    if k == 0:
        return r.choice([b"content-length", b"transfer-encoding", b"Content-Lengthx", b"X-Content-Length", b"TRANSFER-ENCODING"])
    return bytes(r.choice(b"abcdefghijklmnopqrstuvwxyzABCDEFGHIJKLMNOPQRSTUVWXYZ0123456789-_!#$%&'*+.^`|~") for _ in range(r.randrange(1, 20)))


def field_txt(r, name=None, value=None):
    return "%s:%s:%s:%s" % (hx0(name if name is not None else gen_name(r)), hx0(value if value is not None else gen_value(r)), hx0(ows(r)), hx0(ows(r)))


def msg_txt(r, status, nfields, fields=None):
    minor = r.choice([b"1", b"1", b"0", b"11", b"01"])
    reason = bytes(r.choice(b"OKabc de-\t\x01\xfe") for _ in range(r.choice([0, 2, 2, 10, 40])))
    fs = fields if fields is not None else [field_txt(r) for _ in range(nfields)]
    return "%s/%d/%s/%s" % (hx0(minor), status, hx0(reason), ";".join(fs) or "-"), len(fs)


def chunk_txt(r, data):
    k = len(data)
    d = ("%x" if r.random() < 0.5 else "%X") % k
    if r.random() < 0.3:
        d = "0" * r.randrange(1, 6) + d
    ext = b""
    if r.random() < 0.35:
        ext = b";" + bytes(r.choice(b"abc=\"; \t\x00xyz0123456789abcdef") for _ in range(r.choice([0, 3, 10, 60, 254 - len(d) - 1])))
        ext = ext[:254 - len(d)]
    return "%s:%s:%s" % (hx0(d.encode()), hx0(ext), hx0(data))


def gen_wellformed(ctx, r, size_hint=None, tag="c09", with_body=False):
    """-> (render line, body length, ishead, framing kind); with_body: never HEAD / 204 / 304"""
    ishead = r.random() < 0.12 and not with_body
    status = r.choice([200, 200, 200, 201, 206, 301, 400, 404, 500, 599] + ([] if with_body else [204, 304]))
    bodiless = ishead or status in (204, 304)
    nint = r.choice([0, 0, 0, 1, 1, 2, 5])
    nf = r.choice([0, 0, 1, 2, 3, 5, 10, 40])
    interims = []
    for _ in range(nint):
        # shorter and longer than the final header block
        m, _n = msg_txt(r, r.randrange(100, 200), r.choice([0, 0, 1, nf + 5, 60]))
        interims.append(m)
    blen = size_hint if size_hint is not None else r.choice([0, 0, 1, 2, 3, 5, 8, 10, 17, 19, 100, 123, 1000, 4095, 4096, 4097,
                                                             5000, 9000, 20000])
    body = rand_body(r, blen)
    if bodiless:
        fr = "none"
        extra = []
        if r.random() < 0.5:
            extra = [field_txt(r, b"Content-Length", b"%d" % r.randrange(0, 99999))]
        if r.random() < 0.2:
            extra.append(field_txt(r, b"Transfer-Encoding", b"chunked"))
        final, nfin = msg_txt(r, status, 0, [field_txt(r) for _ in range(nf)] + extra)
        ctx.count(tag + ".framing.none")
        return "render %d %s %s none -" % (ishead, "|".join(interims) or "-", final), 0, ishead, "none"
    final, nfin = msg_txt(r, status, nf)
    pos = r.randrange(nfin + 1)
    kind = r.choice(["clen", "chunked", "chunked", "close"])
    ctx.count(tag + ".framing." + kind)
    if kind == "clen":
        # the length as the server wrote it: canonical, or with leading zeros (1*DIGIT; value unchanged - in
        # particular not read as octal, and 08 / 0019 are numbers)
        if r.random() < 0.5:
            digits = b"0" * r.choice([1, 1, 2, 3, 9]) + b"%d" % blen
            ctx.count(tag + ".clen.leading-zeros")
            if blen >= 8:
                ctx.count(tag + ".clen.leading-zeros.value>=8")
            return ("render 0 %s %s clen.%d.%s %s" % ("|".join(interims) or "-", final, pos, hx0(digits), hx(body)),
                    blen, ishead, kind)
        ctx.count(tag + ".clen.canonical")
        return "render 0 %s %s clen.%d %s" % ("|".join(interims) or "-", final, pos, hx(body)), blen, ishead, kind
    if kind == "close":
        return "render 0 %s %s close %s" % ("|".join(interims) or "-", final, hx(body)), blen, ishead, kind
    chunks, i = [], 0
    mode = r.randrange(4)
    while i < blen:
        if mode == 0:
            k = 1
        elif mode == 1:
            k = blen - i
        elif mode == 2:
            k = r.randrange(1, 20)
        else:
            k = r.randrange(1, blen - i + 1)
        if mode == 0 and len(chunks) > 300:
            k = blen - i
        chunks.append(chunk_txt(r, body[i:i + k]))
        i += k
    last = "0" * r.choice([1, 1, 1, 2, 8])
    lext = b";" + rand_token(r) if r.random() < 0.2 else b""
    trailer = r.choice([b"\r\n", b"", b"X-Trailer: v\r\n\r\n", b"\r\nHTTP/1.1 200 OK\r\n\r\n"])
    return ("render 0 %s %s chunked.%d.%s.%s.%s.%s %s" % ("|".join(interims) or "-", final, pos, hx0(last.encode()), hx0(lext),
                                                          hx0(trailer), ",".join(chunks), "-"), blen, ishead, kind)


def check_http_decode(ctx):
    sub = "http.decode"
    exe, mexe = _build(ctx, sub)
    if not exe:
        return
    r = ctx.rng
    rp = replay_cases(ctx, sub)
    cases, want = [], []
    if rp is not None:
        cases, want = rp, [None] * len(rp)
    else:
        n = ctx.n(700, 25000)
        gens = [gen_wellformed(ctx, r) for _ in range(n)]
        if not ctx.quick:
            gens += [gen_wellformed(ctx, r, size_hint=k) for k in (1048575, 1048576, 1048577, 1500000, 3000000)]
        rendered = run_model(mexe, [g[0] for g in gens])
        for g, line in zip(gens, rendered):
            m = re.match(r"ok (\d) (\S+)( cb=\S+)$", line)
            if not m:
                ctx.fail(sub, "tie", g[0][:300], "spec renderer gave: " + line[:200])
                continue
            if m.group(1) != "1":
                ctx.fail(sub, "tie", g[0][:300], "generator produced a response the spec calls ill-formed")
                continue
            stream = bytes.fromhex(m.group(2)) if m.group(2) != "-" else b""
            blen = g[1]
            big = len(stream) > 30000
            for _ in range(1 if big else ctx.n(2, 3)):
                limit = r.choice([blen, blen, blen + 1, blen + 1000, SIZE_MAX, 1 << 32])
                segs = seg_choice(ctx, r, stream, "c09")
                # the response is complete before the end of the stream except for read-to-EOF bodies
                ending = "e" if g[3] == "close" else r.choice("eers")
                cases.append(case_line(stream, limit, b"HEAD" if g[2] else r.choice([b"GET", b"POST", b"head", b"HEADX"]), segs, ending))
                want.append(m.group(3))
        # corpus: hand-written replays of the two repaired decoding defects etc.
        for c in corpus_cases("c09.txt"):
            cases.append(c)
            want.append(None)
    sem, model = check_common(ctx, sub, cases, exe, mexe, expect_cb=want)
    ctx.record(sub, cases, set(zip(cases, sem)),
               "well-formed responses generated as abstract objects, serialised by the SPEC (HttpSpec.render, extracted), played "
               "to the real client in many segmentations with limits at and above the body size: the callback must equal "
               "HttpSpec.expect exactly (status, header names/values in order, body) and agree with the extracted model",
               samples=[cases[0][:300], cases[-1][:300]] if cases else [])


# --------------------------------------------------------------------------------------------
# C09, two requests alive at the same time (driver option peer=): each callback gets its own response
def strip_peer(case):
    return " ".join(t for t in case.split() if not t.startswith("peer="))


def check_http_two_requests(ctx):
    sub = "http.two_requests"
    exe, mexe = _build(ctx, sub)
    if not exe:
        return
    r = ctx.rng
    rp = replay_cases(ctx, sub)
    cases = []
    if rp is not None:
        cases = rp
    else:
        n = ctx.n(250, 6000)
        gens = [gen_wellformed(ctx, r) for _ in range(2 * n)]
        rendered = run_model(mexe, [g[0] for g in gens])
        streams = []
        for g, line in zip(gens, rendered):
            m = re.match(r"ok 1 (\S+)( cb=\S+)$", line)
            if m and len(m.group(1)) < 40000:
                streams.append((g, bytes.fromhex(m.group(1)) if m.group(1) != "-" else b""))
        for i in range(0, len(streams) - 1, 2):
            (ga, sa), (gb, sb) = streams[i], streams[i + 1]
            if gb[2]:               # the second request is a GET
                if ga[2]:
                    continue
                (ga, sa), (gb, sb) = (gb, sb), (ga, sa)
            if r.random() < 0.5 and len(sa) < len(sb) and not ga[2] and not gb[2]:
                (ga, sa), (gb, sb) = (gb, sb), (ga, sa)     # the interrupted response is often the longer one
            # the first response arrives in pieces: often cut inside its (last) header block, so that the
            # second response arrives while the first one's header block is unterminated
            k = r.randrange(4)
            if k == 0 or len(sa) < 2:
                segs = seg_choice(ctx, r, sa, "c09two")
            else:
                cuts = []
                he = sa.find(CRLF + CRLF)
                hi = max(1, min(len(sa) - 1, (he + 3) if he >= 0 else len(sa) - 1))
                cuts.append(r.choice([hi, hi, max(1, hi - 1), max(1, hi - 3), r.randrange(1, hi + 1), r.randrange(1, len(sa))]))
                if r.random() < 0.4:
                    cuts.append(r.randrange(1, len(sa)))
                segs = seg_at(sorted(set(cuts)))
            nseg = 1 if segs in ("-",) or segs.startswith("r") else len(segs.split(","))
            j = r.choice([1, 1, 1, 2, r.randrange(0, nseg + 2)])
            la, lb = r.choice([ga[1], ga[1] + 1, SIZE_MAX]), r.choice([gb[1], gb[1] + 1, SIZE_MAX])
            ending = "e" if ga[3] == "close" else r.choice("eers")
            cases.append(case_line(sa, la, b"HEAD" if ga[2] else b"GET", segs, ending, opts="peer=%d:%x:%s" % (j, lb, hx(sb))))
            ctx.count("c09two.cases")
        cases += corpus_cases("c09two.txt")
    if not cases:
        return
    solo_a = [strip_peer(c) for c in cases]
    solo_b = []
    for c in cases:
        o = [t for t in c.split() if t.startswith("peer=")][0][5:].split(":")
        solo_b.append("http %s %s - - %s %s e - %s" % (hx(b"GET"), hx(b"/b"), c.split()[5], o[1], o[2]))
    sem, health, st = run_impl(exe, cases)
    model = run_model(mexe, solo_a + solo_b)
    ma, mb = model[:len(cases)], model[len(cases):]
    san = first_sanitizer_line(st)
    nbad = 0
    for i, c in enumerate(cases):
        problems = []
        hp = health_problem(health[i])
        if hp:
            problems.append(hp + ((" [" + san + "]") if san else ""))
        a, sep, b = sem[i].partition(" peer: ")
        if not sep:
            if not hp:
                problems.append("no result for the second request")
        else:
            if a != ma[i]:
                problems.append("FIRST request (its response arrives in pieces, the other one's in between): got %s, alone it gives %s" % (a[-300:], ma[i][-300:]))
            if b != mb[i]:
                problems.append("SECOND request (GET /b on its own connection, whole response then EOF): got %s, alone it gives %s" % (b[-300:], mb[i][-300:]))
        if problems:
            nbad += 1
            if nbad <= 4:
                ctx.fail(sub, "property", c, "; ".join(problems)[:900], property_fails=True)
    ctx.count(sub + ".property-failures", nbad)
    ctx.record(sub, cases, set(zip(cases, sem)),
               "two http_request()s alive at the same time on two connections: the first one's (well-formed, spec-rendered) response "
               "arrives in pieces - usually cut inside its header block - and the second one's complete response arrives in between; "
               "each request's result (request bytes, the one callback with status / headers / body) must be what the extracted model "
               "gives for that request alone", samples=[cases[0][:300]])



# --------------------------------------------------------------------------------------------
# C08, oversize clause: well-formed responses (HttpSpec.render) with the limit BELOW the body size

def check_http_oversize(ctx):
    """Expected outcome from the SPEC (HttpSpec.expect_limited, theorem C08_limit_respected): a body above the limit
    must be reported as status/headers of the response with bodylen (size_t)(-1) and no buffer - for the three
    framings, every segmentation, every ending of the connection; at and above the body size the decoded response."""
    sub = "http.oversize"
    exe, mexe = _build(ctx, sub)
    if not exe:
        return
    r = ctx.rng
    rp = replay_cases(ctx, sub)
    cases, want = [], []
    if rp is not None:
        cases, want = rp, [None] * len(rp)
    else:
        n = ctx.n(240, 8000)
        sizes = [1, 1, 2, 3, 5, 17, 40, 100, 1000, 4095, 4096, 4097, 9000, 20000]
        gens = [gen_wellformed(ctx, r, size_hint=r.choice(sizes), tag="c08.oversize", with_body=True) for _ in range(n)]
        if not ctx.quick:
            gens += [gen_wellformed(ctx, r, size_hint=k, tag="c08.oversize", with_body=True) for k in (1048577, 1500000)]
        rendered = run_model(mexe, [g[0] for g in gens])
        queries, qcase = [], []
        for g, line in zip(gens, rendered):
            m = re.match(r"ok (\d) (\S+)( cb=\S+)$", line)
            if not m or m.group(1) != "1":
                ctx.fail(sub, "tie", g[0][:300], "spec renderer / well-formedness gave: " + line[:200])
                continue
            stream = bytes.fromhex(m.group(2)) if m.group(2) != "-" else b""
            blen = g[1]
            big = len(stream) > 30000
            for _ in range(1 if big else ctx.n(3, 4)):
                k = r.randrange(10)
                if k <= 2:
                    limit, cls = blen - 1, "just-above"          # body = limit + 1
                elif k == 3:
                    limit, cls = max(0, blen - 2), "just-above"
                elif k == 4:
                    limit, cls = 0, "limit-zero"
                elif k <= 7:
                    limit, cls = r.randrange(blen), "inside"       # for chunked: after some chunks were stored
                elif k == 8:
                    limit, cls = blen, "at-limit"
                else:
                    limit, cls = blen + 1, "below-limit"
                ctx.count("c08.oversize.%s.%s" % (g[3], cls))
                segs = seg_choice(ctx, r, stream, "c08.oversize")
                # an oversized body is reported before the end of the stream is seen: any ending; a body within the
                # limit that is delimited by the close needs the EOF
                ending = "e" if (g[3] == "close" and limit >= blen) else r.choice("eers")
                cases.append(case_line(stream, limit, r.choice([b"GET", b"POST", b"head"]), segs, ending))
                queries.append("expectl %x %s" % (limit, g[0][len("render "):]))
        exp = run_model(mexe, queries)
        for q, e in zip(queries, exp):
            m = re.match(r"ok( cb=\S+)$", e)
            if not m:
                ctx.fail(sub, "tie", q[:300], "spec expect_limited gave: " + e[:200])
            want.append(m.group(1) if m else None)
        nover = sum(1 for w in want if w and w.endswith("/toobig"))
        ctx.count("c08.oversize.expected-toobig", nover)
        if cases and nover * 2 < len(cases):
            ctx.fail(sub, "tie", "", "generator: only %d of %d cases expect the oversize report" % (nover, len(cases)))
    sem, model = check_common(ctx, sub, cases, exe, mexe, expect_cb=want)
    ctx.record(sub, cases, set(zip(cases, sem)),
               "well-formed responses generated as abstract objects and serialised by the SPEC (HttpSpec.render), played to "
               "the real client with the caller's limit just below / inside / at / above the body size, three framings, many "
               "segmentations, EOF / error / stall after the last byte: the callback must equal HttpSpec.expect_limited "
               "(above the limit: the response's status and headers, bodylen (size_t)(-1), no buffer) and agree with the "
               "extracted model",
               samples=[cases[0][:300], cases[-1][:300]] if cases else [])


def check_http_request(ctx):
    sub = "http.request"
    exe, mexe = _build(ctx, sub)
    if not exe:
        return
    r = ctx.rng
    rp = replay_cases(ctx, sub)
    cases = []
    if rp is not None:
        cases = rp
    else:
        resp = b"HTTP/1.1 200 OK\r\nContent-Length: 2\r\n\r\nok"
        for _ in range(ctx.n(250, 5000)):
            method = r.choice([b"GET", b"HEAD", b"POST", b"PUT", b"DELETE", b"", b"H", b"HEA", b"HEADS", rand_token(r)])
            path = r.choice([b"/", b"", b"/a/b?c=d&e=%20", b"*", bytes(r.randrange(1, 256) for _ in range(r.randrange(0, 60))),
                             b"/" + b"p" * r.choice([100, 4000, 5000])])
            nh = r.choice([0, 0, 1, 2, 3, 8, 30])
            hd = []
            for _ in range(nh):
                hd.append((r.choice([b"Host", b"", rand_token(r), b"X" * 300]),
                           r.choice([b"", b"v", b"a: b", bytes(r.randrange(1, 256) for _ in range(r.randrange(0, 40))), b"y" * 5000])))
            body = r.choice([b"", b"", b"x", rand_body(r, r.randrange(1, 300)).replace(b"\x00", b"\x01"), b"B" * r.choice([4095, 4096, 4097, 10000])])
            if r.random() < 0.3:
                body = bytes(r.randrange(256) for _ in range(r.randrange(1, 50)))
            sendchunk = r.choice([0, 0, 1, 7, 4096, 100000]) if len(body) + 40 * nh < 3000 else r.choice([0, 4096, 1000])
            ctx.count("c09.req.headers=%s" % ("0" if nh == 0 else "1-3" if nh <= 3 else "many"))
            ctx.count("c09.req.body=%s" % ("none" if not body else "some"))
            if method == b"HEAD":
                ctx.count("c09.req.HEAD")
            cases.append(case_line(resp, 100, method, r.choice(["-", "r1", "r5"]), "e", path, hd, body, sendchunk))
    # the SPEC's layout for each request
    lay = run_model(mexe, ["layout " + " ".join(c.split()[1:5]) for c in cases])
    want = []
    for c, l in zip(cases, lay):
        if l.startswith("ok "):
            want.append(l[3:])
        else:
            want.append(None)
            ctx.fail(sub, "tie", c[:300], "spec layout gave: " + l[:100])
    sem, model = check_common(ctx, sub, cases, exe, mexe, expect_req=want)
    ctx.record(sub, cases, set(zip(cases, sem)),
               "requests (methods incl. HEAD and near-HEAD, 0..30 headers, empty names/values, bodies across the 4096-byte "
               "writer buffer, partial sends): bytes received by the wrapped send() must equal HttpSpec.request_layout and "
               "the extracted model; HEAD must suppress the body of the answer",
               samples=[cases[0][:300], cases[-1][:300]] if cases else [])


# --------------------------------------------------------------------------------------------
# C14: allocation failure inside an HTTP request

SRC_SSL = ["http/https.c", "netbuf/netbuf_ssl.c", "network_ssl/network_ssl.c", "network_ssl/network_ssl_compat.c"]


def check_https_setup_allocfail(ctx):
    """https_request(): the HTTPS entry point duplicates the host name, then runs the same set-up as
    http_request with the copy; whoever fails must release exactly what it owns (seed C14-l: the copy freed
    by both).  Every allocation of the set-up is refused, once and from there on; a request that does come
    into being is cancelled at once (no TLS is spoken)."""
    sub = "http.https-setup-allocfail"
    exe, err = vlib.build_c("drv_http_ssl_asan", "drv_http.c", SRC + SRC_SSL, extra_sources=["wrap_http.c"], wraps=WRAPS,
                            asan=True, cflags=["-DDRV_HTTPS", "-Wno-deprecated-declarations"], ldflags=["-lssl", "-lcrypto"],
                            per_file_flags={"http/http.c": ["-fno-sanitize=nonnull-attribute", "-fno-builtin"]})
    if not exe:
        ctx.fail(sub, "build", "", "C driver (HTTPS set-up) does not build: " + (err or "")[-1500:])
        return
    r = ctx.rng
    bases = [case_line(valid_stream(r, "clen", b"x"), 100, segs="-") + " https=1",
             case_line(valid_stream(r, "clen", b"x"), 100, segs="-", body=b"req" * 100, hdrs=[(b"Host", b"x"), (b"A", b"b")]) + " https=1"]
    sem0, health0, st0 = run_impl(exe, bases)
    cases = []
    for b, a, h in zip(bases, sem0, health0):
        m = re.match(r"allocs=(\d+)", h)
        p = parse_sem(a)
        if not m or health_problem(h) or p is None or p["ret"] != "ok":
            ctx.fail(sub, "property", b, "baseline run not clean: %s | %s" % (a[:100], h), property_fails=True)
            continue
        for k in range(1, int(m.group(1)) + 2):
            cases += [b + " failat=%d" % k, b + " failfrom=%d" % k]
            ctx.count("c14.https-setup.failure-index")
    sem, health, st = run_impl(exe, cases)
    san = first_sanitizer_line(st)
    nbad = 0
    for c, a, h in zip(cases, sem, health):
        problems = []
        hp = health_problem(h)
        if hp:
            problems.append(hp + ((" [" + san + "]") if san else ""))
        p = parse_sem(a)
        if p is None:
            if not hp:
                problems.append("unparsable: " + a[:100])
        elif p["cbs"] != 0:
            problems.append("callback made during set-up / cancel")
        if problems:
            nbad += 1
            if nbad <= 4:
                ctx.fail(sub, "property", c, "; ".join(problems)[:500] + " || impl=" + a[:160] + " | " + h, property_fails=True)
    ctx.record(sub, cases, set(zip(cases, sem)),
               "https_request set-up (real https.c, netbuf_ssl.c, network_ssl.c linked) with the k-th allocation refused, every "
               "k, once / from k on; a request that exists is cancelled immediately: NULL or a handle, no crash, no sanitizer "
               "report (double free), nothing live afterwards, no callback",
               samples=[cases[0][:200]] if cases else [])


def check_http_allocfail(ctx):
    sub = "http.allocfail"
    exe, mexe = _build(ctx, sub)
    if not exe:
        return
    r = ctx.rng
    bases = []
    body = rand_body(r, 9000)
    bases.append(case_line(valid_stream(r, "clen", body), 100000, segs="r1000"))
    bases.append(case_line(valid_stream(r, "chunked", body), 100000, segs="r4096", body=b"req" * 2000, hdrs=[(b"Host", b"x")]))
    bases.append(case_line(head_block(r, 100, extra_fields(r, 3)) + valid_stream(r, "close", body[:300]), 1000, segs="r7"))
    bases.append(case_line(valid_stream(r, "chunked", body), 100, segs="-"))
    bases.append(case_line(b"HTTP/1.1 200 OK\r\nTransfer-Encoding: chunked\r\n\r\nzz\r\n", 100, segs="r3"))
    bases.append(case_line(valid_stream(r, "none", b""), 100, method=b"HEAD"))
    # interim 1xx responses: the header copy and the header array of the 1xx block are freed and both are allocated
    # again for the final block; an allocation refused in between (the wait for the final response, the new copy, the
    # new array) must end in a clean -1, not in a second free of the discarded block (seed C14-j).  0 / 1 / 3 header
    # lines in the 1xx block, the final response in the same segment and in a later one, three framings; short
    # scenarios, so that EVERY allocation index is refused (once and from there on) in the quick tier too
    every_index = set()
    for nh in (0, 1, 3):
        inter = b"HTTP/1.1 103 Early Hints\r\n" + b"".join(b"Link: </a%d>\r\n" % i for i in range(nh)) + CRLF
        for fr in ("clen", "chunked", "close"):
            fin = valid_stream(r, fr, b"hello world", nf=1)
            for segs in ("-", "%d" % len(inter)):
                ctx.count("c14.http.interim-1xx.%s" % ("same-segment" if segs == "-" else "later-segment"))
                every_index.add(len(bases))
                bases.append(case_line(inter + fin, 100, segs=segs))
    # two 1xx blocks in a row, the second discarded while the first one's pointers are long gone
    inter2 = b"HTTP/1.1 100 Continue\r\n\r\nHTTP/1.1 103 Early Hints\r\nLink: </a>\r\nLink: </b>\r\n\r\n"
    every_index.add(len(bases))
    bases.append(case_line(inter2 + valid_stream(r, "clen", b"hello", nf=0), 100, segs="25,%d" % (len(inter2) - 25)))
    sem0, health0, st0 = run_impl(exe, bases)
    cases = []
    for bi, (b, h) in enumerate(zip(bases, health0)):
        m = re.match(r"allocs=(\d+)", h)
        if not m or health_problem(h):
            ctx.fail(sub, "property", b, "baseline run not clean: " + h, property_fails=True)
            continue
        n = int(m.group(1))
        ks = list(range(1, n + 1))
        if ctx.quick and len(ks) > 24 and bi not in every_index:
            ks = ks[:14] + sorted(r.sample(ks[14:], 10))
        for k in ks:
            cases.append(b + " failat=%d" % k)
            cases.append(b + " failfrom=%d" % k)
            ctx.count("c14.http.failure-index")
    sem, health, st = run_impl(exe, cases)
    san = first_sanitizer_line(st)
    nbad = 0
    nreq = 0
    for c, a, h in zip(cases, sem, health):
        problems = []
        hp = health_problem(h)
        if hp:
            problems.append(hp + ((" [" + san + "]") if san else ""))
        p = parse_sem(a)
        k = int(c.rsplit("=", 1)[1])
        if p is None:
            if not hp:
                problems.append("unparsable: " + a[:100])
        else:
            if p["cbs"] > 1:
                problems.append("more than one callback")
            if p["ret"] == "null":
                nreq += 1
                if p["cbs"] != 0 or p["req"] != "-":
                    problems.append("http_request returned NULL but something was sent or called back")
            if p["end"] == "stuck":
                problems.append("request neither finished nor failed")
            if p["end"] in ("error", "error-cancelled") and p["cbs"] != 0:
                problems.append("callback made although the event loop reported the failure")
            # the first allocations are those of http_request2 itself (cookie, request head, connect cookie ...):
            # refusing one of them must be reported by a NULL return
            if k <= 3 and p["ret"] != "null":
                problems.append("allocation %d refused inside http_request2 but it did not return NULL" % k)
        if problems:
            nbad += 1
            if nbad <= 4:
                ctx.fail(sub, "property", c, "; ".join(problems)[:500] + " || impl=" + a[:160] + " | " + h, property_fails=True)
    ctx.count("c14.http.request-returned-null", nreq)
    ctx.record(sub, cases, set(zip(cases, sem)),
               "HTTP requests (incl. 1xx blocks with 0/1/3 header lines before the final response, same / later segment, three "
               "framings: every k) re-run with the k-th library allocation refused (once / from k on), every k in thorough: no "
               "crash, no sanitizer report, nothing live after the normal frees, at most one callback, NULL return when the "
               "refusal is inside http_request2, never a callback after an error return",
               samples=[cases[0][:200], cases[-1][:200]] if cases else [])


# --------------------------------------------------------------------------------------------
# C09, known finding F12: responses that are well formed except for MAXHDR / MAXCHLEN

SIG_LIMITS = "http.limits-segmentation-dependent"
LIMIT_CASES = [("limits_chunkline.case", ["-", "r1", "r100", "r4096"]),
               ("limits_hdrblock.case", ["-", "r100", "r4096", "r65537", "r70000"])]


def check_http_limits(ctx):
    """KNOWN-FINDING probe.  Each corpus file holds one abstract response (a `render` line) that satisfies
    HttpSpec.wf_response_nolimits but not HttpSpec.within_limits.  Its rendering is played to the implementation and to
    the model in several segmentations; the property demands HttpSpec.expect for every one of them."""
    sub = "http.limits"
    exe, mexe = _build(ctx, sub)
    if not exe:
        return
    if replay_cases(ctx, sub) is not None:
        return
    groups, cases, want = [], [], []
    for name, seglist in LIMIT_CASES:
        lines = corpus_cases(name)
        if len(lines) != 1 or not lines[0].startswith("render "):
            ctx.fail(sub, "tie", name, "corpus/http/%s must hold exactly one render line" % name)
            continue
        rline = lines[0]
        rend, wfnl = run_model(mexe, [rline, "wfnl " + rline[len("render "):]])
        m = re.match(r"ok (\d) (\S+)( cb=\S+)$", rend)
        if not m or wfnl != "ok 1 0" or m.group(1) != "0":
            ctx.fail(sub, "tie", name, "the spec must call this response well formed without the limits and outside them: "
                     "render -> %s..., wfnl -> %s" % (rend[:40], wfnl[:40]))
            continue
        stream = bytes.fromhex(m.group(2))
        first = len(cases)
        for segs in seglist:
            cases.append(case_line(stream, 1 << 32, b"GET", segs, "e"))
            want.append("cbs=1" + m.group(3) + " end=done")
            ctx.count("c09.limits." + name.split(".")[0])
        groups.append((name, first, len(cases)))
    if not cases:
        return
    sem, health, st = run_impl(exe, cases)
    model = run_model(mexe, cases)
    san = first_sanitizer_line(st)
    for name, lo, hi in groups:
        exact, other = [], []
        for i in range(lo, hi):
            segs = case_fields(cases[i])["segs"]
            hp = health_problem(health[i])
            if hp:
                ctx.fail(sub, "sanitizer", cases[i][:400], hp + ((" [" + san + "]") if san else ""), property_fails=True)
            if sem[i] != model[i]:
                ctx.fail(sub, "diff", cases[i][:400], "impl=%s model=%s" % (sem[i][-200:], model[i][-200:]),
                         property_fails=not ctx.proof_broken)
            got = sem[i].split(" ret=ok ", 1)[-1]
            (exact if got == want[i] else other).append((segs, i, got))
        if other:
            segs, i, got = other[0]
            ctx.fail(sub, "property", cases[i][:400] + ("..." if len(cases[i]) > 400 else ""),
                     "corpus/http/%s (well formed except for MAXHDR/MAXCHLEN): decoded exactly for segmentations [%s] but not "
                     "for [%s]; with %s the callback got %s" % (name, ",".join(x[0] for x in exact) or "none",
                                                               ",".join(x[0] for x in other), segs, got[-120:]),
                     property_fails=True, signature=SIG_LIMITS)
    ctx.record(sub, cases, set(zip(cases, sem)),
               "known-finding probe F12: the two corpus responses that violate only HttpSpec.within_limits (chunk-size line of "
               "304 bytes; header block of 70 kB), rendered by the spec, played one-shot and in fixed-size segments to the "
               "real client and the model; anything but HttpSpec.expect is reported with signature " + SIG_LIMITS,
               samples=[cases[0][:300]])


SUBCHECKS = {"C08": [check_http_safety, check_http_oversize], "C09": [check_http_limits, check_http_decode, check_http_request, check_http_two_requests],
             "C14": [check_http_allocfail, check_https_setup_allocfail]}
