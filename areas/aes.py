"""crypto/crypto_aes*.c, crypto/crypto_aesctr*.c: correspondence of the compiled library (two build
configurations: AES-NI and software-only/OpenSSL) with the extracted models and with the FIPS-197 /
SP 800-38A spec; wipe-on-free observed through --wrap=malloc/free (C20); a third build of the AES-NI
configuration (--wrap=malloc + wrapped AES-NI entry points) in which an allocation of the first-use
self-test is refused: both modules must then select the same implementation (check_aes_select)."""
import glob
import os

import vlib

HERE = os.path.dirname(os.path.dirname(os.path.abspath(__file__)))
CPUCFG = os.path.join(HERE, "harness", "cpuconfig")

SRCS_SW = ["crypto/crypto_aes.c", "crypto/crypto_aesctr.c", "util/insecure_memzero.c", "util/warnp.c"]
SRCS_NI = SRCS_SW + ["crypto/crypto_aes_aesni.c", "crypto/crypto_aesctr_aesni.c", "cpusupport/cpusupport_x86_aesni.c"]
# the repo's Makefiles give CFLAGS_X86_AESNI (= -maes) to exactly these two files
NI_FLAGS = {"crypto/crypto_aes_aesni.c": ["-maes"], "crypto/crypto_aesctr_aesni.c": ["-maes"]}
QUIET = ["-Wno-deprecated-declarations"]   # CFLAGS_LIBCRYPTO_LOW_LEVEL_AES: OpenSSL 3 deprecates AES_encrypt


def hx(bs):
    b = bytes(bs)
    return b.hex() if b else "-"


def rbytes(r, n):
    return bytes(r.getrandbits(8) for _ in range(n)) if n < 64 else r.getrandbits(8 * n).to_bytes(n, "little")


def host_has_aes():
    try:
        for line in open("/proc/cpuinfo"):
            if line.startswith("flags"):
                return " aes " in line + " "
    except OSError:
        pass
    return False


CFG_HEADER = {"aesni": "aesni.h", "sw": "none.h", "nicpu0": "aesni_nocpuid.h", "aesni_wa": "aesni.h", "aesni_m8": "aesni.h"}
# aesni_wa: the AES-NI build as cpusupport.sh configures it for compilers without _mm_loadu_si64
# (its last CFLAGS alternative, -DBROKEN_MM_LOADU_SI64): crypto_aesctr_aesni.c then loads the nonce
# and the block counter through the documented work-around branch of load_si64()
WA_FLAGS = {"crypto/crypto_aes_aesni.c": ["-maes"], "crypto/crypto_aesctr_aesni.c": ["-maes", "-DBROKEN_MM_LOADU_SI64"]}


def build(cfg, wipe=False):
    """cfg in {'aesni', 'sw', 'nicpu0'}; returns (exe, err).  nicpu0 = the AES-NI build whose run-time
    CPU detection answers "no AES-NI" (compiled without the CPUID probe)."""
    name = "drv_aes_%s%s" % (cfg, "_wipe" if wipe else "_asan")
    if cfg == "aesni_m8":
        # AES-NI build whose library allocations are 8 (not 16) bytes aligned: harness/drv_aes.c DRV_MALLOC8
        return vlib.build_c(name, "drv_aes.c", SRCS_NI, cflags=QUIET + ["-DDRV_MALLOC8", "-fno-builtin-malloc", "-fno-builtin-free"],
                            ldflags=["-lcrypto"], wraps=["malloc", "free"], asan=True,
                            cpuconfig=os.path.join(CPUCFG, "aesni.h"), per_file_flags=NI_FLAGS)
    ni = cfg in ("aesni", "nicpu0", "aesni_wa")
    return vlib.build_c(
        name, "drv_aes.c", SRCS_NI if ni else SRCS_SW,
        cflags=QUIET + (["-DDRV_WIPE"] if wipe else []),
        ldflags=["-lcrypto"], wraps=["malloc", "free"] if wipe else [],
        asan=not wipe, cpuconfig=os.path.join(CPUCFG, CFG_HEADER[cfg]),
        per_file_flags=(WA_FLAGS if cfg == "aesni_wa" else NI_FLAGS) if ni else None)


SEL_WRAPS = ["malloc", "crypto_aes_key_expand_aesni", "crypto_aes_encrypt_block_aesni", "crypto_aesctr_aesni_stream"]


def build_sel():
    """AES-NI configuration, ASan, allocations inside library calls refusable, AES-NI entry points observable."""
    return vlib.build_c("drv_aes_aesni_sel", "drv_aes.c", SRCS_NI, cflags=QUIET + ["-DDRV_SELFAIL"],
                        ldflags=["-lcrypto"], wraps=SEL_WRAPS, asan=True,
                        cpuconfig=os.path.join(CPUCFG, "aesni.h"), per_file_flags=NI_FLAGS)


def active_path(ctx, sub, exe, cfg):
    """Which implementation did the library select?  A build that silently fell back is not covered."""
    rc, lines, err = vlib.run_lines(exe, "path\n", timeout=60, env={"ASAN_OPTIONS": "detect_leaks=0"})
    got = lines[0] if lines else "<no-output rc=%d>" % rc
    want_ni = cfg in ("aesni", "aesni_wa", "aesni_m8") and host_has_aes()
    ctx.count("aes.path.%s.%s" % (cfg, got.replace(" ", "_")))
    if cfg in ("aesni", "aesni_wa", "aesni_m8") and not host_has_aes():
        ctx.notes.append("host CPU lacks AES-NI: the aesni configuration runs its software fallback; AES-NI path NOT covered")
    if want_ni and not got.startswith("path 1"):
        ctx.fail(sub, "diff", "path",
                 "AES-NI build on an AES-NI CPU selected '%s' (self-test of the AES-NI path failed -> silent software fallback); %s"
                 % (got, err.strip()[-200:]), property_fails=False)
    if cfg == "sw" and not got.startswith("path 0"):
        ctx.fail(sub, "diff", "path", "software-only build reports '%s'" % got, property_fails=False)
    return got


def corpus(prefix):
    out = []
    for p in sorted(glob.glob(os.path.join(HERE, "corpus", "aes", "*.txt"))):
        for line in open(p):
            line = line.strip()
            if line and not line.startswith("#") and line.split()[0] in prefix:
                out.append(line)
    return out


# ---------------------------------------------------------------------------- generators

def gen_block(ctx, direct):
    r = ctx.rng
    kind = "blockni" if direct else "block"
    cases = [c if not direct else c.replace("block ", "blockni ", 1) for c in corpus(("block",))]
    special = [bytes(16), bytes(32), b"\xff" * 16, b"\xff" * 32, bytes(range(16)), bytes(range(32)),
               bytes([0x80] + [0] * 15), bytes([0] * 15 + [1]), bytes([0] * 31 + [1])]
    blocks = [bytes(16), b"\xff" * 16, bytes(range(16)), bytes([0x80] + [0] * 15), bytes([0] * 15 + [1])]
    for k in special:
        cases.append("%s %s %s" % (kind, hx(k), " ".join(hx(b) for b in blocks)))
        ctx.count("aes.block.special-key-%d" % len(k))
    # every byte value through the S-box at every state position: blocks i*0x01010101..
    for klen in (16, 32):
        k = rbytes(r, klen)
        cases.append("%s %s %s" % (kind, hx(k), " ".join(hx(bytes([v] * 16)) for v in range(0, 256, 5))))
    for _ in range(ctx.n(150, 4000)):
        klen = r.choice((16, 32))
        nb = r.choice((1, 1, 2, 5))
        cases.append("%s %s %s" % (kind, hx(rbytes(r, klen)), " ".join(hx(rbytes(r, 16)) for _ in range(nb))))
        ctx.count("aes.block.key%d" % klen)
    return cases


SIZES = [0, 1, 15, 16, 17, 31, 32, 33]


def nonce_tok(r):
    return "%016x" % r.choice([0, 1, 0xffffffffffffffff, 0x0123456789abcdef, r.getrandbits(64), r.getrandbits(64)])


def key_tok(r):
    return "K" + hx(rbytes(r, r.choice((16, 32))))


def stream_tok(r, n):
    return ("S" if r.random() < 0.5 else "s") + hx(rbytes(r, n))


def to_pos(r, toks, pos, target):
    """append stream calls that move the stream from byte position pos to target"""
    left = target - pos
    while left > 0:
        n = min(left, r.choice([left, 16 * 64, 16 * 200 + 5, 4096, 1000]))
        toks.append(stream_tok(r, n))
        left -= n
    return target


def gen_ctr(ctx):
    r = ctx.rng
    cases = list(corpus(("ctr",)))
    # 1. small-size mixes: every pair/triple flavour of the boundary sizes, separate and in place
    for _ in range(ctx.n(220, 6000)):
        toks = [key_tok(r), "I" + nonce_tok(r)]
        for _ in range(r.randrange(1, 9)):
            n = r.choice(SIZES) if r.random() < 0.8 else r.randrange(0, 80)
            toks.append(stream_tok(r, n))
            ctx.count("aes.ctr.size-%s" % (n if n in SIZES else "other"))
        cases.append("ctr " + " ".join(toks))
    # 2. at every bytectr mod 16: alternate < 16 and >= 16 byte calls (path switching inside one stream)
    for m in range(16):
        for variant in range(ctx.n(2, 12)):
            toks = [key_tok(r), "I" + nonce_tok(r)]
            if m:
                toks.append(stream_tok(r, m))
            pos = m
            for j in range(6):
                if (j + variant) % 2 == 0:
                    n = r.choice([16, 17, 31, 32, 33, 16 + (16 - pos % 16) % 16, 48, 64 - pos % 16, 100])
                else:
                    n = r.choice([1, 15, (16 - pos % 16) % 16, 16 - pos % 16 - 1 if pos % 16 < 15 else 1, 7])
                    n = max(0, min(15, n))
                toks.append(stream_tok(r, n))
                pos += n
            cases.append("ctr " + " ".join(toks))
            ctx.count("aes.ctr.alternate-mod%d" % m)
    # 3. multi-KiB calls mixed with small ones
    for _ in range(ctx.n(12, 200)):
        toks = [key_tok(r), "I" + nonce_tok(r)]
        for _ in range(r.randrange(2, 6)):
            n = r.choice(SIZES + [1024, 2048 + r.randrange(32), 4096, 5000 + r.randrange(3000)])
            toks.append(stream_tok(r, n))
        cases.append("ctr " + " ".join(toks))
        ctx.count("aes.ctr.multi-KiB")
    # 4. low counter byte wrap: positions straddling blocks 255/256/257 with every flavour of call
    for variant in range(ctx.n(6, 60)):
        toks = [key_tok(r), "I" + nonce_tok(r)]
        start = 16 * 254 + r.choice([0, 1, 8, 15])
        pos = to_pos(r, toks, 0, start)
        while pos < 16 * 259:
            n = r.choice(SIZES + [40, 48])
            toks.append(stream_tok(r, n))
            pos += n
        cases.append("ctr " + " ".join(toks))
        ctx.count("aes.ctr.straddle-256")
    # one long stream through 4100 blocks (wraps the low byte 16 times), ending mid-block, then bytes
    toks = [key_tok(r), "I" + nonce_tok(r)]
    pos = to_pos(r, toks, 0, 16 * 4100 + 5)
    toks += [stream_tok(r, 11), stream_tok(r, 16), stream_tok(r, 3)]
    cases.append("ctr " + " ".join(toks))
    ctx.count("aes.ctr.4100-blocks")
    # a 4100-block stream made of single large calls only (bulk path end to end)
    cases.append("ctr %s I%s S%s s%s" % (key_tok(r), nonce_tok(r), hx(rbytes(r, 16 * 4100)), hx(rbytes(r, 33))))
    ctx.count("aes.ctr.4100-blocks")
    # 4b. WHITE-BOX seek (token J: stream->bytectr = 16*B right after init2, pblk[15] still 0xff):
    # counter carries out of byte 1, 2, 3, 4, 5, 6, 7 without producing the keystream in between.
    # Patterns: one call across the boundary (AES-NI whole-block loop), several small calls across
    # it, a partial block first (so that pblk[15] != 0xff when the wrap happens), and partial /
    # >= 16 bytes ending exactly on a block boundary / 1..15 bytes (pblk write-back of the bulk path).
    for k in (8, 16, 24, 32, 40, 48, 56):
        for d in ((1, 2, 3) if k > 8 else (1, 3)):
            for variant in range(ctx.n(5, 12)):
                B = (1 << k) - d
                toks = [key_tok(r), r.choice("IN") + nonce_tok(r)]
                if toks[1][0] == "N":
                    toks.insert(1, "A")
                toks.append("J%016x" % (16 * B))
                if variant == 0:        # one call across
                    toks.append(stream_tok(r, r.choice([17, 48, 100, 16 * d + 16, 16 * d + 1, 4096])))
                    toks.append(stream_tok(r, r.choice([1, 16, 33])))
                elif variant == 1:      # small calls across
                    pos = 0
                    while pos < 16 * d + 40:
                        n = r.choice([1, 15, 16, 17])
                        toks.append(stream_tok(r, n)); pos += n
                elif variant == 2:      # partial first, then one call across
                    p0 = r.randrange(1, 16)
                    toks += [stream_tok(r, p0), stream_tok(r, r.choice([100, 48 + 16 * d, 4096, 16 * d + 16 - p0 + 5])), stream_tok(r, 7)]
                elif variant == 3:      # partial, >= 16 bytes ending exactly on a block boundary, 1..15 bytes
                    p0 = r.randrange(1, 16)
                    toks += [stream_tok(r, p0), stream_tok(r, 16 - p0 + 16 * r.choice([1, d, d + 1])), stream_tok(r, r.randrange(1, 16)),
                             stream_tok(r, 20)]
                else:                   # random mix
                    for _ in range(r.randrange(2, 7)):
                        toks.append(stream_tok(r, r.choice(SIZES + [48, 100, 300])))
                cases.append("ctr " + " ".join(toks))
                ctx.count("aes.ctr.seek-2^%d" % k)
    # 5. second counter byte carry at block 65536 (thorough)
    if not ctx.quick:
        for variant in range(3):
            toks = [key_tok(r), "I" + nonce_tok(r)]
            pos = 0
            big = 16 * 65534 + r.choice([0, 3, 15])
            while pos < big:                       # few, very large calls
                n = min(big - pos, 16 * 20000 + r.randrange(16))
                toks.append(stream_tok(r, n))
                pos += n
            while pos < 16 * 65539:
                n = r.choice(SIZES + [48])
                toks.append(stream_tok(r, n))
                pos += n
            cases.append("ctr " + " ".join(toks))
            ctx.count("aes.ctr.straddle-65536")
        cases.append("ctr %s I%s s%s s%s" % (key_tok(r), nonce_tok(r), hx(rbytes(r, 16 * 70000 + 7)), hx(rbytes(r, 40))))
        ctx.count("aes.ctr.70000-blocks")
    # 6. re-initialisation with and without a new key, alloc + init2, one-shot buf, free + init again
    for _ in range(ctx.n(120, 3000)):
        toks = [key_tok(r), r.choice(["I" + nonce_tok(r), "A N" + nonce_tok(r)])]
        for _ in range(r.randrange(2, 7)):
            k = r.randrange(10)
            if k == 0:
                toks.append("R" + nonce_tok(r)); ctx.count("aes.ctr.reinit-same-key")
            elif k == 1:
                toks += [key_tok(r), "N" + nonce_tok(r)]; ctx.count("aes.ctr.reinit-new-key")
            elif k == 2:
                toks += [key_tok(r), "R" + nonce_tok(r)]; ctx.count("aes.ctr.new-key-expanded-but-NULL-passed")
            elif k == 3:
                toks += ["F", "I" + nonce_tok(r)]; ctx.count("aes.ctr.free-init")
            elif k == 4:
                toks.append("B%s:%s" % (nonce_tok(r), hx(rbytes(r, r.choice(SIZES + [100, 700]))))); ctx.count("aes.ctr.buf-oneshot")
            else:
                toks.append(stream_tok(r, r.choice(SIZES + [5, 20, 47, 300])))
        cases.append("ctr " + " ".join(toks))
    # 7. re-init after the counter bytes above the low one became non-zero (stale pblk[8..14])
    for _ in range(ctx.n(4, 40)):
        toks = [key_tok(r), "I" + nonce_tok(r)]
        to_pos(r, toks, 0, 16 * r.choice([256, 257, 300, 511, 513]) + r.choice([0, 5]))
        toks += [r.choice(["R", "N"]) + nonce_tok(r), stream_tok(r, r.choice([1, 16, 17, 40])), stream_tok(r, 20)]
        cases.append("ctr " + " ".join(toks))
        ctx.count("aes.ctr.reinit-with-stale-high-counter-bytes")
    return cases


# ---------------------------------------------------------------------------- sub-checks

def _models(ctx, sub):
    """the extracted model runner, started through a wrapper that lifts the stack limit: the
    extracted list functions are not tail recursive and thorough-tier streams have 10^6 bytes"""
    mexe, err = vlib.build_model("aes")
    if not mexe:
        ctx.fail(sub, "tie", "", err)
        return None
    wrap = mexe + "_bigstack"
    text = "#!/bin/sh\nulimit -s unlimited 2>/dev/null || ulimit -s 4000000 2>/dev/null\nexec %s \"$@\"\n" % mexe
    if not os.path.exists(wrap) or open(wrap).read() != text:
        tmp = "%s.%d" % (wrap, os.getpid())
        with open(tmp, "w") as f:
            f.write(text)
        os.chmod(tmp, 0o755)
        os.replace(tmp, wrap)
    return wrap


ASAN_ENV = {"ASAN_OPTIONS": "detect_leaks=1:abort_on_error=0:malloc_fill_byte=190:max_malloc_fill_size=4096"}


def describe(c):
    return c if len(c) < 1500 else c[:700] + " ...[%d chars]... " % len(c) + c[-300:]


def _selftest_vectors(ctx, sub, mexe):
    """the self-test vectors now in crypto_aes.c are the FIPS-197 C.1 / C.3 examples under the spec"""
    rc, lines, _ = vlib.run_lines(mexe, "selftest\n", args=("sw",))
    v = lines[0].split()[1:] if lines else []
    if len(v) != 6:
        ctx.fail(sub, "tie", "selftest", "model runner gave %r" % lines[:1])
        return
    cases = ["slow block %s %s" % (v[0], v[1]), "slow block %s %s" % (v[3], v[4])]
    rc, lines, _ = vlib.run_lines(mexe, "\n".join(cases) + "\n", args=("sw",))
    for c, got, want in zip(cases, lines, ("ok " + v[2], "ok " + v[5])):
        if got != want:
            ctx.fail(sub, "property", c, "self-test vector in crypto_aes.c is not FIPS-197: spec=%s source=%s" % (got, want),
                     property_fails=True)


def balanced(cases):
    """Order the cases so that run_sharded's equal-count contiguous shards carry similar work
    (longest-processing-time first into NCPU bins of equal capacity).  Returns (ordered, index map)."""
    n = len(cases)
    shards = max(1, min(vlib.NCPU, n))
    per = (n + shards - 1) // shards
    bins = [[] for _ in range(shards)]
    load = [0] * shards
    for i in sorted(range(n), key=lambda i: -len(cases[i])):
        k = min((b for b in range(shards) if len(bins[b]) < per), key=lambda b: load[b])
        bins[k].append(i)
        load[k] += len(cases[i]) + 200
    order = [i for b in bins for i in b]
    return [cases[i] for i in order], order


def run_balanced(exe, cases, **kw):
    ordered, order = balanced(cases)
    out, st = vlib.run_sharded(exe, ordered, **kw)
    res = [None] * len(cases)
    for pos, i in enumerate(order):
        res[i] = out[pos] if pos < len(out) else "<missing>"
    return res, st


_SPEC_CACHE = {}


def _run_cfg(ctx, sub, cfg, cases, mexe, slow_every=0):
    exe, err = build(cfg)
    if not exe:
        ctx.fail(sub, "build", cfg, "C driver (%s) does not build: %s" % (cfg, err))
        return
    active_path(ctx, sub, exe, cfg)
    impl, st = run_balanced(exe, cases, env=ASAN_ENV)
    vlib.sanitizer_reports(ctx, sub + "." + cfg, st)
    key = vlib.hashlib.md5("\n".join(cases).replace("blockni ", "block ").encode()).hexdigest()
    if key not in _SPEC_CACHE:
        _SPEC_CACHE[key] = run_balanced(mexe, ["spec " + c for c in cases], args=("sw",))[0]
    spec = _SPEC_CACHE[key]
    if cfg in ("aesni", "aesni_wa", "aesni_m8"):
        model, _ = run_balanced(mexe, cases, args=("aesni",))
    elif cases and cases[0].startswith("ctr"):
        model, _ = run_balanced(mexe, cases, args=("sw",))     # portable loop over the spec cipher
    else:
        model = spec                                               # OpenSSL is not modelled
    # cases on which the library differs from the SPEC first: when the model itself answers Fault (the
    # translator found no form for a rewritten statement) every case is a model diff, and the first few
    # reported must still be the failing inputs
    order = sorted(range(len(cases)), key=lambda i: 0 if i < len(impl) and i < len(spec) and impl[i] != spec[i] else 1)
    pick = lambda l: [l[i] if i < len(l) else "<missing>" for i in order]
    vlib.tri_compare(ctx, sub + "." + cfg, pick(cases), pick(impl), pick(model), pick(spec), describe=describe)
    if slow_every:
        sl = [c for i, c in enumerate(cases) if i % slow_every == 0 and len(c) < 4000]
        a, _ = vlib.run_sharded(mexe, ["slow " + c for c in sl], args=("sw",))
        b, _ = vlib.run_sharded(mexe, ["spec " + c for c in sl], args=("sw",))
        for c, x, y in zip(sl, a, b):
            if x != y:
                ctx.fail(sub, "tie", c, "table S-box and inverse+affine S-box disagree: %s / %s" % (x, y))
    return impl


def check_aes_block(ctx):
    sub = "aes.block"
    mexe = _models(ctx, sub)
    if not mexe:
        return
    _selftest_vectors(ctx, sub, mexe)
    allc, seen = [], set()
    batches = [("aesni", True)] if host_has_aes() else []      # the _aesni functions called directly: first,
    batches += [("aesni", False), ("sw", False)]               # so that a wrong AES-NI path yields a concrete input
    for cfg, direct in batches:
        cases = gen_block(ctx, direct)
        impl = _run_cfg(ctx, sub + (".direct" if direct else ""), cfg, cases, mexe, slow_every=7)
        if impl:
            allc += cases
            seen |= set((cfg, c, i) for c, i in zip(cases, impl))
    ctx.record(sub, allc, seen,
               "crypto_aes_key_expand + encrypt_block (in place and separate) on special and random 128/256-bit keys, "
               "through the public API and (AES-NI build) through the _aesni functions directly, in the AES-NI and the "
               "software-only build; compared with the instruction-level model and with FIPS-197 Cipher (table S-box; "
               "every 7th case also with the inverse+affine S-box); non-trivial = distinct (config, case, ciphertext)",
               samples=[allc[0][:120], allc[-1][:120]] if allc else [])


def check_aes_ctr(ctx):
    sub = "aes.ctr"
    mexe = _models(ctx, sub)
    if not mexe:
        return
    allc, seen = [], set()
    cases = gen_ctr(ctx)
    for cfg in ("aesni", "sw", "aesni_wa", "aesni_m8"):
        impl = _run_cfg(ctx, sub, cfg, cases, mexe)
        if impl:
            allc += cases
            seen |= set((cfg, vlib.hashlib.md5(c.encode()).hexdigest(), vlib.hashlib.md5(i.encode()).hexdigest())
                        for c, i in zip(cases, impl))
    ctx.count("aes.ctr.stream-bytes", sum((len(t) - 1) // 2 for c in cases for t in c.split()[1:] if t[0] in "sS") * 2)
    ctx.record(sub, allc, seen,
               "CTR scripts init/alloc+init2/re-init (new key, NULL key)/stream*/buf/free with in-place and separate "
               "buffers; call sizes {0,1,15,16,17,31,32,33}+multi-KiB, alternating <16 / >=16 byte calls at every "
               "bytectr mod 16, positions straddling blocks 255..258 and 4100-block streams (thorough: 65535..65538 and "
               "70000 blocks); white-box seek (stream->bytectr = 16*B after init2) to B = 2^k - d, k = 8..56, crossing the "
               "counter-byte carries in one call / several calls / with a partial block first; AES-NI build (also as configured with -DBROKEN_MM_LOADU_SI64, the load_si64 work-around branch) vs stream_cfg true (bulk path model), software build vs the portable loop; "
               "both vs ctr_spec of the concatenated data per (key, nonce) epoch",
               samples=[cases[0][:160], cases[len(cases) // 2][:160]] if cases else [])


BIG_LEN = (1 << 32) + 53


def _mem_available_gib():
    try:
        for line in open("/proc/meminfo"):
            if line.startswith("MemAvailable:"):
                return int(line.split()[1]) / (1 << 20)
    except (OSError, ValueError):
        pass
    return 0.0


def check_aes_ctr_big(ctx):
    """One real crypto_aesctr_stream call of more than 2^32 bytes on the AES-NI build, then 71 more bytes:
    the stream position kept across calls must have taken in the whole length of the long call.  What the
    theorems say for every length below 2^64 (AesCtrProofs: the regenerated bookkeeping statements, evaluated
    with C integer semantics, equal the reference arithmetic - wb_epilogue_run and friends) is here looked
    at on a concrete input beyond 32 bits.  Needs ~4.1 GiB of memory and ~7 s: thorough tier, and the quick
    tier exactly when a proof / translator step is broken (the search for a failing input)."""
    sub = "aes.ctr-4GiB"
    # the translator could not read the AES sources (pinned data in use): nothing regenerated stands behind
    # the proofs on this run, so look beyond 32 bits as well
    fallback = any(f[0] == "x_aes" for f in getattr(vlib, "LAST_FALLBACKS", []))
    if ctx.quick and not ctx.proof_broken and not fallback:
        ctx.count("aes.ctr-4GiB.not-run-in-quick-tier")
        return
    if not host_has_aes():
        ctx.notes.append("host CPU lacks AES-NI: the > 2^32-byte AES-NI call is NOT covered")
        return
    if _mem_available_gib() < 5.5:
        ctx.notes.append("less than 5.5 GiB of memory available: the > 2^32-byte call was NOT run")
        return
    mexe = _models(ctx, sub)
    if not mexe:
        return
    exe, err = vlib.build_c("drv_aes_aesni_big", "drv_aes.c", SRCS_NI, cflags=QUIET, ldflags=["-lcrypto"], asan=False,
                            cpuconfig=os.path.join(CPUCFG, "aesni.h"), per_file_flags=NI_FLAGS)
    if not exe:
        ctx.fail(sub, "build", "aesni-big", "C driver (aesni, no sanitizer) does not build: %s" % err)
        return
    if not active_path(ctx, sub, exe, "aesni").startswith("path 1"):
        return
    r = ctx.rng
    # (len1, len2, tail1): the long call ends mid-block / on a block boundary
    shapes = [(BIG_LEN, 71, 69)] if ctx.quick else [(BIG_LEN, 71, 69), ((1 << 32) + 16 * r.randrange(1, 9), 33, 48)]
    cases = ["big %s %s %d %d %d" % (hx(rbytes(r, klen)), nonce_tok(r), l1, l2, t1)
             for (l1, l2, t1), klen in zip(shapes, (16, 32))]
    impl = []
    for c in cases:                      # one at a time: 4 GiB each
        rc, lines, e = vlib.run_lines(exe, c + "\n", timeout=600)
        impl.append(lines[0] if lines else "<no-output rc=%d %s>" % (rc, e.strip()[-200:]))
    rc, spec, _ = vlib.run_lines(mexe, "".join("spec %s\n" % c for c in cases), args=("sw",))
    seen = set()
    for i, c in enumerate(cases):
        a = impl[i]
        s_ = spec[i] if i < len(spec) else "<missing>"
        ctx.count("aes.ctr-4GiB.len1=%s" % c.split()[3])
        seen.add((c, a))
        if a == "nomem":
            ctx.notes.append("calloc of the > 2^32-byte buffer failed: case NOT run")
            continue
        if a != s_:
            fa, fs = a.split(), s_.split()
            where = "the tail of the long call itself" if len(fa) == 3 and len(fs) == 3 and fa[1] != fs[1] else \
                    "the call FOLLOWING the long call (stream position after a > 2^32-byte call)"
            ctx.fail(sub, "property", c, "AES-NI build, one call of %s bytes then %s bytes: wrong keystream in %s: impl=%s spec=%s "
                     "(spec = ctr_spec_from at the block index of each reported range)" % (c.split()[3], c.split()[4], where, a[:400], s_[:400]),
                     property_fails=True)
    ctx.record(sub, cases, seen,
               "AES-NI build (no sanitizer): ONE crypto_aesctr_stream call of 2^32 + 53 (thorough also 2^32 + 16k) zero bytes in place "
               "on a calloc block, then a call of 71 (33) bytes on the same stream; the last 69 (48) bytes of the long call and all bytes "
               "of the following call vs ctr_spec_from evaluated at their block index; run in the thorough tier and, in the quick tier, "
               "only when a proof or translator step is broken or the AES translator fell back to its pinned output",
               samples=cases[:1])


def check_aes_wipe(ctx):
    sub = "aes.wipe"
    mexe = _models(ctx, sub)
    if not mexe:
        return
    r = ctx.rng
    cases = list(corpus(("block", "ctr")))[:50]
    for _ in range(ctx.n(150, 3000)):
        if r.random() < 0.3:
            cases.append("block %s %s" % (hx(rbytes(r, r.choice((16, 32)))), hx(rbytes(r, 16))))
            ctx.count("aes.wipe.expand-free")
            continue
        toks = [key_tok(r), r.choice(["I" + nonce_tok(r), "A N" + nonce_tok(r)])]
        for _ in range(r.randrange(0, 6)):
            k = r.randrange(8)
            if k == 0:
                toks += ["F", "I" + nonce_tok(r)]
            elif k == 1:
                toks += [key_tok(r), r.choice("NR") + nonce_tok(r)]
            elif k == 2:
                toks.append("B%s:%s" % (nonce_tok(r), hx(rbytes(r, 20))))
            else:
                toks.append(stream_tok(r, r.choice(SIZES + [100, 1000])))
        if r.random() < 0.5:
            toks.append("F")
        cases.append("ctr " + " ".join(toks))
        ctx.count("aes.wipe.init-stream-free")
    allc, seen = [], set()
    for cfg in ("aesni", "sw", "nicpu0"):
        exe, err = build(cfg, wipe=True)
        if not exe:
            ctx.fail(sub, "build", cfg, "C driver (%s, wipe) does not build: %s" % (cfg, err))
            continue
        if cfg == "nicpu0":
            rc, lines, _ = vlib.run_lines(exe, "path\n", timeout=60)
            if not (lines and lines[0].startswith("path 0 cpu=0")):
                ctx.fail(sub, "tie", "path", "AES-NI build with the CPU probe compiled out reports '%s' (expected the software path)"
                         % (lines[0] if lines else "<no output>"))
                continue
        impl, st = vlib.run_sharded(exe, cases)
        for rc, e in st:
            if rc != 0:
                ctx.fail(sub, "crash", cfg, "driver exit rc=%d: %s" % (rc, e[-300:]), property_fails=True)
        model, _ = vlib.run_sharded(mexe, cases, args=("wipe-" + cfg,))
        nd = 0
        for c, a, m in zip(cases, impl, model):
            ev = a.split()[1:]
            dirty = [e for e in ev if not e.endswith(":0:0")]
            if dirty or a != m:
                nd += 1
                if nd <= 3:
                    ctx.fail(sub + "." + cfg, "property" if dirty else "diff", describe(c),
                             "blocks released by the library: impl=%s model=%s (free:<object>:<non-zero bytes at free>:<raw key present>)"
                             % (a[:300], m[:300]), property_fails=bool(dirty))
        ctx.count(sub + ".disagreements", nd)
        allc += cases
        seen |= set((cfg, c[:200], i) for c, i in zip(cases, impl))
    ctx.record(sub, allc, seen,
               "every block released by crypto_aes_key_free / crypto_aes_key_free_aesni / crypto_aesctr_free inspected inside "
               "a wrapped free() (size from the wrapped malloc, blocks pre-filled with 0xbe): must be all-zero and must not "
               "contain the raw key; -O2 build as in the repository; event sequence compared with the release-path model; three "
               "configurations: AES-NI build on this CPU, software-only build, AES-NI build whose CPU probe answers no (OpenSSL key "
               "objects freed by the software tail as compiled with CPUSUPPORT_X86_AESNI)",
               samples=[cases[0][:120]] if cases else [])


# ---------------------------------------------------------------------------- selection under a failed self-test

REFUSE = (0, 1, 2, 3)          # which allocation made inside the library is refused (0 = none)
CUTS = [5, 0, 11, 16, 1, 47, 160, 7, 300, 15, 17, 33]


def gen_select(ctx):
    """cases for the allocation-refusal build: (case line, first-use trigger)"""
    r = ctx.rng
    cases = []
    for klen in (16, 32):
        k = rbytes(r, klen)
        blocks = [bytes(16), bytes(range(16)), rbytes(r, 16)]
        cases.append("block %s %s" % (hx(k), " ".join(hx(b) for b in blocks)))
        ctx.count("aes.select.block-key%d" % klen)
        # one-shot buffers on both sides of the 16-byte routing threshold and a long one
        cases.append("ctr K%s %s" % (hx(k), " ".join("B%s:%s" % (nonce_tok(r), hx(rbytes(r, n))) for n in (15, 16, 17, 1000))))
        ctx.count("aes.select.buf-key%d" % klen)
        # one stream cut into calls < 16 and >= 16 bytes (the cuts of the C02-d demonstration and more)
        toks, pos, i = ["K" + hx(k), "I" + nonce_tok(r)], 0, r.randrange(len(CUTS))
        while pos < 1000:
            n = min(CUTS[i % len(CUTS)], 1000 - pos)
            toks.append(stream_tok(r, n)); pos += n; i += 1
        cases.append("ctr " + " ".join(toks))
        ctx.count("aes.select.chunked-key%d" % klen)
    for _ in range(ctx.n(6, 150)):
        toks = [key_tok(r), r.choice(["I" + nonce_tok(r), "A N" + nonce_tok(r)])]
        for _ in range(r.randrange(2, 8)):
            k = r.randrange(8)
            if k == 0:
                toks += [key_tok(r), "N" + nonce_tok(r)]
            elif k == 1:
                toks.append("R" + nonce_tok(r))
            elif k == 2:
                toks.append("B%s:%s" % (nonce_tok(r), hx(rbytes(r, r.choice(SIZES + [100])))))
            else:
                toks.append(stream_tok(r, r.choice(SIZES + [48, 100, 700])))
        cases.append("ctr " + " ".join(toks))
        ctx.count("aes.select.script")
    return cases


def _sel_fields(line):
    return dict(f.split("=", 1) for f in line.split()[1:] if "=" in f)


def check_aes_select(ctx):
    """The two modules (crypto_aes.c, crypto_aesctr.c) must select the same implementation whatever the
    outcome of crypto_aes.c's first-use self-test; output must be FIPS-197 / SP 800-38A either way."""
    sub = "aes.select"
    mexe = _models(ctx, sub)
    if not mexe:
        return
    exe, err = build_sel()
    if not exe:
        ctx.fail(sub, "build", "aesni-sel", "C driver (aesni, allocation refusal) does not build: %s" % err)
        return
    cpu = host_has_aes()
    if not cpu:
        ctx.notes.append("host CPU lacks AES-NI: the self-test of the AES-NI code is never run; failed-self-test selection NOT covered")
    cases = gen_select(ctx)
    # one process per (case, refused allocation): the selection is made once per process, and a crash is
    # attributed to its case
    jobs = []
    for n in REFUSE:
        for i, c in enumerate(cases):
            jobs.append((c, n, "kq"[(i + n) % 2]))
    env = dict(os.environ)
    env.update({"ASAN_OPTIONS": "detect_leaks=0:abort_on_error=0:malloc_fill_byte=190:max_malloc_fill_size=4096"})
    res = [None] * len(jobs)

    def work(j):
        c, n, trig = jobs[j]
        try:
            p = vlib.subprocess.run([exe, str(n), trig], input=(c + "\n").encode(), stdout=vlib.subprocess.PIPE,
                                    stderr=vlib.subprocess.PIPE, env=env, timeout=120)
            res[j] = (p.returncode, p.stdout.decode("utf-8", "replace").splitlines(), p.stderr.decode("utf-8", "replace"))
        except vlib.subprocess.TimeoutExpired:
            res[j] = (-99, [], "timeout")

    from concurrent.futures import ThreadPoolExecutor
    with ThreadPoolExecutor(max_workers=vlib.NCPU) as ex:
        list(ex.map(work, range(len(jobs))))
    # what the selection model (Crypto/AesSelect.v over the regenerated data) says for each outcome
    sel_model = {}
    for st in (True, False):
        rc, lines, _ = vlib.run_lines(mexe, "sel\n", args=("sel-%d%d" % (cpu, st),))
        sel_model[st] = lines[0] if lines else "<no-output rc=%d>" % rc
    spec, _ = vlib.run_sharded(mexe, ["spec " + c for c in cases], args=("sw",))
    models = {st: vlib.run_sharded(mexe, cases, args=("sel-%d%d" % (cpu, st),))[0] for st in (True, False)}
    nrep = {"sel": 0, "crash": 0}
    allc, seen = [], set()
    for n in REFUSE:
        # allocations 1 and 2 are the two crypto_aes_key_expand_aesni calls of functest(x86_aesni_oneshot)
        # (one per self-test vector); without AES-NI on the CPU the self-test is not run at all
        st = not (cpu and n in (1, 2))
        idx = [j for j in range(len(jobs)) if jobs[j][1] == n]
        impl = []
        for j in idx:
            c, _, trig = jobs[j]
            rc, lines, err = res[j]
            tag = "refuse-alloc=%s first-use=%s: %s" % (n or "none", trig, describe(c))
            selline = lines[0] if lines and lines[0].startswith("sel ") else ""
            f = _sel_fields(selline)
            ctx.count("aes.select.refuse-%s.%s" % (n or "none", " ".join(selline.split()[1:6]).replace(" ", ",") or "no-sel-line"))
            if selline:
                vals = [f.get("key"), f.get("block"), f.get("stream16"), "0" if f.get("can_use") == "0" else "1"]
                if len(set(vals)) != 1 and nrep["sel"] < 3:
                    nrep["sel"] += 1
                    ctx.fail(sub, "property", tag,
                             "crypto_aes.c and crypto_aesctr.c selected different implementations: %s (key/block = what "
                             "crypto_aes_key_expand built / crypto_aes_encrypt_block reads; stream16 = crypto_aesctr_stream hands a "
                             "16-byte call to the AES-NI code, which reads the key object as struct crypto_aes_key_aesni)" % selline,
                             property_fails=True)
                elif " ".join(selline.split()[:6]) != sel_model[st] and nrep["sel"] < 3:
                    nrep["sel"] += 1
                    ctx.fail(sub, "diff", tag, "selection: impl '%s' model '%s'" % (selline, sel_model[st]),
                             property_fails=False)
                if n and cpu and int(f.get("refused", "0")) != 1 and nrep["sel"] < 3:
                    nrep["sel"] += 1
                    ctx.fail(sub, "tie", tag, "the harness did not get to refuse allocation %d: %s" % (n, selline))
            out = lines[1] if len(lines) > 1 else "<no-output rc=%d>" % rc
            bad = rc != 0 or "ERROR: AddressSanitizer" in err or "runtime error:" in err
            if bad:
                nrep["crash"] += 1
                if nrep["crash"] <= 3:
                    m = vlib.re.search(r"(ERROR: AddressSanitizer[^\n]*|[^\n]*runtime error:[^\n]*)", err)
                    ctx.fail(sub, "sanitizer" if m else "crash", tag,
                             "%s; %s" % (m.group(1) if m else "driver exit rc=%d: %s" % (rc, err.strip()[-300:]), selline or "no sel line"),
                             property_fails=True)
                out = "<crashed rc=%d>" % rc
            impl.append(out)
            seen.add((n, vlib.hashlib.md5(c.encode()).hexdigest(), vlib.hashlib.md5(out.encode()).hexdigest()))
        tagged = ["[refuse-alloc=%s] %s" % (n or "none", c) for c in cases]
        order = sorted(range(len(tagged)), key=lambda i: 0 if impl[i] != spec[i] else 1)
        pick = lambda l: [l[i] if i < len(l) else "<missing>" for i in order]
        vlib.tri_compare(ctx, "%s.refuse-%s" % (sub, n or "none"), pick(tagged), pick(impl), pick(models[st]), pick(spec),
                         describe=describe, max_report=2)
        allc += tagged
    ctx.count("aes.select.crashes", nrep["crash"])
    ctx.record(sub, allc, seen,
               "AES-NI build with --wrap=malloc: allocation #n made inside library calls refused (n = none, 1, 2 = the two "
               "key expansions of the first-use self-test in crypto_aes.c:hwaccel_init -> self-test fails -> OpenSSL key objects; "
               "3 = the caller's own key expansion -> reported NULL, retried), first use through crypto_aes_key_expand or "
               "crypto_aes_can_use_intrinsics; one process per (case, n).  White-box probe through the wrapped AES-NI entry points: "
               "crypto_aes_key_expand builds AES-NI objects <-> crypto_aes_encrypt_block reads them so <-> crypto_aes_can_use_intrinsics() != 0 "
               "<-> crypto_aesctr_stream hands a 16-byte call to crypto_aesctr_aesni_stream (disagreement = property failure), and the "
               "probe line equals the extracted selection model (Crypto/AesSelect.v over the regenerated hwaccel_init data).  Then block "
               "encryption 128/256, crypto_aesctr_buf of 15/16/17/1000 bytes, chunked streams with calls on both sides of the 16-byte "
               "threshold, random init/init2/re-key scripts: output vs the selection-aware model (x_lib_stream) and vs FIPS-197 / ctr_spec; "
               "crash or sanitizer report = property failure",
               samples=[allc[1][:160], allc[-1][:160]] if allc else [])


SUBCHECKS = {"C02": [check_aes_ctr_big, check_aes_select, check_aes_block, check_aes_ctr],
             "C03": [check_aes_ctr_big, check_aes_select, check_aes_block, check_aes_ctr],
             "C20": [check_aes_wipe]}
