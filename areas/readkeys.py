"""aws/aws_readkeys.c: key-file reader.  C20: the secret's block is zero when freed on every failing
path (observed at the real free() of a -O2 build); C14: refused strdup -> -1, nothing leaked."""
import vlib

ID = b"ACCESS_KEY_ID"
SEC = b"ACCESS_KEY_SECRET"


def hx(b):
    return bytes(b).hex() if b else "-"


def gen(ctx):
    r = ctx.rng
    cases = []
    n = ctx.n(1500, 40000)

    def val():
        k = r.randrange(5)
        if k == 0:
            return b""
        if k == 1:
            return bytes(r.choice(b"abcXYZ019+/=") for _ in range(r.randrange(1, 12)))
        if k == 2:
            return bytes(r.randrange(1, 256) for _ in range(r.randrange(1, 30)))
        if k == 3:
            return bytes(r.choice(b"sEcr3t=") for _ in range(r.choice([1000, 1004, 1005, 1006, 1007, 1020, 1100])))
        return bytes(r.choice(b"k") for _ in range(r.randrange(1, 60)))

    for _ in range(n):
        lines = []
        shape = r.randrange(10)
        order = [ID, SEC] if r.random() < 0.5 else [SEC, ID]
        for nm in order:
            lines.append(nm + b"=" + val())
        if shape == 0:
            lines.append(SEC + b"=" + val()); ctx.count("readkeys.dup_secret")
        elif shape == 1:
            lines.append(ID + b"=" + val()); ctx.count("readkeys.dup_id")
        elif shape == 2:
            lines.append(b"garbage line"); ctx.count("readkeys.no_separator")
        elif shape == 3:
            lines.append(b"OTHER=1"); ctx.count("readkeys.unknown_name")
        elif shape == 4:
            lines = [l for l in lines if not l.startswith(ID + b"=")]; ctx.count("readkeys.missing_id")
        elif shape == 5:
            lines.insert(r.randrange(len(lines) + 1), bytes(r.randrange(256) for _ in range(r.randrange(0, 20)))); ctx.count("readkeys.random_line")
        else:
            ctx.count("readkeys.valid")
        eol = r.choice([b"\n", b"\n", b"\r\n", b"\r"])
        data = eol.join(lines) + (eol if r.random() < 0.8 else b"")
        if r.random() < 0.1 and data:
            i = r.randrange(len(data)); data = data[:i] + bytes([r.choice([0, 10, 13, 61])]) + data[i + 1:]
            ctx.count("readkeys.byte_mutated")
        if r.random() < 0.1:
            data = data[:r.randrange(len(data) + 1)]; ctx.count("readkeys.truncated")
        orc = "-" if r.random() < 0.6 else "".join(r.choice("01") for _ in range(r.randrange(1, 4)))
        if orc != "-":
            ctx.count("readkeys.alloc_oracle")
        cases.append("readkeys %s %s" % (hx(data), orc))
    return cases


def _run(ctx, sub):
    exe, err = vlib.build_c("drv_readkeys", "drv_readkeys.c",
                            ["aws/aws_readkeys.c", "util/insecure_memzero.c", "util/warnp.c"],
                            wraps=["strdup", "free"], cflags=["-fno-builtin-strdup"])
    if not exe:
        ctx.fail(sub, "build", "", "C driver does not build: " + err)
        return None
    mexe, err = vlib.build_model("readkeys")
    if not mexe:
        ctx.fail(sub, "tie", "", err)
        return None
    cases = gen(ctx)
    impl, st = vlib.run_sharded(exe, cases)
    for rc, e in st:
        if rc != 0:
            ctx.fail(sub, "crash", "", "driver exit rc=%d %s" % (rc, e[-200:]), property_fails=True)
    model, _ = vlib.run_sharded(mexe, cases)
    return cases, impl, model


def secret_in_clear(line):
    """property predicate on the implementation's own events: a freed secret block must be all zero"""
    for evt in line.split(";", 1)[-1].split(","):
        t = evt.split()
        if len(t) == 2 and t[0] == "freesecret" and t[1] != "-" and t[1].strip("0") != "":
            return True
    return False


def leaks(line):
    head, _, evs = line.partition(";")
    allocs = sum(1 for e in evs.split(",") if e.split()[:1] == ["alloc"])
    frees = sum(1 for e in evs.split(",") if e.split()[:1] and e.split()[0].startswith("free"))
    return head.strip() == "fail" and allocs != frees


def check_readkeys_wipe(ctx):
    sub = "readkeys"
    res = _run(ctx, sub)
    if not res:
        return
    cases, impl, model = res
    spec = []
    for a in impl:
        # spec-level verdict on the implementation's own observation
        spec.append(a if not (secret_in_clear(a) or leaks(a)) else "<secret freed in clear or block leaked>")
    vlib.tri_compare(ctx, sub, cases, impl, model, spec)
    ctx.record(sub, cases, set(zip(cases, impl)),
               "key files: valid, duplicate secret/id, bad line, unknown name, missing id, random/mutated/truncated bytes, lines of 1000..1100 bytes around the 1024 buffer, CR/LF/CRLF; strdup failure oracles; non-trivial = distinct (case, outcome+events)",
               samples=[cases[0][:160], cases[1][:160]])


SUBCHECKS = {"C20": [check_readkeys_wipe], "C14": [check_readkeys_wipe]}
