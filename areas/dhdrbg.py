"""crypto/crypto_dh.c (C10, C20-M3) and crypto/crypto_entropy.c (C11): correspondence runs.

C10/C20: the MODEL side is evaluated inside coqc (build/dh/.../cases_*.v, `Eval vm_compute`) with the
BigN evaluator of coq/Crypto/DhEval.v, which is proved equal to the Z model (DhEvalProofs.v).
C11: extracted OCaml model (model/drbg_main.ml)."""
import os
import re
import subprocess
import threading

import vlib

COQ_W = "-notation-overridden,-deprecated,-ambiguous-paths"


def bname(n):
    """build names are per repository path, so that concurrent checks of different trees
    (VERIF_REPO) never run each other's binaries"""
    import hashlib
    return n if vlib.REPO == "/repo" else n + "_" + hashlib.md5(vlib.REPO.encode()).hexdigest()[:6]


def hx(bs):
    bs = bytes(bs)
    return bs.hex() if bs else "-"


# --------------------------------------------------------------------------
# evaluating Coq terms by coqc

def ensure_vo(targets, timeout=1200):
    """make the given .vo files (relative to coq/) under the shared lock; returns errtext|None"""
    with vlib.Lock("coq"):
        vlib.coq_makefile()
        rc, o, e = vlib.run(["make", "-f", "Makefile.coq", "-j%d" % vlib.NCPU] + targets, cwd=vlib.COQ, timeout=timeout)
    if rc != 0:
        return "coq files needed by the evaluator do not compile:\n" + (o + e)[-2500:]
    return None


def coq_eval(workdir, header, terms, shards, timeout=900):
    """terms: list of Coq terms of type string.  Returns (list of evaluated strings aligned with terms,
    list of error texts).  Each shard is one coqc process evaluating `Eval vm_compute in (t).` lines."""
    vlib.ensure_dir(workdir)
    n = len(terms)
    if n == 0:
        return [], []
    shards = max(1, min(shards, n))
    jobs = []
    for k in range(shards):
        idx = list(range(k, n, shards))             # round-robin keeps the expensive terms spread out
        chunk = [terms[i] for i in idx]
        path = os.path.join(workdir, "cases_%d.v" % k)
        with open(path, "w") as f:
            f.write(header)
            for t in chunk:
                f.write("Eval vm_compute in (%s).\n" % t)
        jobs.append((idx, chunk, path))
    results = [None] * len(jobs)

    def work(k, path):
        results[k] = vlib.run(["coqc", "-Q", vlib.COQ, "LCP", "-w", COQ_W, "-o", path[:-2] + ".vo", path],
                              cwd=workdir, timeout=timeout)
    ths = [threading.Thread(target=work, args=(k, j[2])) for k, j in enumerate(jobs)]
    for t in ths:
        t.start()
    for t in ths:
        t.join()
    out, errs = [None] * n, []
    for k, (idx, chunk, path) in enumerate(jobs):
        rc, o, e = results[k]
        vals = re.findall(r'^\s*= "([^"]*)"\s*$', o, flags=re.M)
        if rc != 0 or len(vals) != len(chunk):
            errs.append("coqc %s rc=%d got %d of %d values: %s" % (os.path.basename(path), rc, len(vals), len(chunk), (e or o)[-600:]))
            vals = (vals + ["<no-model-output>"] * len(chunk))[:len(chunk)]
        for i, v in zip(idx, vals):
            out[i] = v
    return out, errs


def coq_bytes(bs):
    return "[" + ";".join(str(b) for b in bytes(bs)) + "]"


def coq_ent(tok):
    return "None" if tok == "fail" else "(Some %s)" % coq_bytes(bytes.fromhex(tok))


DH_HEADER = ("From Coq Require Import ZArith NArith List String.\n"
             "From LCP Require Import Crypto.DhModel Crypto.DhEval.\n"
             "Import ListNotations.\nLocal Open Scope string_scope.\nLocal Open Scope N_scope.\n"
             "Set Printing Width 1000000.\n")


def dh_terms(case):
    """case line -> (model term, spec term)"""
    t = case.split()
    if t[0] in ("genpub", "xgenpub"):
        priv = bytes.fromhex(t[1])
        return ("run_%s 170 %s %s" % (t[0].replace("genpub", "generate_pub"), coq_bytes(priv), coq_ent(t[2])),
                '"err"' if t[2] == "fail" else "spec_generate_pub %s" % coq_bytes(priv))
    if t[0] in ("compute", "xcompute"):
        pub, priv = bytes.fromhex(t[1]), bytes.fromhex(t[2])
        return ("run_%s 170 %s %s %s" % (t[0], coq_bytes(pub), coq_bytes(priv), coq_ent(t[3])),
                '"err"' if t[3] == "fail" else "spec_compute %s %s" % (coq_bytes(pub), coq_bytes(priv)))
    if t[0] == "generate":
        m = "run_generate 170 [%s; %s]" % (coq_ent(t[1])[1:-1] if t[1] != "fail" else "None",
                                           coq_ent(t[2])[1:-1] if t[2] != "fail" else "None")
        if "fail" in t[1:3]:
            return m, '"err"'
        priv = bytes.fromhex(t[1])[:32]
        return m, 'append (spec_generate_pub %s) " %s"' % (coq_bytes(priv), priv.hex())
    if t[0] == "sanity":
        pub = bytes.fromhex(t[1])
        return "run_sanitycheck %s" % coq_bytes(pub), "spec_sanitycheck %s" % coq_bytes(pub)
    if t[0] == "rfcprime":
        return "show_rfc_prime", "show_rfc_prime"
    raise ValueError(case)


def rfc_prime():
    """the RFC 3526 literal of the SPEC file (single source for the boundary cases)"""
    txt = open(os.path.join(vlib.COQ, "Crypto", "DhSpec.v")).read()
    m = re.search(r"rfc3526_group14\s*:\s*Z\s*:=\s*0x([0-9A-Fa-f]+)\s*\.", txt)
    return int(m.group(1), 16)


def be(v, n):
    return v.to_bytes(n, "big")


def gen_dh(ctx):
    r = ctx.rng
    p = rfc_prime()
    q = (p - 1) // 2
    T256 = 1 << 256

    def rnd32():
        return bytes(r.randrange(256) for _ in range(32))

    def priv_pick():
        k = r.randrange(6)
        if k == 0:
            ctx.count("dh.priv.zero"); return bytes(32)
        if k == 1:
            ctx.count("dh.priv.max"); return b"\xff" * 32
        if k == 2:
            z = r.randrange(1, 31); ctx.count("dh.priv.leading-zero-bytes"); return bytes(z) + rnd32()[z:]
        ctx.count("dh.priv.random"); return rnd32()

    def blind_pick():
        k = r.randrange(5)
        if k == 0:
            ctx.count("dh.blind.zero"); return bytes(32)
        if k == 1:
            ctx.count("dh.blind.max"); return b"\xff" * 32
        ctx.count("dh.blind.random"); return rnd32()

    cases = ["rfcprime"]
    # --- sanity check: boundaries of p and long common prefixes with p ---
    pb = be(p, 256)
    sane = [0, 1, 2, p - 2, p - 1, p, p + 1, (1 << 2048) - 1, p - (1 << 64), p + (1 << 64), 1 << 2047, q]
    for v in sane:
        cases.append("sanity " + hx(be(v, 256)))
    for _ in range(ctx.n(30, 600)):
        k = r.randrange(6)
        if k < 3:                          # shares a prefix with p, then differs
            i = r.randrange(256)
            b = bytearray(pb)
            b[i] = r.randrange(256)
            for j in range(i + 1, 256):
                if r.randrange(2):
                    b[j] = r.randrange(256)
            ctx.count("dh.sanity.prefix-of-p")
        else:
            b = bytearray(r.randrange(256) for _ in range(256))
            if k == 3:
                b[0] = 0xff
            ctx.count("dh.sanity.random")
        cases.append("sanity " + hx(b))
    # --- compute: boundary peers ---
    bpeers = [0, 1, p - 1, p, p + 1, (1 << 2048) - 1, 2, q]
    blinds0 = [bytes(32), b"\xff" * 32, rnd32()]
    for i, y in enumerate(bpeers):
        ctx.count("dh.peer.boundary")
        cases.append("compute %s %s %s" % (hx(be(y, 256)), hx(priv_pick()), hx(blinds0[i % 3])))
    # --- compute: peers whose result has leading zero bytes: y = t^(1/e) in the order-q subgroup ---
    for z in [1, 2, 3, 17, 128, 255][:ctx.n(4, 6)] + [r.randrange(1, 200) for _ in range(ctx.n(2, 60))]:
        priv = priv_pick()
        e = (1 << 258) + int.from_bytes(priv, "big")
        s = r.randrange(1 << (8 * (256 - z) // 2 - 9), 1 << (8 * (256 - z) // 2 - 1)) if z < 255 else r.randrange(2, 15)
        t = s * s                                   # a quadratic residue below 256^(256-z)
        y = pow(t, pow(e, -1, q), p)
        if r.randrange(3) == 0:
            y += p if y + p < (1 << 2048) else 0    # same residue, unreduced representative
        ctx.count("dh.result.leading-zero-bytes")
        cases.append("compute %s %s %s" % (hx(be(y, 256)), hx(priv), hx(blind_pick())))
    # --- compute / genpub / generate: random ---
    for _ in range(ctx.n(6, 450)):
        y = r.randrange(1 << 2048) if r.randrange(4) else r.randrange(p)
        ctx.count("dh.peer.random")
        cases.append("compute %s %s %s" % (hx(be(y, 256)), hx(priv_pick()), hx(blind_pick())))
    for priv in [bytes(32), b"\xff" * 32, bytes(31) + b"\x01", bytes(16) + rnd32()[16:]]:
        cases.append("genpub %s %s" % (hx(priv), hx(blind_pick())))
    for _ in range(ctx.n(3, 300)):
        cases.append("genpub %s %s" % (hx(priv_pick()), hx(blind_pick())))
    # blinding sweep on one fixed (peer, priv): the result must not move
    y, priv = r.randrange(p), rnd32()
    for b in [bytes(32), b"\xff" * 32, rnd32(), priv, bytes(31) + b"\x01"][:ctx.n(3, 5)]:
        ctx.count("dh.blind.sweep")
        cases.append("compute %s %s %s" % (hx(be(y, 256)), hx(priv), hx(b)))
    # --- exponent split as handed to BN_mod_exp (observed through --wrap) ---
    for b in [bytes(32), b"\xff" * 32, rnd32(), rnd32()][:ctx.n(3, 4)] + [rnd32() for _ in range(ctx.n(0, 60))]:
        ctx.count("dh.exponents-observed")
        if r.randrange(2):
            cases.append("xcompute %s %s %s" % (hx(be(r.randrange(p), 256)), hx(priv_pick()), hx(b)))
        else:
            cases.append("xgenpub %s %s" % (hx(priv_pick()), hx(b)))
    # --- entropy failures and crypto_dh_generate ---
    cases.append("compute %s %s fail" % (hx(be(r.randrange(p), 256)), hx(rnd32())))
    cases.append("genpub %s fail" % hx(rnd32()))
    cases.append("generate %s %s" % (hx(rnd32()), hx(rnd32())))
    cases.append("generate fail %s" % hx(rnd32()))
    cases.append("generate %s fail" % hx(rnd32()))
    for _ in range(ctx.n(1, 40)):
        cases.append("generate %s %s" % (hx(priv_pick()), hx(blind_pick())))
    ctx.count("dh.entropy-failure", 4)
    return cases


def corpus_cases(sub, prefixes):
    path = os.path.join(vlib.VERIF, "corpus", "dhdrbg", sub + ".txt")
    if not os.path.exists(path):
        return []
    out = []
    for l in open(path):
        l = l.strip()
        if l and not l.startswith("#") and l.split()[0] in prefixes:
            out.append(l)
    return out


DH_SRCS = ["crypto/crypto_dh.c", "crypto/crypto_dh_group14.c", "util/warnp.c"]
DH_WRAPS = ["BN_bin2bn", "BN_new", "BN_CTX_new", "BN_add", "BN_sub", "BN_set_word", "BN_mod_exp", "BN_mod_mul",
            "BN_free", "BN_clear_free", "BN_CTX_free"]


def build_dh_wrap():
    """the repo's -O2 build (no sanitizer) with the BN_* calls of crypto_dh.c interposed"""
    return vlib.build_c(bname("drv_dh_wrap"), "drv_dh.c", DH_SRCS, cflags=["-DDRV_DH_WRAP"], ldflags=["-lcrypto"],
                        wraps=DH_WRAPS, asan=False)


def check_dh(ctx):
    sub = "dh"
    exe, err = vlib.build_c(bname("drv_dh_asan"), "drv_dh.c", DH_SRCS, ldflags=["-lcrypto"], asan=True)
    if not exe:
        ctx.fail(sub, "build", "", "C driver does not build: " + err)
        return
    wexe, err = build_dh_wrap()
    if not wexe:
        ctx.fail(sub, "build", "", "C driver (--wrap build) does not build: " + err)
        return
    err = ensure_vo(["Crypto/DhEval.vo"])
    if err:
        ctx.fail(sub, "tie", "", err)
        return
    if getattr(ctx, "replay", None) and ctx.replay.get("failing_input", {}).get("sub") == sub:
        cases = [ctx.replay["failing_input"]["case"]]
    else:
        cases = corpus_cases("dh", ("genpub", "compute", "generate", "sanity", "rfcprime", "xgenpub", "xcompute")) + gen_dh(ctx)
    plain = [c for c in cases if not c.startswith("x")]
    xs = [c for c in cases if c.startswith("x")]
    out_plain, st = vlib.run_sharded(exe, plain, env={"ASAN_OPTIONS": "detect_leaks=1:abort_on_error=0"})
    vlib.sanitizer_reports(ctx, sub, st)
    out_x, st = vlib.run_sharded(wexe, xs)
    vlib.sanitizer_reports(ctx, sub, st)
    by_case = dict(zip(plain, out_plain))
    by_case.update(zip(xs, out_x))
    impl = [by_case[c] for c in cases]
    terms = []
    for c in cases:
        m, s = dh_terms(c)
        terms += [m, s]
    work = os.path.join(vlib.BUILD, "dh", "%s-seed%d-%s" % (ctx.pid, ctx.seed, ctx.tier))
    vals, errs = coq_eval(work, DH_HEADER, terms, shards=min(vlib.NCPU, ctx.n(8, 16)))
    for e in errs[:3]:
        ctx.fail(sub, "tie", "", "model evaluation in coqc failed: " + e)
    model, spec = vals[0::2], vals[1::2]
    # the spec knows nothing about how the exponent is split: compare only the result part there
    impl_res = [a.split(" e=")[0] for a in impl]
    nd = vlib.tri_compare(ctx, sub, cases, impl_res, [m.split(" e=")[0] for m in model], spec)
    if nd == 0:
        # same results but a different exponent split: the correspondence with the model is broken,
        # no failing input for the property itself
        vlib.compare(ctx, sub + ".exponents", cases, impl, model, property_pred=lambda c, a, b: (False, None))
    ctx.record(sub, cases, set(zip(cases, impl)),
               "crypto_dh_{generate_pub,compute,generate,sanitycheck} with scripted entropy vs the Coq model "
               "(vm_compute, BigN evaluator proved equal to the Z model) and vs the spec a^(2^258+x) mod p_RFC3526: "
               "priv in {0, 2^256-1, leading-zero bytes, random}; peers {0,1,2,q,p-1,p,p+1,2^2048-1, random incl. >= p} "
               "and peers constructed (e-th root of a small square in the order-q subgroup) so that the result has "
               "1..255 leading zero bytes; blinding {0, 2^256-1, random, = priv} incl. a sweep on fixed inputs; entropy "
               "failure at each read; sanity check on boundaries and on strings sharing a prefix with p; OpenSSL's own "
               "RFC 3526 prime vs the spec literal; the two exponents handed to BN_mod_exp (observed by a --wrap build) vs the "
               "model's blinded_exponents; two operations in progress at once: in three quarters of the genpub / compute / "
               "generate cases (chosen by the case text) the entropy source, while the outer operation waits for its "
               "blinding, performs a complete crypto_dh_generate_pub for another private value and compares it with the "
               "same call made alone beforehand (`!other-operation-disturbed`), then the outer operation continues and "
               "must still give the model's result; non-trivial = distinct (case, result)",
               samples=[cases[1][:100], cases[-1][:100]])


# --------------------------------------------------------------------------
# C11: HMAC_DRBG

DRBG_SRCS = ["alg/sha256.c", "util/insecure_memzero.c", "util/warnp.c"]
BOUNDARY_LENS = [0, 1, 31, 32, 33, 63, 64, 65, 95, 96, 97, 255, 256, 257, 1000, 4097]


def gen_drbg(ctx):
    """returns (heavy cases, light cases); heavy = tens of seconds of extracted HMACs each"""
    r = ctx.rng

    def ent(n=None):
        n = n if n is not None else r.choice([48, 48, 64, 32, 40, 56, 100])
        return hx(r.randrange(256) for _ in range(n))

    def line(oracle, reqs):
        return "drbg %s %s" % (",".join(oracle) if oracle else "-", ",".join(str(x) for x in reqs) if reqs else "-")

    heavy, light = [], []
    # --- chunking at GENERATE_MAXLEN ---
    heavy.append(line([ent(48)], [65536])); ctx.count("drbg.req.65536")
    heavy.append(line([ent(64)], [65537])); ctx.count("drbg.req.65537")
    if not ctx.quick:
        heavy.append(line([ent()], [65535])); ctx.count("drbg.req.65535")
        heavy.append(line([ent()], [200000])); ctx.count("drbg.req.200000")
        heavy.append(line([ent()], [131072, 5])); ctx.count("drbg.req.131072")
    # --- runs of 600 small requests: crosses the reseeds before generate calls 257 and 513 ---
    for _ in range(ctx.n(1, 4)):
        reqs = [r.choice([0, 1, 1, 5, 16, 31, 32, 33, 40]) for _ in range(600)]
        heavy.append(line([ent(48), ent(32), ent(), ent()], reqs))
        ctx.count("drbg.run600")
    # --- failure of the entropy source at a reseed: call 257 fails, the next call reseeds ---
    heavy.append(line([ent(), "f", ent(32), ent()], [1] * 255 + [2, 3, 4, 5]))
    heavy.append(line([ent(), "f", "f"], [1] * 254 + [40, 33, 7, 7, 7]))          # then exhausted
    ctx.count("drbg.fail.reseed", 2)
    # the reseed point falls INSIDE a request of more than 65536 bytes: generate call 256 is its first
    # chunk, the reseed must happen before its second chunk (the test sits inside the chunk loop)
    heavy.append(line([ent(), ent(32), ent()], [1] * 255 + [65537, 9]))
    ctx.count("drbg.reseed-inside-multichunk-request")
    if not ctx.quick:
        # reseed needed in the middle of a multi-chunk request, entropy fails there
        heavy.append(line([ent(), "f", ent()], [1] * 255 + [65537 + 10, 9]))
        heavy.append(line([ent(), ent(), "f", ent()], [1] * 256 + [3] * 255 + [8, 8, 8]))
        ctx.count("drbg.fail.reseed", 2)
    # --- boundary lengths, one and several requests ---
    for n in BOUNDARY_LENS:
        light.append(line([ent()], [n])); ctx.count("drbg.req.boundary")
    for _ in range(ctx.n(25, 600)):
        reqs = [r.choice(BOUNDARY_LENS[:13] + [r.randrange(0, 300)]) for _ in range(r.randrange(1, 7))]
        light.append(line([ent()], reqs)); ctx.count("drbg.req.sequence")
    # --- failure at instantiation: first call fails, instantiated must stay 0, later calls retry ---
    light.append(line(["f", ent()], [10, 10, 0, 33])); ctx.count("drbg.fail.instantiate")
    light.append(line(["f", "f", ent()], [0, 5, 5])); ctx.count("drbg.fail.instantiate")
    light.append(line([], [7, 7])); ctx.count("drbg.fail.exhausted")
    light.append(line(["f"], [0, 0, 1])); ctx.count("drbg.fail.instantiate")
    light.append(line([ent(10)], [20])); ctx.count("drbg.entropy.short-zero-padded")
    light.append(line([ent()], [])); ctx.count("drbg.no-request")
    return heavy, light


def gen_fill(ctx):
    r = ctx.rng
    cases = []
    for _ in range(ctx.n(120, 3000)):
        n = r.choice([0, 1, 2, 31, 32, 48, 48, 48, 100])
        ans, left = [], n
        for _ in range(r.randrange(0, 6)):
            k = r.randrange(10)
            if k == 0:
                ans.append("e"); ctx.count("fill.error")
            elif k == 1:
                ans.append("z"); ctx.count("fill.eof")
            else:
                ln = r.choice([1, 1, 2, max(1, left), max(1, left // 2), left + 3, 48])
                ans.append(hx(r.randrange(256) for _ in range(ln))); ctx.count("fill.short-or-full")
                left = max(0, left - ln)
        cases.append("fill %d %s" % (n, ",".join(ans) if ans else "-"))
    return cases


def gen_os(ctx):
    """cases for the build with the REAL util/entropy.c and interposed open/read/close.
    Returns (heavy `os` cases, light `os` cases, `sess` cases).  A session is <o|x>:<reads>:<closes>."""
    r = ctx.rng

    def rb(n):
        return "".join("%02x" % r.randrange(256) for _ in range(n))

    def split(n, cuts):
        """n random bytes delivered as reads cut at the given positions"""
        data, out, prev = rb(n), [], 0
        for c in sorted(set(c for c in cuts if 0 < c < n)) + [n]:
            out.append(data[2 * prev:2 * c]); prev = c
        return "/".join(out)

    def healthy(n, cuts=(), closes="k", extra=0):
        return "o:%s:%s" % (split(n + extra, cuts), closes)

    def failing(n, p, kind, closes="k"):
        """p < n bytes arrive (in one read), then the read fails: e = -1/EIO, i = -1/EINTR, z = 0 (EOF), q = script ends"""
        reads = ([rb(p)] if p else []) + ([kind] if kind != "q" else [])
        return "o:%s:%s" % ("/".join(reads) if reads else "-", closes)

    def line(sessions, reqs):
        return "os %s %s" % (",".join(sessions) if sessions else "-", ",".join(str(x) for x in reqs) if reqs else "-")

    KINDS = ["e", "i", "z", "q"]
    light = []
    # --- instantiation: the entropy session fails at EVERY byte position, in every way, close succeeds ---
    for p in range(48):
        for k in KINDS:
            light.append(line([failing(48, p, k)], [3])); ctx.count("os.instantiate.read-fails." + k)
    # ... and the next call must start over with a fresh 48-byte session
    for _ in range(ctx.n(6, 150)):
        p, k = r.randrange(48), r.choice(KINDS)
        light.append(line([failing(48, p, k, r.choice(["k", "k", "ik", "e", "-"])), healthy(48, [r.randrange(1, 48)])], [3, 4]))
        ctx.count("os.instantiate.read-fails.then-retry")
    # --- instantiation: short reads at every position are NOT failures ---
    pos = list(range(1, 48))
    r.shuffle(pos)
    for p in pos[:ctx.n(10, 47)]:
        light.append(line([healthy(48, [p])], [5])); ctx.count("os.instantiate.short-read")
    light.append(line([healthy(48, range(1, 48))], [5])); ctx.count("os.instantiate.byte-at-a-time")
    light.append(line([healthy(48, [], extra=7)], [5])); ctx.count("os.instantiate.longer-than-asked")
    light.append(line([healthy(48, [40], extra=9)], [5])); ctx.count("os.instantiate.longer-than-asked")
    for _ in range(ctx.n(4, 100)):
        light.append(line([healthy(48, [r.randrange(1, 48) for _ in range(r.randrange(1, 6))], r.choice(["k", "ik", "iiik"]))],
                          [r.choice(BOUNDARY_LENS[:13])]))
        ctx.count("os.instantiate.short-reads-random")
    # --- open fails; close fails after a complete fill; EINTR on close is retried ---
    light.append(line(["x:-:-", healthy(48)], [3, 3])); ctx.count("os.open-fails")
    light.append(line(["x:%s:k" % rb(48)], [3])); ctx.count("os.open-fails")
    for cl in ["e", "ie", "-", "ii", "iie"]:
        light.append(line([healthy(48, [], cl), healthy(48)], [3, 3])); ctx.count("os.close-fails")
    for cl in ["ik", "iik", "iiiiik", "ke"]:
        light.append(line([healthy(48, [20], cl)], [3])); ctx.count("os.close-eintr-retried")
    light.append(line(["x:-:-", failing(48, 47, "e"), healthy(48, [], "e"), failing(48, 0, "z", "e"), healthy(48, [1, 2])],
                      [1, 0, 2, 3, 33, 5]))
    ctx.count("os.failures-in-a-row")
    light.append(line([], [4, 4])); ctx.count("os.script-exhausted")
    # --- the application holds entropy_read cookies of its own while all this happens (token app:a-b,...:
    #     obtained before request a, used and released after request b; see drv_drbg.c).  The cookies are
    #     independent objects, so nothing above changes. ---
    nreq = lambda c: 0 if c.split()[2] == "-" else c.count(",", c.rindex(" ")) + 1
    for i, c in enumerate(light):
        k, n = r.randrange(6), nreq(c)
        if k < 3 or n == 0:
            continue
        if k == 3:
            a = "app:0-%d" % (n + 3)                       # held throughout
        elif k == 4:
            x = r.randrange(n); a = "app:%d-%d" % (x, r.randrange(x, n))
        else:                                               # two cookies, released in creation order / nested
            x = r.randrange(n); y = r.randrange(x, n)
            a = "app:%d-%d,%d-%d" % (x, y, y, r.randrange(y, n + 1)) if r.randrange(2) else "app:0-%d,%d-%d" % (n, x, y)
        light[i] = c + " " + a
        ctx.count("os.application-cookie-alive")
    # --- reseeds (generate calls 257 and 513): one history with a failing session at every position ---
    heavy = []
    fails1 = [failing(32, p, k) for p in range(32) for k in KINDS]
    fails1 += ["x:-:-", healthy(32, [], "e"), healthy(32, [5], "ie"), healthy(32, [], "-"), failing(32, 31, "e", "e")]
    r.shuffle(fails1)
    fails2 = [failing(32, r.randrange(32), r.choice(KINDS), r.choice(["k", "k", "ik", "e"])) for _ in range(ctx.n(10, 60))] + ["x:-:-"]
    sessions = [healthy(48, [r.randrange(1, 48)])] + fails1 + [healthy(32, [r.randrange(1, 32)], "ik")] + fails2 + \
               [healthy(32, range(1, 32))]
    reqs = [1] * 256 + [r.choice([1, 2, 33]) for _ in fails1] + [1] * 256 + [r.choice([1, 40]) for _ in fails2] + [7, 7, 7]
    # application cookies alive across the instantiation, across the first reseed and its failing sessions,
    # one obtained in between and alive across the second reseed, one never released before the end
    n1 = 256 + len(fails1)
    heavy.append(line(sessions, reqs) + " app:0-%d,%d-%d,%d-%d,%d-%d,%d-%d" % (
        r.randrange(3), r.randrange(200, 256), 256 + r.randrange(len(fails1)), n1 - 1, n1 + r.randrange(3),
        n1 + 100, n1 + 256 + r.randrange(len(fails2)), len(reqs) - 2, len(reqs) + 5))
    ctx.count("os.application-cookie-alive.across-reseed", 3)
    # ... and held from before the instantiation until after the reseed before generate call 257
    heavy.append(line([healthy(48, [r.randrange(1, 48)]), healthy(32, [r.randrange(1, 32)])], [r.choice([1, 2]) for _ in range(258)])
                 + " app:0-257")
    ctx.count("os.application-cookie-alive.instantiation-to-reseed")
    ctx.count("os.reseed.read-fails", 32 * len(KINDS)); ctx.count("os.reseed.open-or-close-fails", 5)
    ctx.count("os.reseed2.session-fails", len(fails2))
    if not ctx.quick:
        # short histories with one failing reseed session, then a retry
        for _ in range(4):
            heavy.append(line([healthy(48), failing(32, r.randrange(32), r.choice(KINDS), r.choice(["k", "e"])), healthy(32, [9])],
                              [1] * 256 + [2, 3]))
            ctx.count("os.reseed.single-failure")
        # the reseed falls in the middle of a multi-chunk request
        heavy.append(line([healthy(48), failing(32, 5, "e"), healthy(32, [16])], [1] * 255 + [65536 + 9, 9]))
        ctx.count("os.reseed.mid-request")
    # --- entropy_read alone on random scripts ---
    sess = []
    for _ in range(ctx.n(400, 8000)):
        n = r.choice([0, 1, 2, 31, 32, 32, 48, 48, 48, 100])
        reads, left = [], n
        for _ in range(r.randrange(0, 6)):
            k = r.randrange(12)
            if k == 0:
                reads.append("e")
            elif k == 1:
                reads.append("i")
            elif k == 2:
                reads.append("z")
            else:
                ln = r.choice([1, 1, 2, max(1, left), max(1, left), max(1, left // 2), left + 3, 48])
                reads.append(rb(ln)); left = max(0, left - ln)
        closes = r.choice(["k", "k", "k", "k", "ik", "iik", "e", "ie", "-", "i", "ke"])
        opn = "x" if r.randrange(12) == 0 else "o"
        sess.append("sess %d %s:%s:%s" % (n, opn, "/".join(reads) if reads else "-", closes))
        if r.randrange(3) == 0:
            sess[-1] += r.choice([" app:0-0", " app:0-0,0-0"]); ctx.count("sess.application-cookie-alive")
        ctx.count("sess.open-fails" if opn == "x" else "sess.random-script")
    return heavy, light, sess


def par(*fns):
    """run the thunks concurrently, return their results in order"""
    out = [None] * len(fns)

    def work(i, f):
        out[i] = f()
    ths = [threading.Thread(target=work, args=(i, f)) for i, f in enumerate(fns)]
    for t in ths:
        t.start()
    for t in ths:
        t.join()
    return out


def strip_ent(l):
    return l.split(" ent=")[0]


def strip_sys(l):
    return l.split(" sys=")[0]


def no_app(c):
    """the case as the model sees it: the application's own cookies (token app:...) are independent
    objects (entropy.h), they change nothing"""
    return re.sub(r" app:\S+$", "", c)


def strip_state(l):
    """the line without the final Key / V / reseed_counter / instantiated (black-box driver)"""
    return re.sub(r"K=\S+ V=\S+ c=\d+ i=\d+ ", "", l) if l is not None else None


def check_drbg(ctx):
    sub = "drbg"
    none_h = os.path.join(vlib.VERIF, "harness", "cpuconfig", "none.h")
    force_bb = bool(os.environ.get("VERIF_DRBG_BLACKBOX"))

    def build_wb_or_bb(name, srcs, cflags, wraps):
        """the white-box build (#include of crypto_entropy.c: statics reset between cases and dumped after
        each) when it compiles; otherwise the black-box build of the same driver (crypto_entropy.c linked
        as it is, one process per case, no state dump).  Returns (exe, err, blackbox)"""
        werr = "forced by VERIF_DRBG_BLACKBOX"
        if not force_bb:
            e, werr = vlib.build_c(bname(name), "drv_drbg.c", srcs, cflags=cflags, wraps=wraps, cpuconfig=none_h, asan=True)
            if e:
                return e, None, False
        e, berr = vlib.build_c(bname(name + "_bb"), "drv_drbg.c", srcs + ["crypto/crypto_entropy.c"],
                               cflags=cflags + ["-DDRV_BLACKBOX"], wraps=wraps, cpuconfig=none_h, asan=True)
        if e:
            return e, None, True
        return None, "white-box build: %s\nblack-box build: %s" % (werr[-1500:], berr[-1500:]), True

    (exe, err, bb), (fexe, ferr), (oexe, oerr, obb) = par(
        lambda: build_wb_or_bb("drv_drbg_asan", DRBG_SRCS, [], []),
        # entropy_read_fill through the public API of the repository's util/entropy.c
        lambda: vlib.build_c(bname("drv_drbg_fill"), "drv_drbg.c", ["util/warnp.c", "util/entropy.c"], cflags=["-DDRV_FILL"],
                             wraps=["open", "open64", "read", "close"], cpuconfig=none_h, asan=True),
        # the REAL util/entropy.c of the repository under crypto_entropy.c; only the system calls are scripted
        lambda: build_wb_or_bb("drv_drbg_os", DRBG_SRCS + ["util/entropy.c"], ["-DDRV_OS"], ["open", "open64", "read", "close"]))
    if not exe:
        ctx.fail(sub, "build", "", "C driver does not build: " + err)
        return
    if not fexe:
        ctx.fail(sub, "build", "", "C driver (entropy_read_fill) does not build: " + ferr)
        return
    if not oexe:
        ctx.fail(sub, "build", "", "C driver (real util/entropy.c, system calls interposed) does not build: " + oerr)
        return
    if bb or obb:
        ctx.count("drbg.driver.blackbox", int(bb) + int(obb))
        ctx.notes.append("drbg: the white-box driver (crypto_entropy.c #included, statics reset and dumped by name) %s; "
                         "black-box build used (crypto_entropy.c linked as it is, one process per case): return codes, output "
                         "bytes and the entropy-source consumption are compared, the final Key/V/reseed_counter/instantiated "
                         "are not" % ("was not tried (VERIF_DRBG_BLACKBOX)" if force_bb else "does not compile against this tree"))
    mexe, err = vlib.build_model("drbg")
    if not mexe:
        ctx.fail(sub, "tie", "", err)
        return
    env = {"ASAN_OPTIONS": "detect_leaks=1:abort_on_error=0"}
    if getattr(ctx, "replay", None) and ctx.replay.get("failing_input", {}).get("sub", "").startswith(sub):
        heavy, light, fills, os_heavy, os_light, sess = [], [], [], [], [], []
        one = ctx.replay["failing_input"]["case"]
        {"fill": fills, "os": os_light, "sess": sess}.get(one.split()[0], light).append(one)
    else:
        heavy, light = gen_drbg(ctx)
        light = corpus_cases("drbg", ("drbg",)) + light
        fills = corpus_cases("drbg", ("fill",)) + gen_fill(ctx)
        os_heavy, os_light, sess = gen_os(ctx)
        os_light = corpus_cases("drbg", ("os",)) + os_light
        sess = corpus_cases("drbg", ("sess",)) + sess
    # the spec is run on everything except (quick tier) the two 65536-byte generates, which cost
    # ~20 s of extracted HMACs each; those are compared with the model only (proved = spec)
    spec_heavy = [c for c in heavy if ctx.n(not re.search(r" 6553[67]$", c), True)]
    cases = heavy + light
    os_small = os_light + sess
    os_cases = os_small + os_heavy                # the short ones first: they are what a report should show
    ((impl, st), (model_h, _), (spec_h, _), (model_l, _), (spec_l, _),
     (os_impl, os_st), (os_model_h, _), (os_spec_h, _), (os_model_s, _), (os_spec_s, _)) = par(
        lambda: vlib.run_sharded(exe, cases, env=env, timeout=3600),
        lambda: vlib.run_sharded(mexe, heavy, shards=len(heavy) or 1, timeout=5400),
        lambda: vlib.run_sharded(mexe, ["spec " + c for c in spec_heavy], shards=len(spec_heavy) or 1, timeout=5400),
        lambda: vlib.run_sharded(mexe, light, shards=4, timeout=3600),
        lambda: vlib.run_sharded(mexe, ["spec " + c for c in light], shards=4, timeout=3600),
        lambda: vlib.run_sharded(oexe, os_cases, shards=4, env=env, timeout=3600),
        lambda: vlib.run_sharded(mexe, [no_app(c) for c in os_heavy], shards=len(os_heavy) or 1, timeout=5400),
        lambda: vlib.run_sharded(mexe, ["spec " + no_app(c) for c in os_heavy], shards=len(os_heavy) or 1, timeout=5400),
        lambda: vlib.run_sharded(mexe, [no_app(c) for c in os_small], shards=2, timeout=3600),
        lambda: vlib.run_sharded(mexe, ["spec " + no_app(c) for c in os_small], shards=2, timeout=3600))
    vlib.sanitizer_reports(ctx, sub, st)
    sh = dict(zip(spec_heavy, spec_h))
    model = model_h + model_l
    spec = [sh.get(c) for c in heavy] + spec_l
    if bb:
        model, spec = [strip_state(m) for m in model], [strip_state(x) for x in spec]
    # the spec has no notion of the individual entropy_read calls: compare it without the ent= part
    nd = vlib.tri_compare(ctx, sub, cases, [strip_ent(a) for a in impl], [strip_ent(m) for m in model], spec,
                          describe=lambda c: c if len(c) < 900 else c[:900] + "...")
    if nd == 0:
        vlib.compare(ctx, sub + ".entropy-calls", cases, impl, model,
                     describe=lambda c: c if len(c) < 900 else c[:900] + "...",
                     property_pred=lambda c, a, b: (True, None))
    ctx.record(sub, cases, set((c[:200], a[:200]) for c, a in zip(cases, impl)),
               "crypto_entropy_read (crypto_entropy.c #included into the driver, built with the `none` CPU "
               "configuration, entropy_read scripted) vs the extracted model and vs the SP 800-90A spec over the "
               "hash area's HMAC_SHA256_spec: per request return code and buffer, final Key/V/reseed_counter/"
               "instantiated, oracle entries consumed, lengths of the entropy_read calls; requests {0,1,31,32,33,"
               "63..65,95..97,255..257,1000,4097,65536,65537 (+65535, 131072, 200000 thorough)}, runs of 600 small "
               "requests across the reseeds before generate calls 257 and 513, entropy failure at instantiation, at "
               "a reseed, repeated, exhausted; non-trivial = distinct (case, result)",
               samples=[light[0][:160] if light else "", heavy[-1][:160] if heavy else ""])
    # crypto_entropy.c over the real util/entropy.c over scripted open/read/close
    if os_cases:
        vlib.sanitizer_reports(ctx, sub + ".os", os_st)
        os_model, os_spec = os_model_s + os_model_h, os_spec_s + os_spec_h
        if obb:
            os_model, os_spec = [strip_state(m) for m in os_model], [strip_state(x) for x in os_spec]
        short = lambda c: c if len(c) < 900 else c[:900] + "..."
        # the spec knows nothing of the individual system calls: compared without the sys= part
        nd = vlib.tri_compare(ctx, sub + ".os", os_cases, [strip_sys(a) for a in os_impl], [strip_sys(m) for m in os_model],
                              os_spec, describe=short)
        if nd == 0:
            # same results but different system calls (a descriptor not closed, a read that does not ask for
            # the unfilled rest, another device): the correspondence is broken, the property not refuted
            vlib.compare(ctx, sub + ".os.system-calls", os_cases, os_impl, os_model, describe=short,
                         property_pred=lambda c, a, b: (False, None))
        ctx.record(sub + ".os", os_cases, set((c[:200], a[:200]) for c, a in zip(os_cases, os_impl)),
                   "crypto_entropy_read (crypto_entropy.c #included) over the repository's REAL util/entropy.c, with "
                   "open/read/close interposed (--wrap) and scripted per session, vs the extracted model (crypto_entropy.c "
                   "model composed over the model of entropy_read_init/fill/done and the one-shot entropy_read) and vs the "
                   "SP 800-90A spec fed with what DrbgOsSpec.v says the sessions delivered: at the instantiation, at the "
                   "first reseed (generate call 257) and at the second (513) the session fails after every byte position "
                   "0..n-1 by read = -1/EIO, -1/EINTR, 0 (EOF) and end of script with close succeeding, by open failing, "
                   "by close failing / EINTR-then-failing after a complete fill; short reads at every position, byte-at-a-"
                   "time, answers longer than asked, close EINTR retried; failed calls must return -1, leave Key/V/"
                   "reseed_counter/instantiated as they were and be retried with a fresh session; `sess`: entropy_read "
                   "alone on random scripts incl. buflen 0; per session the size of the first read and the numbers of "
                   "read/close answers consumed are compared too, and the wrappers check device path, O_RDONLY, descriptor, "
                   "that each read asks exactly for the unfilled rest, and that no descriptor stays open; "
                   "the application's own cookies: in about half of the cases the application holds one or two "
                   "entropy_read cookies of its own (entropy_read_init .. fill .. done; token app:a-b) across the "
                   "instantiation, across either reseed and its failing sessions, or from the instantiation until after "
                   "the reseed at call 257: results must be those of the case without them (the model is given the case "
                   "without the token), every cookie reads and closes only the descriptor its own open returned, and the "
                   "application's cookie still delivers its own device's bytes when it is used afterwards; "
                   "non-trivial = distinct (case, result)",
                   samples=[os_light[0][:160] if os_light else "", sess[0][:160] if sess else ""])
    # util/entropy.c read loop
    if fills:
        fi, st = vlib.run_sharded(fexe, fills, env=env)
        vlib.sanitizer_reports(ctx, sub + ".fill", st)
        fm, _ = vlib.run_sharded(mexe, fills, shards=4)
        vlib.tri_compare(ctx, sub + ".fill", fills, fi, fm, None)
        ctx.record(sub + ".fill", fills, set(zip(fills, fi)),
                   "entropy_read_fill (util/entropy.c #included, --wrap=read) vs the extracted model on scripted "
                   "read() answers: short reads, exact, longer than asked, 0 (EOF), -1, script exhausted; the wrapper "
                   "also checks that each read() asks exactly for the unfilled rest",
                   samples=[fills[0], fills[-1]])


# --------------------------------------------------------------------------
# C20-M3: secrets cleared before free in crypto_dh.c

WIPE_HEADER = ("From Coq Require Import List String.\n"
               "From LCP Require Import Crypto.DhWipeDefs Gen.Repo_dhwipe Crypto.DhWipeModel.\n"
               "Import ListNotations.\nLocal Open Scope string_scope.\nSet Printing Width 1000000.\n")


def wipe_term(case):
    t = case.split()
    k = int(t[-1])
    ks = "None" if k < 0 else "(Some %d)" % k
    return ("wipe_compute_case " if t[1] == "compute" else "wipe_generate_pub_case ") + ks


def gen_wipe(ctx):
    r = ctx.rng
    p = rfc_prime()
    cases = []

    def rnd(n):
        return bytes(r.randrange(256) for _ in range(n))
    # every failing step (the API calls have 19 / 20 fallible steps; indices beyond = no failure), twice
    for rep in range(ctx.n(1, 6)):
        pub, priv, blind = be(r.randrange(p), 256), rnd(32), rnd(32)
        for k in range(-1, 22):
            cases.append("wipe compute %s %s %s %d" % (hx(pub), hx(priv), hx(blind), k))
            ctx.count("wipe.compute.fail-step" if 0 <= k < 19 else "wipe.compute.success")
        priv, blind = rnd(32), rnd(32)
        for k in range(-1, 23):
            cases.append("wipe genpub %s %s %d" % (hx(priv), hx(blind), k))
            ctx.count("wipe.genpub.fail-step" if 0 <= k < 20 else "wipe.genpub.success")
    # success path with many secrets (the memory scan is what matters here)
    for _ in range(ctx.n(20, 400)):
        if r.randrange(2):
            cases.append("wipe compute %s %s %s -1" % (hx(be(r.randrange(1 << 2048), 256)), hx(rnd(32)), hx(rnd(32))))
        else:
            cases.append("wipe genpub %s %s -1" % (hx(rnd(32)), hx(rnd(32))))
        ctx.count("wipe.random-secrets")
    return cases


def check_dh_wipe(ctx):
    sub = "dh-wipe"
    wexe, err = build_dh_wrap()
    if not wexe:
        ctx.fail(sub, "build", "", "C driver (--wrap build) does not build: " + err)
        return
    err = ensure_vo(["Crypto/DhWipeModel.vo"])
    if err:
        ctx.fail(sub, "tie", "", err)
        return
    if getattr(ctx, "replay", None) and ctx.replay.get("failing_input", {}).get("sub") == sub:
        cases = [ctx.replay["failing_input"]["case"]]
    else:
        cases = corpus_cases("dh", ("wipe",)) + gen_wipe(ctx)
    impl, st = vlib.run_sharded(wexe, cases, shards=4)
    vlib.sanitizer_reports(ctx, sub, st)
    terms = sorted(set(wipe_term(c) for c in cases))
    work = os.path.join(vlib.BUILD, "dh", "%s-wipe-seed%d-%s" % (ctx.pid, ctx.seed, ctx.tier))
    vals, errs = coq_eval(work, WIPE_HEADER, terms, shards=2)
    for e in errs[:3]:
        ctx.fail(sub, "tie", "", "model evaluation in coqc failed: " + e)
    by_term = dict(zip(terms, vals))
    model = [by_term[wipe_term(c)] for c in cases]

    def sig(c, a, m):
        return None
    # a leak seen by the memory scan, or an unbalanced allocation count, is a failing input for
    # the property; a different event sequence alone is a broken correspondence
    nd = 0
    for c, a, m in zip(cases, impl, model):
        pf = (" leak=0" not in a) or (" live=0" not in a)     # judged on the implementation's output alone
        if a == m and not pf:
            continue
        nd += 1
        if nd <= 4:
            ctx.fail(sub, "property" if pf else "diff", c[:60] + "... k=" + c.split()[-1] if len(c) > 200 else c,
                     "impl=%s model=%s" % (a[:300], m[:300]), property_fails=pf)
    ctx.count(sub + ".disagreements", nd)
    ctx.record(sub, cases, set((c.split()[1], c.split()[-1], a) for c, a in zip(cases, impl)),
               "crypto_dh_compute / crypto_dh_generate_pub at the repo's -O2 with the BN_* calls of crypto_dh.c "
               "interposed (--wrap): the k-th fallible call is made to fail for every k; the sequence of allocation / "
               "BN_clear_free / BN_free / BN_CTX events is compared with the Coq model's (program regenerated from the C); "
               "OpenSSL's free hook (CRYPTO_set_mem_functions) scans every block released during those calls for any "
               "8-byte limb of priv, blinding and priv-blinding in big-endian, little-endian and both limb orders; "
               "outstanding OpenSSL allocations after the call must equal those before; non-trivial = distinct "
               "(function, failing step, result)",
               samples=[cases[0][:120] + " ...", cases[-1][:120] + " ..."])


SUBCHECKS = {"C10": [check_dh], "C11": [check_drbg], "C20": [check_dh_wipe]}
