"""util/hexify.c (and b64encode.c): correspondence of the C with the extracted model and spec."""
import vlib


def hx(bs):
    return bytes(bs).hex() if bs else "-"


def gen_hex(ctx):
    r = ctx.rng
    cases = []
    n = ctx.n(1500, 30000)
    # encoder: every byte value, all short lengths
    cases.append("hexify " + hx(range(256)))
    for ln in list(range(0, 20)) + [63, 64, 65, 255, 256, 1000]:
        cases.append("hexify " + hx(r.randrange(256) for _ in range(ln)))
    for _ in range(n // 3):
        cases.append("hexify " + hx(r.randrange(256) for _ in range(r.randrange(0, 40))))
    # decoder: valid encodings (both cases), truncations, bad characters at every position, len vs strlen
    hexd = b"0123456789abcdefABCDEF"
    near = b"/:@G`g\x01\x7f\xff xX-+"
    for _ in range(n):
        ln = r.randrange(0, 12)
        s = bytearray(r.choice(hexd) for _ in range(2 * ln + r.randrange(0, 3)))
        kind = r.randrange(6)
        if kind == 0 and s:
            s[r.randrange(len(s))] = r.choice(near)
            ctx.count("hex.dec.badchar")
        elif kind == 1 and s:
            s = s[:r.randrange(len(s))]
            ctx.count("hex.dec.truncated")
        elif kind == 2 and s:
            s[r.randrange(len(s))] = r.randrange(1, 256)
            ctx.count("hex.dec.randbyte")
        else:
            ctx.count("hex.dec.valid")
        want = r.choice([ln, ln, ln, max(0, ln - 1), ln + 1, len(s) // 2, (len(s) + 1) // 2, 0])
        cases.append("unhexify %s %d" % (hx(s), want))
    # raw blocks without a terminator: unhexify converts "2*len characters from in" and may not look
    # at in[2*len]; blocks of exactly 2*len characters (valid, or with a bad / NUL character inside),
    # longer blocks, len = 0 on an empty block.  (A block shorter than 2*len without a NUL inside is a
    # caller error and is not generated.)
    for _ in range(n // 3):
        ln = r.randrange(0, 12)
        s = bytearray(r.choice(hexd) for _ in range(2 * ln + r.choice([0, 0, 0, 1, 2, 5])))
        kind = r.randrange(5)
        if kind == 0 and ln:
            s[r.randrange(2 * ln)] = r.choice(near)
        elif kind == 1 and ln:
            s[r.randrange(2 * ln)] = 0
        ctx.count("hex.dec.raw-block")
        cases.append("unhexraw %s %d" % (hx(s), ln))
    return cases


def check_hex(ctx):
    sub = "hex"
    exe, err = vlib.build_c("drv_codec_asan", "drv_codec.c", ["util/hexify.c", "util/b64encode.c"], asan=True)
    if not exe:
        ctx.fail(sub, "build", "", "C driver does not build: " + err)
        return
    mexe, err = vlib.build_model("codec")
    if not mexe:
        ctx.fail(sub, "tie", "", err)
        return
    cases = gen_hex(ctx)
    impl, st = vlib.run_sharded(exe, cases, env={"ASAN_OPTIONS": "detect_leaks=1:abort_on_error=0"})
    vlib.sanitizer_reports(ctx, sub, st)
    model, _ = vlib.run_sharded(mexe, cases)
    spec, _ = vlib.run_sharded(mexe, ["spec " + c for c in cases])
    vlib.tri_compare(ctx, sub, cases, impl, model, spec)
    ctx.record(sub, cases, set(zip(cases, impl)),
               "hexify on all byte values / lengths 0..1000; unhexify on valid (both cases), truncated, bad-char-at-every-position strings with len below/at/above strlen/2; unterminated blocks of exactly 2*len characters; non-trivial = distinct (case, result)",
               samples=[cases[0][:80], cases[-1]])


SUBCHECKS = {"C17": [check_hex], "C15": [check_hex]}
