"""datastruct/elasticarray.c, elasticqueue.c, seqptrmap.c, mpool.h (C12) and their behaviour under
allocation failure (C14): correspondence of the C with the extracted model and the abstract specs.

Case / result line formats are documented in model/ds_main.ml.  A result line has three sections
"obs | cap | allocs":  obs = what a client can observe (property observables), cap = size of the
array's storage block, allocs = the allocation events.  Comparison:
  impl.obs != spec.obs                        -> the property fails on this input (concrete replay)
  the C12 capacity bound fails on impl sizes  -> the property fails on this input
  impl.obs == spec.obs but a section differs from the model's
                                              -> correspondence break, property not refuted
"""
import os
import vlib

SOURCES = ["datastruct/elasticarray.c", "datastruct/elasticqueue.c", "datastruct/seqptrmap.c"]
WRAPS = ["malloc", "realloc", "free", "atexit"]
ENV = {"ASAN_OPTIONS": "detect_leaks=1:abort_on_error=0:allocator_may_return_null=1"}
U64 = 1 << 64
RECLENS = [1, 1, 2, 3, 4, 5, 7, 8, 16]
OBJ_LEN = 24                      # sizeof(struct obj) in harness/drv_ds.c
KNOWN_SIG_DUP = "ea-exportdup-empty-memcpy-null"


def hx(bs):
    bs = bytes(bs)
    return bs.hex() if bs else "-"


def rb(r, n):
    return bytes(r.randrange(256) for _ in range(n))


# ----------------------------------------------------------------------------------------------
# generators

class EaSim:
    """Follows the resize policy only to aim at its boundaries (never used to judge results)."""

    def __init__(self):
        self.size = self.alloc = 0
        self.live = False

    def resize(self, n):
        if n >= U64:
            return
        if self.alloc < n:
            self.alloc = max(self.alloc * 2, n)
        elif self.alloc // 4 > n:
            self.alloc = n * 2
        self.size = n


OVERFLOW_PAIRS = [(1 << 63, 2), (U64 - 1, 2), (1 << 32, 1 << 32), (0x5555555555555556, 3),
                  ((1 << 62) + 1, 4), (U64 - 1, U64 - 1), (1 << 61, 8)]


# record sizes far beyond anything that can be stored (a caller may pass any positive size_t)
HUGE_RECLENS = [1 << 32, (1 << 32) + 1, (1 << 44) + 1, 1 << 62, (1 << 63) + 8, U64 // 3 + 2, U64 - 1, U64 // 2]


def wrap_pair(r):
    """(nrec, reclen) whose true product does not fit in 64 bits while the product mod 2^64 is a small,
    allocatable number of bytes - mostly >= nrec (so that 'product < nrec' does not betray the overflow),
    sometimes below.  Solved from nrec * reclen = t (mod 2^64): modest counts get huge record sizes
    (3 x (2^64+5)/3, 2^20 x (2^44+1), 2 x (2^63+8), ...); one pair in four is returned swapped (huge count,
    modest-to-huge record size), and counts beyond 2^32 give two huge factors."""
    while True:
        nrec = r.choice([2, 3, 3, 4, 5, 6, 7, 12, 16, 100, 1 << 10, 1 << 20, (1 << 20) + 1,
                         r.randrange(2, 1 << 6), r.randrange(2, 1 << 12), r.randrange(2, 1 << 21),
                         r.randrange(1 << 32, 1 << 34)])
        a = (nrec & -nrec).bit_length() - 1
        m = nrec >> a
        mod = 1 << (64 - a)
        c = r.choice([m, m, m + 1, m + r.randrange(64), m * r.choice([2, 3, 8]), r.randrange(1, 2 * m + 1)])
        t = c << a                                  # the wrapped product
        if t > (1 << 22):
            c = r.randrange(1, 64)
            t = c << a
            if t > (1 << 40):
                continue
        reclen = (c * pow(m, -1, mod)) % mod + r.randrange(1 << a) * mod
        if not 0 < reclen < U64 or nrec * reclen < U64:
            continue
        assert (nrec * reclen) % U64 == t
        return (reclen, nrec) if r.randrange(4) == 0 else (nrec, reclen)


def overflow_pair(ctx, r, tag):
    """a (nrec, reclen) whose product overflows size_t: the fixed classics or an aimed wrapping pair"""
    if r.randrange(2):
        ctx.count(tag + ".wraps-to-small")
        return wrap_pair(r)
    return r.choice(OVERFLOW_PAIRS)


def any_reclen(ctx, r, tag):
    """a record size for the operations that only divide by it: ordinary, or (1 in 12) a huge one"""
    if r.randrange(12) == 0:
        ctx.count(tag + ".huge-reclen")
        return r.choice(HUGE_RECLENS)
    return r.choice(RECLENS)


def gen_ea_case(ctx, r, nops):
    s = EaSim()
    ops = []

    def init():
        k = r.randrange(10)
        if k == 0:
            nrec, reclen = overflow_pair(ctx, r, "ea.init")
            ctx.count("ea.init.overflow")
        elif k == 1 and r.randrange(3) == 0:
            # nothing of a huge record size / one record too large to allocate: no overflow
            nrec, reclen = r.choice([0, 0, 1]), r.choice(HUGE_RECLENS)
            if nrec == 0:
                s.live = True
                s.size = s.alloc = 0
            ctx.count("ea.init.huge-reclen")
        else:
            nrec, reclen = r.choice([0, 0, 1, 2, 3, 7, 8, r.randrange(40)]), r.choice(RECLENS)
            s.live = True
            s.size = s.alloc = 0
            s.resize(nrec * reclen)
            ctx.count("ea.init.zero" if nrec == 0 else "ea.init")
        ops.append("init:%x:%x:%02x" % (nrec, reclen, r.randrange(256)))

    init()
    for _ in range(nops):
        if not s.live:
            init()
            continue
        k = r.randrange(100)
        reclen = r.choice(RECLENS)
        if k < 26:
            nrec = r.choice([0, 1, 1, 2, 3, 4, 6, r.randrange(8), r.randrange(8), r.randrange(20, 70)])
            if r.randrange(6) == 0 and s.alloc > s.size:
                # aim at alloc, alloc+1 (grow boundary)
                want = r.choice([s.alloc - s.size, s.alloc - s.size + 1])
                reclen, nrec = 1, want
                ctx.count("ea.append.at-capacity")
            ops.append("app:%x:%x:%s" % (nrec, reclen, hx(rb(r, nrec * reclen))))
            s.resize(s.size + nrec * reclen)
            ctx.count("ea.append")
        elif k < 31:
            if r.randrange(3) == 0:
                nrec, reclen = wrap_pair(r)
                ctx.count("ea.append.wraps-to-small")
            else:
                nrec, reclen = r.choice(OVERFLOW_PAIRS + [(U64 - 1, 1), (U64 - s.size, 1), (U64 - 1 - s.size, 1),
                                                          (0, r.choice(HUGE_RECLENS)), (1, r.choice(HUGE_RECLENS))])
            ops.append("app:%x:%x:%s" % (nrec % U64, reclen, hx(rb(r, r.randrange(4)))))
            ctx.count("ea.append.overflow-or-huge")
        elif k < 51:
            kind = r.randrange(5)
            if kind == 0 and s.alloc >= 4:
                # aim at the quarter test: alloc/4 > nsize
                q = s.alloc // 4
                nsize = max(0, min(s.size, r.choice([q - 1, q, q + 1])))
                reclen, nrec = 1, s.size - nsize
                ctx.count("ea.shrink.quarter-boundary")
            elif kind == 1:
                nrec = s.size // reclen + r.choice([0, 0, 1])
                ctx.count("ea.shrink.all")
            elif kind == 2 and r.randrange(3) == 0:
                nrec, reclen = overflow_pair(ctx, r, "ea.shrink")
                ctx.count("ea.shrink.overflow")
            else:
                nrec = r.randrange(0, 9)
                ctx.count("ea.shrink")
            ops.append("shr:%x:%x" % (nrec, reclen))
            prod = nrec * reclen
            s.resize(0 if prod > s.size else s.size - prod)
        elif k < 61:
            if r.randrange(5) == 0:
                if r.randrange(2):
                    nrec, reclen = wrap_pair(r)
                    ctx.count("ea.resize.wraps-to-small")
                else:
                    nrec, reclen = r.choice(OVERFLOW_PAIRS + [(1 << 40, 1), (1 << 25, 1), (1, r.choice(HUGE_RECLENS))])
                ctx.count("ea.resize.overflow-or-huge")
            elif r.randrange(25) == 0:
                nrec, reclen = 0, r.choice(HUGE_RECLENS)
                s.resize(0)
                ctx.count("ea.resize.zero-of-huge-reclen")
            else:
                nrec = r.choice([0, 1, 2, 5, r.randrange(30), r.randrange(120), s.size // reclen])
                s.resize(nrec * reclen)
                ctx.count("ea.resize")
            ops.append("res:%x:%x:%02x" % (nrec, reclen, r.randrange(256)))
        elif k < 67:
            ops.append("trunc")
            s.alloc = s.size
            ctx.count("ea.truncate")
        elif k < 80:
            ops.append("get:%x:%x" % (r.randrange(64), any_reclen(ctx, r, "ea.get")))
            ctx.count("ea.get")
        elif k < 86:
            ops.append("size:%x" % any_reclen(ctx, r, "ea.getsize"))
        elif k < 91:
            ops.append("dup:%x" % any_reclen(ctx, r, "ea.exportdup"))
            ctx.count("ea.exportdup" if s.size else "ea.exportdup.empty")
        elif k < 95:
            ops.append("exp:%x" % any_reclen(ctx, r, "ea.export"))
            s.live = False
            ctx.count("ea.export" if s.size else "ea.export.empty")
        elif k < 97:
            ops.append("free")
            s.live = False
    ops.append("free")
    return "ea n " + " ".join(ops)


def gen_ea_tiny_case(ctx, r, nops):
    """Arrays of 0..3 bytes (alloc 1..3 is the range in which resize() never frees the buffer itself:
    alloc/4 == 0), emptied and truncated, then used again."""
    ops = ["init:%x:%x:%02x" % (r.choice([0, 0, 1, 2, 3]), 1, r.randrange(256))]
    size = 0
    for _ in range(nops):
        k = r.randrange(100)
        reclen = r.choice([1, 1, 1, 2, 3])
        if k < 22:
            n = r.choice([1, 1, 2, 3]) // reclen or 1
            ops.append("app:%x:%x:%s" % (n, reclen, hx(rb(r, n * reclen))))
            size += n * reclen
            ctx.count("ea.tiny.append")
        elif k < 40:
            ops.append("shr:%x:%x" % (r.choice([size, size, size + 1, 1, 2]), 1))
            ctx.count("ea.tiny.shrink-to-empty")
            size = 0
        elif k < 58:
            ops.append("trunc")
            ctx.count("ea.tiny.truncate")
        elif k < 68:
            n = r.choice([0, 0, 1, 2, 3])
            ops.append("res:%x:%x:%02x" % (n, 1, r.randrange(256)))
            size = n
            ctx.count("ea.tiny.resize")
        elif k < 80:
            ops.append("get:%x:%x" % (r.randrange(4), reclen))
        elif k < 86:
            ops.append("size:%x" % reclen)
        elif k < 92:
            ops.append("dup:%x" % reclen)
            ctx.count("ea.tiny.exportdup")
        elif k < 96:
            ops.append("exp:%x" % reclen)
            ops.append("init:%x:%x:%02x" % (r.choice([0, 0, 1, 2, 3]), 1, r.randrange(256)))
            size = 0
            ctx.count("ea.tiny.export")
    ops.append("free")
    return "ea n " + " ".join(ops)


def gen_ea_mixed(ctx, r, nops):
    if r.randrange(4) == 0:
        return gen_ea_tiny_case(ctx, r, min(nops, 25))
    return gen_ea_case(ctx, r, nops)


def gen_eq_case(ctx, r, nops):
    reclen = r.choice([1, 2, 3, 4, 8, 8, 13])
    ops = ["init:%x" % reclen]
    ln = 0
    # phases: bias towards growth, drain or churn so that offset > len compaction happens at many sizes
    bias = r.choice([30, 50, 50, 70])
    for _ in range(nops):
        k = r.randrange(100)
        if k < bias:
            ops.append("add:" + hx(rb(r, reclen)))
            ln += 1
            ctx.count("eq.add")
        elif k < 85:
            ops.append("del")
            ctx.count("eq.delete" if ln else "eq.delete.empty")
            ln = max(0, ln - 1)
        elif k < 90:
            ops.append("get:%x" % r.choice([0, ln, ln + 1, r.randrange(ln + 2), U64 - 1]))
            ctx.count("eq.get")
        elif k < 94:
            ops.append("set:%x:%s" % (r.randrange(ln + 2), hx(rb(r, reclen))))
            ctx.count("eq.store-through-get")
        elif k < 97:
            ops.append("len")
        elif k < 98:
            ops.append("free")
            ops.append("init:%x" % reclen)
            ln = 0
        if r.randrange(40) == 0:
            bias = r.choice([20, 50, 80])
    ops.append("free")
    return "eq n " + " ".join(ops)


def gen_spm_case(ctx, r, nops):
    ops = ["init"]
    nxt = 0
    live = []
    bias = r.choice([35, 50, 65])
    for _ in range(nops):
        k = r.randrange(100)
        if k < bias:
            ops.append("add:%x" % r.choice([r.randrange(1, U64), r.randrange(1, 1 << 16), U64 - 1, 1]))
            live.append(nxt)
            nxt += 1
            ctx.count("spm.add")
        elif k < 85:
            kind = r.randrange(10)
            if kind < 3 and live:
                i = live.pop(0)
                ctx.count("spm.delete.front")
            elif kind < 7 and live:
                i = live.pop(r.randrange(len(live)))
                ctx.count("spm.delete.middle")
            elif kind == 7:
                i = r.choice([-1, -5, nxt, nxt + 3, -(1 << 63), (1 << 63) - 1])
                ctx.count("spm.delete.unknown")
            else:
                i = r.randrange(nxt + 1)
                if i in live:
                    live.remove(i)
                ctx.count("spm.delete.repeated-or-any")
            ops.append("del:%s" % sx(i))
        elif k < 93:
            ops.append("get:%s" % sx(r.choice([-1, 0, nxt - 1, nxt, r.randrange(nxt + 2), -(1 << 63), (1 << 63) - 1])))
        elif k < 98:
            ops.append("min")
        if r.randrange(40) == 0:
            bias = r.choice([20, 50, 80])
    ops.append("free")
    return "spm n " + " ".join(ops)


def sx(i):
    return "-%x" % (-i) if i < 0 else "%x" % i


def gen_mp_case(ctx, r, nops):
    size = r.choice([1, 2, 3, 4, 4, 4])
    ops = []
    held = 0
    for _ in range(nops):
        k = r.randrange(100)
        if k < 38:
            burst = r.choice([1, 1, 2, size, size + 1, 2 * size + 1, r.randrange(1, 12)])
            ops += ["m"] * burst
            held += burst
            ctx.count("mp.malloc")
        elif k < 80:
            burst = r.choice([1, 1, held, r.randrange(1, 12)])
            for _ in range(burst):
                ops.append("f:%x" % (r.randrange(held) if held and r.randrange(12) else held + r.randrange(3)))
                held = max(0, held - 1)
            ctx.count("mp.free")
        elif k < 84:
            ops.append("fn")
            ctx.count("mp.free-null")
        elif k < 96:
            n = r.choice([1, 3, 255, 256, 257, 300, 520, 700])
            ops.append("c:%x" % n)
            ctx.count("mp.cycle>=256" if n >= 256 else "mp.cycle")
    return "mp n %x %x " % (size, OBJ_LEN) + " ".join(ops)


# ----------------------------------------------------------------------------------------------
# running and comparing

def build(ctx, sub):
    exe, err = vlib.build_c("drv_ds_asan", "drv_ds.c", SOURCES, extra_sources=["wrap_alloc_ds.c"],
                            wraps=WRAPS, asan=True,
                            per_file_flags={"elasticarray.c": ["-fno-sanitize=nonnull-attribute"]})
    if not exe:
        ctx.fail(sub, "build", "", "C driver does not build: " + err)
        return None, None
    mexe, err = vlib.build_model("ds")
    if not mexe:
        ctx.fail(sub, "tie", "", err)
        return None, None
    return exe, mexe


def sections(line):
    p = line.split(" | ")
    if len(p) != 3:
        return line, "", ""
    return p[0], p[1], p[2]


def refusal_flags(allocs):
    return "".join("1" if group_refused(g) else "0" for g in allocs.split(";"))


def group_refused(g):
    return any(len(t) > 1 and t.endswith("-") for t in g.split(","))


def spec_line(case, impl):
    obs, _, allocs = sections(impl)
    if case.startswith("mp "):
        return "spec " + case + " @ " + obs
    return "spec " + case + " @ " + refusal_flags(allocs)


def want_spec_obs(case, impl_obs, spec):
    """what the spec says the obs section must be (mp: the spec is a predicate on impl's obs)"""
    if case.startswith("mp "):
        return impl_obs if spec == "handout-ok;exit-ok;live=0" and impl_obs.endswith(";live=0") else "<" + spec + ">"
    return spec


def cap_triples(case, impl):
    """(size, alloc, grew) after every op at which the C12 storage bound is promised."""
    if not case.startswith("ea "):
        return []
    obs, cap, allocs = sections(impl)
    ops = case.split()[2:]
    o, c, a = obs.split(";"), cap.split(";"), allocs.split(";")
    out, promised, prev_alloc = [], False, 0
    for i, op in enumerate(ops):
        if i >= len(o) or i >= len(c) or i >= len(a) or "@" not in o[i]:
            break
        res, state = o[i].split("@", 1)
        name = op.split(":")[0]
        if state == "none" or c[i] == "-":
            promised, prev_alloc = False, 0
            continue
        try:
            size, alloc = int(state.split(":")[0], 16), int(c[i], 16)
        except ValueError:
            break
        refused = group_refused(a[i])
        if name in ("init", "res", "app") and res == "rc0":
            promised = True
        elif name == "shr":
            promised = not refused
        elif name == "trunc" and res == "rc0":
            promised = True
        grew = promised and name in ("init", "res", "app") and alloc > prev_alloc and res == "rc0"
        if promised:
            out.append("%x:%x:%d" % (size, alloc, 1 if grew else 0))
        prev_alloc = alloc
    return out


def run_all(exe, mexe, cases):
    impl, st = vlib.run_sharded(exe, cases, env=ENV)
    model, _ = vlib.run_sharded(mexe, cases)
    spec, _ = vlib.run_sharded(mexe, [spec_line(c, i) for c, i in zip(cases, impl)])
    capl = [" ".join(["capchk"] + cap_triples(c, i)) for c, i in zip(cases, impl)]
    capres, _ = vlib.run_sharded(mexe, capl)
    return impl, model, spec, capres, st


def judge(case, impl, model, spec, capres):
    """-> None | (kind, property_fails, detail)"""
    io, ic, ia = sections(impl)
    mo, mc, ma = sections(model)
    want = want_spec_obs(case, io, spec)
    if io != want:
        return ("property", True, "obs impl=%s spec=%s model=%s" % (first_diff(io, want), first_diff(want, io), first_diff(mo, io)))
    if "bad" in capres.split():
        k = capres.split().index("bad")
        return ("property", True, "storage bound violated on the implementation's sizes (size:alloc:grew) %s"
                % cap_triples(case, impl)[k])
    if io != mo:
        return ("diff", False, "obs (spec agrees with impl) impl=%s model=%s" % (first_diff(io, mo), first_diff(mo, io)))
    if ic != mc:
        return ("diff", False, "storage sizes impl=%s model=%s" % (first_diff(ic, mc), first_diff(mc, ic)))
    if ia != ma:
        return ("diff", False, "allocation sequence impl=%s model=%s" % (first_diff(ia, ma), first_diff(ma, ia)))
    return None


def first_diff(a, b):
    """the item of a (';'-separated) at the first position where a and b differ, with its index"""
    x, y = a.split(";"), b.split(";")
    for i in range(max(len(x), len(y))):
        if i >= len(x):
            return "#%d:<missing>" % i
        if i >= len(y) or x[i] != y[i]:
            return "#%d:%s" % (i, x[i][:160])
    return "="


def shrink(exe, mexe, case, still_bad, budget=150):
    """greedy removal of op tokens while the same kind of failure persists"""
    toks = case.split()
    nfix = 4 if toks[0] == "mp" else 2
    head, ops, tail = toks[:nfix], toks[nfix:], []
    if ops and ops[-1] == "free":
        ops, tail = ops[:-1], ["free"]          # the final release stays (otherwise: a leak by construction)
    i = 0
    while i < len(ops) and budget > 0:
        cand = ops[:i] + ops[i + 1:]
        budget -= 1
        c = " ".join(head + cand + tail)
        impl, model, spec, capres, _ = run_all(exe, mexe, [c])
        if cand and still_bad(judge(c, impl[0], model[0], spec[0], capres[0])):
            ops = cand
        else:
            i += 1
    return " ".join(head + ops + tail)


def compare(ctx, sub, exe, mexe, cases, impl, model, spec, capres, max_report=4):
    nd = 0
    for c, i, m, s, k in zip(cases, impl, model, spec, capres):
        if i.startswith("<no-output"):
            continue                      # the shard died: reported with its input by crashes()
        j = judge(c, i, m, s, k)
        if j is None:
            continue
        nd += 1
        if nd > max_report:
            continue
        kind, pf, detail = j
        small = c
        if len(c.split()) > 6:
            small = shrink(exe, mexe, c, lambda x: x is not None and x[0] == kind and x[1] == pf)
            si, sm, ss, sk, _ = run_all(exe, mexe, [small])
            j2 = judge(small, si[0], sm[0], ss[0], sk[0])
            if j2 is not None:
                detail = j2[2]
            else:
                small = c
        ctx.fail(sub, kind, small, detail, property_fails=pf)
    ctx.count(sub + ".disagreements", nd)
    return nd


def crashes(ctx, sub, exe, cases, impl, st, max_report=2):
    """A shard that died (sanitizer abort, signal) leaves '<no-output' lines: the first one of each run of
    such lines is the case that killed it.  Re-run it alone, shrink it, report it with its input."""
    bad = [i for i, l in enumerate(impl) if l.startswith("<no-output") and (i == 0 or not impl[i - 1].startswith("<no-output"))]
    if not bad:
        vlib.sanitizer_reports(ctx, sub, st)
        return
    def dies(c):
        rc, out, err = vlib.run_lines(exe, c + "\n", env=ENV, timeout=60)
        return (rc != 0 or not out), err
    for i in bad[:max_report]:
        c = cases[i]
        d, err = dies(c)
        if not d:
            continue
        toks = c.split()
        nfix = 4 if toks[0] == "mp" else 2
        head, ops = toks[:nfix], toks[nfix:]
        k, budget = 0, 120
        while k < len(ops) and budget > 0:
            cand = ops[:k] + ops[k + 1:]
            budget -= 1
            if cand and dies(" ".join(head + cand))[0]:
                ops = cand
            else:
                k += 1
        c = " ".join(head + ops)
        err = dies(c)[1]
        import re
        m = re.search(r"(ERROR: AddressSanitizer[^\n]*|[^\n]*runtime error:[^\n]*|ERROR: LeakSanitizer[^\n]*|[^\n]*Assertion[^\n]*)", err)
        ctx.fail(sub, "sanitizer" if m else "crash", c, (m.group(1) if m else "driver died: " + err[-300:])[:400], property_fails=True)
    if len(bad) > max_report:
        ctx.count(sub + ".more-crashing-cases", len(bad) - max_report)


def corpus_cases(prefixes):
    d = os.path.join(vlib.VERIF, "corpus", "ds")
    out = []
    if os.path.isdir(d):
        for fn in sorted(os.listdir(d)):
            for line in open(os.path.join(d, fn)):
                line = line.strip()
                if line and not line.startswith("#") and line.split()[0] in prefixes:
                    out.append(line)
    return out


def replay_cases(ctx, sub):
    rp = getattr(ctx, "replay", None)
    if not rp:
        return None
    out = []
    for f in [rp.get("failing_input")] + list(rp.get("failures", [])):
        if f and f.get("sub") == sub and f.get("case") and f["case"] not in out:
            out.append(f["case"])
    return out


def nontrivial(cases, impl):
    return set((c.split()[0], sections(i)[0][-200:], sections(i)[2][-120:]) for c, i in zip(cases, impl))


def run_kind(ctx, sub, gen, nq, nt, lo, hi, rule):
    exe, mexe = build(ctx, sub)
    if not exe:
        return
    rc = replay_cases(ctx, sub)
    if rc is not None:
        cases = rc
    else:
        cases = corpus_cases([sub_kind(sub)])
        r = ctx.rng
        for _ in range(ctx.n(nq, nt)):
            cases.append(gen(ctx, r, r.randrange(lo, hi)))
    if not cases:
        return
    impl, model, spec, capres, st = run_all(exe, mexe, cases)
    crashes(ctx, sub, exe, cases, impl, st)
    compare(ctx, sub, exe, mexe, cases, [l for l in impl], model, spec, capres)
    ctx.record(sub, cases, nontrivial(cases, impl), rule, samples=[cases[0][:300], cases[-1][:300]])
    return exe, mexe, cases, impl


def sub_kind(sub):
    return {"elasticarray": "ea", "elasticqueue": "eq", "seqptrmap": "spm", "mpool": "mp"}[sub.split(".")[0]]


def check_ds_elasticarray(ctx):
    run_kind(ctx, "elasticarray", gen_ea_mixed, 1500, 40000, 4, 45,
             "random init/append/resize/shrink/truncate/get/getsize/export/exportdup/free programs, mixed record "
             "sizes, size-overflowing products, sizes aimed at alloc, alloc+1 and alloc/4-1..alloc/4+1, one case in four on arrays of 0..3 bytes "
             "(emptied, truncated and used again: the range where resize() never frees the buffer); compared "
             "after every op: result, getsize, all bytes through get, storage block size, allocation events; "
             "storage bound alloc/4 <= size evaluated (extracted spec predicate) on the implementation's own "
             "sizes; non-trivial = distinct (final observations, final allocation events)")
    probe_exportdup_empty(ctx)


def check_ds_elasticqueue(ctx):
    run_kind(ctx, "elasticqueue", gen_eq_case, 1200, 30000, 4, 120,
             "random add/delete/get/store-through-get/getlen programs over record sizes 1..13 with growth, drain and "
             "churn phases (front compaction at many sizes), delete on empty; compared after every op: result, "
             "getlen, every record through get, NULL past the end, allocation events")


def check_ds_seqptrmap(ctx):
    run_kind(ctx, "seqptrmap", gen_spm_case, 1200, 30000, 4, 90,
             "random add/get/delete/getmin programs; deletions at the front, in the middle, repeated, of unknown, "
             "negative and INT64 extreme numbers; compared after every op: number issued, getmin, get of every "
             "number from -1 to next+1, allocation events")


def check_ds_mpool(ctx):
    run_kind(ctx, "mpool", gen_mp_case, 600, 12000, 3, 40,
             "MPOOL instantiated with sizes 1..4; bursts of malloc/free crossing the cache size, frees of NULL, "
             "cycles of 255..700 cached malloc/free pairs so that the >>8 tuning test goes both ways, stack "
             "doubling several times; compared: object identity (allocation ordinal) returned by every malloc, "
             "atexit registration, allocation events, blocks live after the exit handler = objects still held")


def probe_exportdup_empty(ctx):
    """elasticarray_exportdup on an empty array calls memcpy(dst, NULL, 0) (reported by UBSan's
    nonnull-attribute check, which the main build switches off).  Reported as a finding only when the
    coordinator has listed its signature; otherwise recorded as a note."""
    if getattr(ctx, "replay", None):
        return
    listed = any(f.get("signature") == KNOWN_SIG_DUP for f in vlib.load_known().get("findings", []))
    exe, err = vlib.build_c("drv_ds_ubsan", "drv_ds.c", SOURCES, extra_sources=["wrap_alloc_ds.c"],
                            wraps=WRAPS, asan=True)
    if not exe:
        return
    case = "ea n init:0:1:aa dup:1 free"
    rc, out, err = vlib.run_lines(exe, case + "\n", env=ENV)
    hit = "null pointer passed as argument" in err
    if hit and listed:
        ctx.fail("elasticarray", "sanitizer", case, err.strip().splitlines()[0][:200], property_fails=True,
                 signature=KNOWN_SIG_DUP)
    elif hit:
        ctx.notes.append("exportdup on an empty array: memcpy(dst, NULL, 0) [%s] (not listed as a finding)" % case)


# ----------------------------------------------------------------------------------------------
# C14: allocation failure

def count_requests(impl):
    allocs = sections(impl)[2]
    return sum(1 for g in allocs.split(";") for t in g.split(",") if t and t[0] in "mr")


def rare_request_indices(case, impl):
    """1-based indices of the requests made inside ops that cannot fail or fail rarely (shrink, delete,
    truncate, export, pool free): the sampled failure points always include some of them."""
    ops = case.split()[2:]
    if case.startswith("mp "):
        ops = ops[2:]
    out, idx = [], 0
    for op, g in zip(ops, sections(impl)[2].split(";")):
        for t in g.split(","):
            if t and t[0] in "mr":
                idx += 1
                if op.split(":")[0] in ("shr", "del", "trunc", "exp", "dup", "f", "res"):
                    out.append(idx)
    return out


def with_mode(case, mode):
    t = case.split()
    t[1] = mode
    return " ".join(t)


def check_ds_allocfail(ctx):
    sub = "allocfail"
    exe, mexe = build(ctx, sub)
    if not exe:
        return
    r = ctx.rng
    rc = replay_cases(ctx, sub)
    if rc is not None:
        cases = rc
    else:
        base = []
        nb = ctx.n(150, 600)
        for _ in range(nb):
            base.append(gen_ea_mixed(ctx, r, r.randrange(4, 30)))
            base.append(gen_eq_case(ctx, r, r.randrange(4, 60)))
            base.append(gen_spm_case(ctx, r, r.randrange(4, 50)))
        for _ in range(nb // 2):
            base.append(gen_mp_case(ctx, r, r.randrange(3, 25)))
        # 1. count the allocations of each base case
        impl0, st0 = vlib.run_sharded(exe, base, env=ENV)
        crashes(ctx, sub, exe, base, impl0, st0)
        cases = corpus_cases(["ea", "eq", "spm", "mp"])
        cases = [c for c in cases if c.split()[1] != "n"]
        for c, i in zip(base, impl0):
            if i.startswith("<no-output"):
                continue
            n = count_requests(i)
            ctx.count("allocfail.base-requests", n)
            ks = list(range(1, n + 2))
            if ctx.quick and len(ks) > 6:
                rare = rare_request_indices(c, i)
                ks = sorted(set([1, 2, n, n + 1] + r.sample(ks, 3) + r.sample(rare, min(3, len(rare)))))
            for k in ks:
                cases.append(with_mode(c, "o%x" % k))
                cases.append(with_mode(c, "f%x" % k))
                ctx.count("allocfail.only-kth")
                ctx.count("allocfail.from-kth")
    if not cases:
        return
    impl, model, spec, capres, st = run_all(exe, mexe, cases)
    crashes(ctx, sub, exe, cases, impl, st)
    compare(ctx, sub, exe, mexe, cases, impl, model, spec, capres)
    # what was exercised
    for c, i in zip(cases, impl):
        obs, _, allocs = sections(i)
        ops = c.split()[2:]
        if c.startswith("mp "):
            ops = ops[2:]
        for op, g, o in zip(ops, allocs.split(";"), obs.split(";")):
            if group_refused(g):
                name = op.split(":")[0]
                ctx.count("allocfail.refused-in.%s.%s" % (c.split()[0], name))
    ctx.record(sub, cases, nontrivial(cases, impl),
               "each base program (array, queue, map, pool) is first run to count its n allocation requests, then "
               "re-run with only the k-th refused and with every request from the k-th on refused (quick: sampled k, "
               "thorough: every k in 1..n+1); compared with the model under the same oracle: every result / errno, "
               "every observation after every op, storage size, allocation + free events; against the spec: a "
               "refused op reports failure and changes nothing, shrink/delete/free succeed regardless, no block "
               "is live after the final free; ASan/UBSan build",
               samples=[cases[0][:300], cases[-1][:300]])


SUBCHECKS = {
    # the C12 refinement theorems quantify over every allocation oracle ("after ANY sequence of operations",
    # refused ones included), so the allocation-failure programs serve C12 as well as C14
    "C12": [check_ds_elasticarray, check_ds_elasticqueue, check_ds_seqptrmap, check_ds_mpool, check_ds_allocfail],
    "C14": [check_ds_allocfail],
}
