"""aws/aws_sign.c (C19): implementation vs the extracted model (which interprets the regenerated
format strings) and vs the independent SigV4 spec evaluated at the timestamp the implementation returned.

Instants (the interposed value of time()):
  0 <= t < Y10K                  theorems C19_*: success, result = spec at the returned timestamp
  Y10K <= t                      theorem C19_far_future_rejected: failure (date[9] too small); sampled
                                 far below gmtime_r's limit (beyond it gmtime_r returns NULL)
  Y1000 <= t < 0, t != -1        no theorem; success expected, result still compared with the spec
  t = -1, t < Y1000              no theorem (time() error value; glibc's unpadded %Y gives a shorter
                                 date or, below year -999, failure): implementation vs model only"""
import os
import vlib

UNRES = "ABCDEFGHIJKLMNOPQRSTUVWXYZabcdefghijklmnopqrstuvwxyz0123456789-_.~"
PRINTABLE = "".join(chr(c) for c in range(33, 127))
TIMES = [0, 1, 86399, 86400, 951782399, 951782400, 951868799, 951868800, 1078099199, 1709251199,
         1709251200, 2147483647, 2147483648, 4102444799, 4102444800, 253402300799, 253402300798,
         1700000000, 1735689599]
Y10K = 253402300800        # 10000-01-01T00:00:00Z
Y1000 = -30610224000       # 1000-01-01T00:00:00Z
# outside the theorems' range: first instants of year 10000; time()'s error value and its neighbours;
# around year 1000, year 1, year 0, year -1, years -999/-1000 (glibc: "%Y" unpadded, '-' for negatives)
TIMES_FAR = [Y10K, Y10K + 1, Y10K + 86399, 253402300800 + 31622400, 10 ** 12, 10 ** 15, 2 ** 55]
TIMES_NEG = [-1, -1, -2, -86400, -86401, -2208988800, Y1000, Y1000 + 1]
TIMES_PRE1000 = [Y1000 - 1, Y1000 - 86400, -59011459200, -62135596800, -62135596801, -62167219200,
                 -62167219201, -62198755200, -93692592000, -93692592001, -93724128000, -93724128001,
                 -10 ** 12, -2 ** 55]


def hx(s):
    b = s if isinstance(s, (bytes, bytearray)) else s.encode()
    return b.hex() if b else "-"


def rstr(r, alphabet, lo=0, hi=24):
    n = r.choice([lo, lo, 1, 3, 8, hi]) if r.random() < 0.3 else r.randrange(lo, hi + 1)
    return "".join(r.choice(alphabet) for _ in range(n))


def gen(ctx, outside=True):
    r = ctx.rng
    n = ctx.n(320, 6000)
    maxbody = ctx.n(600, 100 * 1024)
    cases = []
    for i in range(n):
        kind = r.choice(["s3h", "s3h", "s3q", "svc", "ddb"])
        long = r.random() < 0.05
        hi = 200 if long else 24
        key_id = rstr(r, UNRES, 0, hi)
        secret = rstr(r, PRINTABLE, 0, 200 if long else 40)
        if r.random() < 0.12:   # "AWS4" + secret on both sides of the 64-byte HMAC block
            secret = "".join(r.choice(PRINTABLE) for _ in range(r.choice([59, 60, 61, 124])))
            ctx.count("aws.secret.hmac_block_boundary")
        region = rstr(r, UNRES, 0, hi)
        # mostly midnight-adjacent / boundary instants so that a second time() sample would differ
        t = r.choice(TIMES) if r.random() < 0.6 else r.randrange(0, 253402300799)
        if r.random() < 0.3:
            t = t - (t % 86400) + 86399  # 23:59:59
        tk = r.random() if outside else 1.0
        if tk < 0.05:
            t = r.choice(TIMES_FAR) if r.random() < 0.7 else r.randrange(Y10K, 10 ** 15)
        elif tk < 0.09:
            t = r.choice(TIMES_NEG) if r.random() < 0.7 else r.randrange(Y1000, 0)
        elif tk < 0.13:
            t = r.choice(TIMES_PRE1000) if r.random() < 0.7 else r.randrange(-10 ** 12, Y1000)
        ctx.count("aws.time." + time_class(t))
        bk = r.random()
        if bk < 0.15:
            body = "NULL"
        elif bk < 0.3:
            body = "-"
        else:
            ln = r.choice([1, 55, 56, 63, 64, 65, 119, 120, 200]) if r.random() < 0.5 else r.randrange(1, maxbody if r.random() < 0.1 else 300)
            body = bytes(r.randrange(256) for _ in range(ln)).hex()
        ctx.count("aws.kind." + kind)
        ctx.count("aws.body." + ("absent" if body == "NULL" else "empty" if body == "-" else "bytes"))
        if kind in ("s3h", "s3q"):
            method = r.choice(["GET", "PUT", "HEAD", "DELETE", "POST", rstr(r, UNRES, 0, 8)])
            bucket = rstr(r, UNRES, 0, hi)
            path = "/" + "/".join(rstr(r, UNRES, 0, 12) for _ in range(r.randrange(0, 4)))
            if long:
                path = "/" + rstr(r, UNRES + "/", 100, 200)
            if kind == "s3h":
                cases.append("s3h %s %s %s %s %s %s %s %d" % (hx(key_id), hx(secret), hx(region), hx(method), hx(bucket), hx(path), body, t))
            else:
                expiry = r.choice([0, 1, 60, 3600, 604800, 2147483647, -1, -2147483648, r.randrange(-10 ** 6, 10 ** 9)])
                cases.append("s3q %s %s %s %s %s %s %d %d" % (hx(key_id), hx(secret), hx(region), hx(method), hx(bucket), hx(path), expiry, t))
        elif kind == "svc":
            svc = r.choice(["ec2", "sns", "email", rstr(r, UNRES, 0, hi)])
            cases.append("svc %s %s %s %s %s %d" % (hx(key_id), hx(secret), hx(region), hx(svc), body, t))
        else:
            op = r.choice(["GetItem", "PutItem", rstr(r, UNRES, 0, hi)])
            cases.append("ddb %s %s %s %s %s %d" % (hx(key_id), hx(secret), hx(region), hx(op), body, t))
        # a caller that re-uses its buffer: the next request has a body of the SAME length (the driver
        # then passes the same address) with other contents - and, half the time, everything else equal
        if kind != "s3q" and body not in ("NULL", "-") and r.random() < 0.3:
            ln = len(body) // 2
            if ln % 2 == 0:     # the driver re-uses the address for odd lengths
                ln += 1
                tok = cases[-1].split()
                tok[-2] = bytes(r.randrange(256) for _ in range(ln)).hex()
                cases[-1] = " ".join(tok)
            tok = cases[-1].split()
            tok[-2] = bytes(r.randrange(256) for _ in range(ln)).hex()
            if r.random() < 0.5:
                tok[-1] = str(r.choice(TIMES))
            cases.append(" ".join(tok))
            ctx.count("aws.body.same_buffer_reused_with_other_contents")
    return cases


def time_class(t):
    if t >= Y10K:
        return "year>=10000.theorem_failure"
    if t >= 0:
        return "1970..9999.theorem"
    if t == -1:
        return "time_error_value.model_only"
    if t >= Y1000:
        return "1000..1969.spec_compared_no_theorem"
    return "before_1000.model_only"


def spec_case(case, impl_line):
    """Build the spec query for the timestamp the implementation returned."""
    tok = case.split()
    parts = impl_line.split()
    if parts[:1] != ["ok"]:
        return None
    if tok[0] == "s3q":
        # the datetime is carried in the query string itself: X-Amz-Date=<16 chars>
        q = bytes.fromhex(parts[1]).decode("latin1") if parts[1] != "-" else ""
        i = q.find("X-Amz-Date=")
        if i < 0:
            return None
        dt = q[i + 11:i + 27]
        return "spec " + " ".join(tok[:-1]) + " " + hx(dt.encode("latin1"))
    if len(parts) != 4:
        return None
    return "spec " + " ".join(tok[:-1]) + " " + parts[2]


def check_aws(ctx):
    sub = "aws"
    cfg = os.path.join(vlib.VERIF, "harness", "cpuconfig", "none.h")
    exe, err = vlib.build_c("drv_aws", "drv_aws.c",
                            ["aws/aws_sign.c", "alg/sha256.c", "util/hexify.c", "util/asprintf.c",
                             "util/warnp.c", "util/insecure_memzero.c"],
                            wraps=["time", "malloc", "strdup"], asan=True, cpuconfig=cfg, cflags=["-fno-builtin-strdup", "-fno-builtin-malloc"])
    if not exe:
        ctx.fail(sub, "build", "", "C driver does not build: " + err)
        return
    mexe, err = vlib.build_model("aws")
    if not mexe:
        ctx.fail(sub, "tie", "", err)
        return
    cases = gen(ctx)
    # the process time zone must not matter (timestamps are UTC): run far from UTC
    impl, st = vlib.run_sharded(exe, cases, env={"ASAN_OPTIONS": "detect_leaks=1", "TZ": ctx.rng.choice(["PST8PDT", "XXX-13", "YYY11"])})
    vlib.sanitizer_reports(ctx, sub, st)
    model, _ = vlib.run_sharded(mexe, cases)
    # spec: evaluated at the returned timestamp; compare (content, authorization) / query
    scases, idx = [], []
    for i, (c, a) in enumerate(zip(cases, impl)):
        sc = None if time_class(int(c.split()[-1])).endswith("model_only") else spec_case(c, a)
        if sc:
            scases.append(sc)
            idx.append(i)
    sres, _ = vlib.run_sharded(mexe, scases)
    spec = list(impl)
    for i, s in zip(idx, sres):
        parts = impl[i].split()
        if cases[i].startswith("s3q"):
            spec[i] = s
        else:
            sp = s.split()
            spec[i] = "ok %s %s %s" % (sp[1], parts[2], sp[2]) if len(sp) == 3 else s
    for i, a in enumerate(impl):
        cls = time_class(int(cases[i].split()[-1]))
        if cls.endswith("model_only"):
            spec[i] = a
        elif cls.endswith("theorem_failure"):
            spec[i] = "fail"
        elif not a.startswith("ok"):
            spec[i] = "ok <a signature was expected>"
    # report disagreements with the spec (concrete failing inputs) before mere model differences
    order = sorted(range(len(cases)), key=lambda i: (i >= len(impl) or i >= len(spec) or impl[i] == spec[i], i))
    if len(impl) == len(cases) and len(model) == len(cases):
        vlib.tri_compare(ctx, sub, [cases[i] for i in order], [impl[i] for i in order],
                         [model[i] for i in order], [spec[i] for i in order])
    else:
        vlib.tri_compare(ctx, sub, cases, impl, model, spec)
    ctx.record(sub, cases, set(zip(cases, impl)),
               "four signing variants; ids/regions/buckets/services/ops over the unreserved alphabet (0..200 chars), S3 paths always beginning with '/' (the request line documented in aws_sign.h; 0..3 unreserved segments or a long unreserved+'/' tail; never empty), secrets printable ASCII, bodies absent/empty/random (block-boundary lengths), timestamps at epoch/leap-day/23:59:59/2038/year-9999 boundaries with time() returning t+k on its k-th call; about 13% of the instants outside 1970..9999: year >= 10000 (failure expected, theorem), negative down to year 1000 (compared with the spec), time()'s error value -1 and years before 1000 (implementation vs model only: unpadded %Y, failure below year -999); two requests in progress at once: in three quarters of the cases (k = 1..6 chosen by the case text) the driver signs ANOTHER request (other credentials, region, variant, instant) completely inside the k-th allocation of the outer call and compares it with the same call made alone beforehand (`!other-request-disturbed`), the outer call then continues and must still give the model's / spec's result; non-trivial = distinct (case, result)",
               samples=[cases[0][:200], cases[1][:200]])
    ctx.assumptions.append("gmtime_r/strftime/asprintf modelled for the conversions used (%Y %m %d %H %M %S, %s %d %%) as glibc implements them (%Y unpadded, strftime returns 0 when the text does not fit); theorems cover time() values 0..253402300799 (success) and 253402300800..gmtime_r's limit (failure); S3 paths begin with '/'")


NALLOC = {"s3h": 6, "svc": 6, "ddb": 6, "s3q": 4}   # allocations per successful call (asprintf x3/4, strdup x2)


def check_aws_allocfail(ctx):
    """C14: refuse the k-th allocation inside an aws_sign_* call: it must return -1/NULL, not crash,
    leak nothing (LeakSanitizer), and with k beyond the last allocation behave normally."""
    sub = "aws.allocfail"
    cfg = os.path.join(vlib.VERIF, "harness", "cpuconfig", "none.h")
    exe, err = vlib.build_c("drv_aws", "drv_aws.c",
                            ["aws/aws_sign.c", "alg/sha256.c", "util/hexify.c", "util/asprintf.c",
                             "util/warnp.c", "util/insecure_memzero.c"],
                            wraps=["time", "malloc", "strdup"], asan=True, cpuconfig=cfg, cflags=["-fno-builtin-strdup", "-fno-builtin-malloc"])
    if not exe:
        ctx.fail(sub, "build", "", "C driver does not build: " + err)
        return
    base = gen(ctx, outside=False)[:ctx.n(40, 400)]
    normal, _ = vlib.run_sharded(exe, base, env={"TZ": "UTC0"})
    cases, want = [], []
    for c, nrm in zip(base, normal):
        n = NALLOC[c.split()[0]]
        for k in range(1, n + 2):
            cases.append("fail %d %s" % (k, c))
            want.append("fail" if k <= n else nrm)
    impl, st = vlib.run_sharded(exe, cases, env={"ASAN_OPTIONS": "detect_leaks=1", "TZ": "UTC0"})
    vlib.sanitizer_reports(ctx, sub, st, "allocation failure inside aws_sign_*")
    vlib.tri_compare(ctx, sub, cases, impl, want, want)
    ctx.record(sub, cases, set(cases), "every allocation index k=1..n+1 of %d signing calls refused in turn; expected: failure for k<=n (n = 6 header variants, 4 query variant), normal result for k=n+1, no sanitizer/leak report" % len(base),
               samples=[cases[0][:160]])


# the failure histories also stand under C19: the signature of the first successful call AFTER a refused
# allocation must still be the right one (nothing a failed call left behind may enter it; seed C19-n)
SUBCHECKS = {"C19": [check_aws, check_aws_allocfail], "C14": [check_aws_allocfail]}
