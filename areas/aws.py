"""aws/aws_sign.c (C19): implementation vs the extracted model (which interprets the regenerated
format strings) and vs the independent SigV4 spec evaluated at the timestamp the implementation returned."""
import os
import vlib

UNRES = "ABCDEFGHIJKLMNOPQRSTUVWXYZabcdefghijklmnopqrstuvwxyz0123456789-_.~"
PRINTABLE = "".join(chr(c) for c in range(33, 127))
TIMES = [0, 1, 86399, 86400, 951782399, 951782400, 951868799, 951868800, 1078099199, 1709251199,
         1709251200, 2147483647, 2147483648, 4102444799, 4102444800, 253402300799, 253402300798,
         1700000000, 1735689599]


def hx(s):
    b = s if isinstance(s, (bytes, bytearray)) else s.encode()
    return b.hex() if b else "-"


def rstr(r, alphabet, lo=0, hi=24):
    n = r.choice([lo, lo, 1, 3, 8, hi]) if r.random() < 0.3 else r.randrange(lo, hi + 1)
    return "".join(r.choice(alphabet) for _ in range(n))


def gen(ctx):
    r = ctx.rng
    n = ctx.n(320, 6000)
    maxbody = ctx.n(600, 100 * 1024)
    cases = []
    for i in range(n):
        kind = r.choice(["s3h", "s3h", "s3q", "svc", "ddb"])
        long = r.random() < 0.05
        hi = 200 if long else 24
        key_id = rstr(r, UNRES, 0, hi)
        secret = rstr(r, PRINTABLE, 0, 200 if long else 40)
        if r.random() < 0.12:   # "AWS4" + secret on both sides of the 64-byte HMAC block
            secret = "".join(r.choice(PRINTABLE) for _ in range(r.choice([59, 60, 61, 124])))
            ctx.count("aws.secret.hmac_block_boundary")
        region = rstr(r, UNRES, 0, hi)
        # mostly midnight-adjacent / boundary instants so that a second time() sample would differ
        t = r.choice(TIMES) if r.random() < 0.6 else r.randrange(0, 253402300799)
        if r.random() < 0.3:
            t = t - (t % 86400) + 86399  # 23:59:59
        bk = r.random()
        if bk < 0.15:
            body = "NULL"
        elif bk < 0.3:
            body = "-"
        else:
            ln = r.choice([1, 55, 56, 63, 64, 65, 119, 120, 200]) if r.random() < 0.5 else r.randrange(1, maxbody if r.random() < 0.1 else 300)
            body = bytes(r.randrange(256) for _ in range(ln)).hex()
        ctx.count("aws.kind." + kind)
        ctx.count("aws.body." + ("absent" if body == "NULL" else "empty" if body == "-" else "bytes"))
        if kind in ("s3h", "s3q"):
            method = r.choice(["GET", "PUT", "HEAD", "DELETE", "POST", rstr(r, UNRES, 0, 8)])
            bucket = rstr(r, UNRES, 0, hi)
            path = "/" + "/".join(rstr(r, UNRES, 0, 12) for _ in range(r.randrange(0, 4)))
            if long:
                path = "/" + rstr(r, UNRES + "/", 100, 200)
            if kind == "s3h":
                cases.append("s3h %s %s %s %s %s %s %s %d" % (hx(key_id), hx(secret), hx(region), hx(method), hx(bucket), hx(path), body, t))
            else:
                expiry = r.choice([0, 1, 60, 3600, 604800, 2147483647, -1, -2147483648, r.randrange(-10 ** 6, 10 ** 9)])
                cases.append("s3q %s %s %s %s %s %s %d %d" % (hx(key_id), hx(secret), hx(region), hx(method), hx(bucket), hx(path), expiry, t))
        elif kind == "svc":
            svc = r.choice(["ec2", "sns", "email", rstr(r, UNRES, 0, hi)])
            cases.append("svc %s %s %s %s %s %d" % (hx(key_id), hx(secret), hx(region), hx(svc), body, t))
        else:
            op = r.choice(["GetItem", "PutItem", rstr(r, UNRES, 0, hi)])
            cases.append("ddb %s %s %s %s %s %d" % (hx(key_id), hx(secret), hx(region), hx(op), body, t))
    return cases


def spec_case(case, impl_line):
    """Build the spec query for the timestamp the implementation returned."""
    tok = case.split()
    parts = impl_line.split()
    if parts[:1] != ["ok"]:
        return None
    if tok[0] == "s3q":
        # the datetime is carried in the query string itself: X-Amz-Date=<16 chars>
        q = bytes.fromhex(parts[1]).decode("latin1") if parts[1] != "-" else ""
        i = q.find("X-Amz-Date=")
        if i < 0:
            return None
        dt = q[i + 11:i + 27]
        return "spec " + " ".join(tok[:-1]) + " " + hx(dt.encode("latin1"))
    if len(parts) != 4:
        return None
    return "spec " + " ".join(tok[:-1]) + " " + parts[2]


def check_aws(ctx):
    sub = "aws"
    cfg = os.path.join(vlib.VERIF, "harness", "cpuconfig", "none.h")
    exe, err = vlib.build_c("drv_aws", "drv_aws.c",
                            ["aws/aws_sign.c", "alg/sha256.c", "util/hexify.c", "util/asprintf.c",
                             "util/warnp.c", "util/insecure_memzero.c"],
                            wraps=["time", "malloc", "strdup"], asan=True, cpuconfig=cfg, cflags=["-fno-builtin-strdup", "-fno-builtin-malloc"])
    if not exe:
        ctx.fail(sub, "build", "", "C driver does not build: " + err)
        return
    mexe, err = vlib.build_model("aws")
    if not mexe:
        ctx.fail(sub, "tie", "", err)
        return
    cases = gen(ctx)
    # the process time zone must not matter (timestamps are UTC): run far from UTC
    impl, st = vlib.run_sharded(exe, cases, env={"ASAN_OPTIONS": "detect_leaks=1", "TZ": ctx.rng.choice(["PST8PDT", "XXX-13", "YYY11"])})
    vlib.sanitizer_reports(ctx, sub, st)
    model, _ = vlib.run_sharded(mexe, cases)
    # spec: evaluated at the returned timestamp; compare (content, authorization) / query
    scases, idx = [], []
    for i, (c, a) in enumerate(zip(cases, impl)):
        sc = spec_case(c, a)
        if sc:
            scases.append(sc)
            idx.append(i)
    sres, _ = vlib.run_sharded(mexe, scases)
    spec = list(impl)
    for i, s in zip(idx, sres):
        parts = impl[i].split()
        if cases[i].startswith("s3q"):
            spec[i] = s
        else:
            sp = s.split()
            spec[i] = "ok %s %s %s" % (sp[1], parts[2], sp[2]) if len(sp) == 3 else s
    for i, a in enumerate(impl):
        if not a.startswith("ok"):
            spec[i] = "ok <a signature was expected>"
    vlib.tri_compare(ctx, sub, cases, impl, model, spec)
    ctx.record(sub, cases, set(zip(cases, impl)),
               "four signing variants; ids/regions/buckets/services/ops over the unreserved alphabet (0..200 chars), secrets printable ASCII, bodies absent/empty/random (block-boundary lengths), timestamps at epoch/leap-day/23:59:59/2038/year-9999 boundaries with time() returning t+k on its k-th call; non-trivial = distinct (case, result)",
               samples=[cases[0][:200], cases[1][:200]])
    ctx.assumptions.append("gmtime_r/strftime/asprintf modelled for the conversions used (%Y %m %d %H %M %S, %s %d %%), years 1970..9999")


NALLOC = {"s3h": 6, "svc": 6, "ddb": 6, "s3q": 4}   # allocations per successful call (asprintf x3/4, strdup x2)


def check_aws_allocfail(ctx):
    """C14: refuse the k-th allocation inside an aws_sign_* call: it must return -1/NULL, not crash,
    leak nothing (LeakSanitizer), and with k beyond the last allocation behave normally."""
    sub = "aws.allocfail"
    cfg = os.path.join(vlib.VERIF, "harness", "cpuconfig", "none.h")
    exe, err = vlib.build_c("drv_aws", "drv_aws.c",
                            ["aws/aws_sign.c", "alg/sha256.c", "util/hexify.c", "util/asprintf.c",
                             "util/warnp.c", "util/insecure_memzero.c"],
                            wraps=["time", "malloc", "strdup"], asan=True, cpuconfig=cfg, cflags=["-fno-builtin-strdup", "-fno-builtin-malloc"])
    if not exe:
        ctx.fail(sub, "build", "", "C driver does not build: " + err)
        return
    base = gen(ctx)[:ctx.n(40, 400)]
    normal, _ = vlib.run_sharded(exe, base, env={"TZ": "UTC0"})
    cases, want = [], []
    for c, nrm in zip(base, normal):
        n = NALLOC[c.split()[0]]
        for k in range(1, n + 2):
            cases.append("fail %d %s" % (k, c))
            want.append("fail" if k <= n else nrm)
    impl, st = vlib.run_sharded(exe, cases, env={"ASAN_OPTIONS": "detect_leaks=1", "TZ": "UTC0"})
    vlib.sanitizer_reports(ctx, sub, st, "allocation failure inside aws_sign_*")
    vlib.tri_compare(ctx, sub, cases, impl, want, want)
    ctx.record(sub, cases, set(cases), "every allocation index k=1..n+1 of %d signing calls refused in turn; expected: failure for k<=n (n = 6 header variants, 4 query variant), normal result for k=n+1, no sanitizer/leak report" % len(base),
               samples=[cases[0][:160]])


SUBCHECKS = {"C19": [check_aws], "C14": [check_aws_allocfail]}
