"""events/events*.c: correspondence of the C event loop with the extracted model, and the SPEC's
trace checkers (check_c04 / check_c05, extracted from coq/Events/EventsSpec.v) evaluated on the
trace printed by the IMPLEMENTATION.

One run serves C04 and C05: cases, implementation traces, model traces and checker verdicts are
cached under build/events/ keyed by (seed, tier, sources, model, harness, this file).
"""
import hashlib
import json
import os
import random

import vlib

SRC = ["events/events.c", "events/events_immediate.c", "events/events_network.c", "events/events_timer.c",
       "datastruct/timerqueue.c", "datastruct/ptrheap.c", "datastruct/elasticarray.c"]
HDR = ["events/events.h", "events/events_internal.h", "datastruct/mpool.h", "datastruct/timerqueue.h",
       "datastruct/ptrheap.h", "datastruct/elasticarray.h", "external/queue/queue.h"]
WRAPS = ["poll", "malloc", "realloc", "calloc", "free"]
ASAN_ENV = {"ASAN_OPTIONS": "detect_leaks=1:abort_on_error=0:exitcode=21", "LSAN_OPTIONS": "exitcode=23"}

PRIOS = [0, 1, 1, 5, 5, 5, 5, 31, 31, 17]
TIMEOUTS = [(0, 0), (0, 500), (0, 500), (0, 500), (0, 1000), (0, 1000), (1, 0), (0, 999999), (0, 1500),
            (0, 1), (2, 500000), (0, 250000)]
TIMEOUTS_D = [(0, 0), (0, 15625), (0, 15625), (0, 500000), (0, 250000), (1, 0), (0, 984375), (2, 500000), (0, 31250)]
STEPS = [0, 0, 0, 1, 100, 499, 500, 501, 1000, 1000, 250000, 999999, 1500000, 3000000]


# ----------------------------------------------------------------------------------------------
# generator

class Gen:
    def __init__(self, r, ctx):
        self.r, self.ctx = r, ctx

    def fd(self, home=None):
        r = self.r
        if home is not None and r.random() < 0.7:
            return max(0, min(5, home + r.choice([0, 0, 0, -1, 1])))
        x = r.random()
        if x < 0.93:
            return r.randrange(6)
        if x < 0.96:
            return r.choice([9, 23, 40])
        return -1 - r.randrange(2)

    def direction(self):
        return 2 if self.r.random() < 0.02 else self.r.randrange(2)

    def op(self, prof, ncb, home=None, inside=True):
        """one API operation as a token list"""
        r = self.r
        w = dict(prof)
        kinds = list(w.keys())
        k = r.choices(kinds, [w[x] for x in kinds])[0]
        cb = r.randrange(ncb)
        var = r.randrange(6)
        if k == "ir":
            return ["ir", cb, r.choice(PRIOS) if r.random() < 0.85 else r.randrange(32), var, 0]
        if k == "ic":
            return ["ic", var]
        if k == "nr":
            f = self.fd(home)
            # callbacks are associated with a "home" descriptor so that scripts tend to act on the
            # descriptor that is being dispatched or on its neighbours in the poll array
            c = (f % ncb) if (f >= 0 and r.random() < 0.6) else cb
            return ["nr", c, f, self.direction(), 0]
        if k == "nc":
            return ["nc", self.fd(home), self.direction()]
        if k == "tr":
            t = r.choice(TIMEOUTS)
            if r.random() < 0.02:
                t = r.choice([(2147483, 0), (2147482, 999999), (2147482, 1), (5000000, 7)])
            if r.random() < 0.25:
                # the double interface; fractions a double holds exactly (multiples of 1/64 s)
                t = r.choice(TIMEOUTS_D)
                return ["td", cb, t[0], t[1], var, 0]
            return ["tr", cb, t[0], t[1], var, 0]
        if k == "tx":
            return ["tx", var]
        if k == "ts":
            return ["ts", var]
        if k == "in":
            return ["in"]
        return ["dn"]

    def case(self):
        return render(*self.case_struct())

    def far_case(self):
        """timer distances around the point where the distance no longer fits poll's int timeout"""
        r = self.r
        self.ctx.count("events.profile.far")
        far = [(2147482, 999999), (2147482, 999001), (2147482, 999000), (2147483, 0), (2147483, 1),
               (2147483, 646000), (2147483, 646001), (2147483, 647000), (2147483, 647001), (2147483, 999999),
               (2147484, 0), (2147484, 500000), (4294967, 296000), (5000000, 7), (2147481, 500000),
               # distances of 2^31 s and more, multiples of 2^32 s: a time comparison that truncates
               # the difference of two time_t values to int gets these wrong
               (2147483647, 0), (2147483648, 0), (2147483653, 1), (3000000000, 0), (4294967296, 0),
               (4294967301, 999999), (8589934592, 0), (1099511627776, 5)]
        t = r.choice(far)
        prog = [[([], 0)], [([["tr", 0, 0, 500, 1, 0]], 0)]]
        xs = []
        if r.random() < 0.3:
            xs.append(["nr", 1, r.randrange(4), r.randrange(2), 0])
        xs.append(["tr", 0, t[0], t[1], 0, 0])
        if r.random() < 0.3:
            t2 = r.choice(far)
            xs.append(["tr", 0, t2[0], t2[1], 2, 0])
        xs.append(["run"])
        if r.random() < 0.5:
            xs += [["ts", 0], ["run"]]
        polls = [r.choice([["r", 0], ["r", 0], ["e0"], ["r", 1, 0, 3]]) for _ in range(8)]
        base = r.choice([0, 0, 1000000, 999999, 353000, 1])
        step = r.choice([0, 0, 0, 1, 999, 1000, 353000, 647000, 1000000])
        clocks = [((base + i * step) // 1000000, (base + i * step) % 1000000) for i in range(12)]
        return render(prog, xs, polls, clocks)

    def far_double_case(self):
        """Timeouts of 2^31 s and more (next to ordinary ones) given to events_timer_register_double, and the
        same values given to events_timer_register as a struct timeval; then the clock jumps to instants
        between registration + 2^31 - 1 s and the deadlines (just before / at / just after each), and at
        last past all of them, with the loop run at every instant: no callback before its registration
        time + timeout, all of them in deadline order afterwards; some timers are reset in between."""
        r = self.r
        self.ctx.count("events.profile.far-double")
        far = [(5, 250000), (0, 15625), (31536000, 0), (2147483646, 500000), (2147483647, 0), (2147483647, 15625),
               (2147483648, 0), (2147483648, 750000), (4294967296, 500000), (10 ** 10, 0), (10 ** 10, 0),
               (3 * 10 ** 9, 984375), (2 ** 40, 31250)]
        us = lambda t: t[0] * 1000000 + t[1]
        base = r.choice([0, 999999, 1000123456, 5000007, 86400 * 10 ** 6])
        xs, timers, used = [], [], []
        for v in range(r.randrange(1, 5)):
            t = r.choice(far) if r.random() < 0.8 else (r.randrange(2 ** 31, 2 ** 35), 15625 * r.randrange(64))
            kind = "td" if r.random() < 0.65 else "tr"
            xs.append([kind, 0, t[0], t[1], v, 0])
            timers.append(t)
            used.append(v)
            if r.random() < 0.35:                      # the same value through the other interface
                xs.append(["tr" if kind == "td" else "td", 1, t[0], t[1], v + 8, 0])
                timers.append(t)
                used.append(v + 8)
        nreads = len(timers)
        s31 = 2147483647 * 1000000
        cands = [s31 - 1, s31, s31 + 1, s31 + 3000000, s31 + 1000000]
        for t in timers:
            cands += [us(t) - 1000000, us(t) - 1, us(t), us(t) + 1]
        instants = sorted(r.sample([c for c in cands if c > 0], r.randrange(2, 5)))
        last = max(us(t) for t in timers) + 1000000
        clocks = [base] * nreads
        nruns = 0
        for k, at in enumerate(instants):
            if r.random() < 0.25:
                xs.append(["ts", r.choice(used)])      # reset: one more reading, a new deadline
                clocks.append(base + at)
                last = max(last, at + max(us(t) for t in timers) + 1000000)
            n = r.choice([1, 1, 2])
            xs += [["run"]] * n
            nruns += n
            clocks += [base + at] * r.choice([2 * n, 2 * n, 2 * n + 1, 3 * n + 1])
        n = len(timers) + 3
        xs += [["run"]] * n
        nruns += n
        clocks += [base + last] * 8
        polls = [["r", 0]] * (3 * nruns + 3 * len(timers) + 8)
        return render([[([], 0)], [([], 0)]], xs, polls, [(c // 1000000, c % 1000000) for c in clocks])

    def many_timers_case(self):
        """8..40 timers with distinct deadlines registered in scrambled order, some cancelled or reset
        from the middle of the heap, then the clock jumps past every deadline and the loop is run until
        all have fired: the order of the callbacks is the order of the deadlines only if the timer heap
        keeps its shape under deletions from interior positions."""
        r = self.r
        self.ctx.count("events.profile.many-timers")
        n = r.randrange(8, 41)
        ms = r.sample(range(1, 4000), n)
        if r.random() < 0.3:                      # a layout with small keys in the last leaves
            ms = sorted(ms)
            half = n // 2
            ms = [ms[0]] + ms[half:] + ms[1:half]
        xs = [["tr", 0, m // 1000, (m % 1000) * 1000, i, 0] for i, m in enumerate(ms)]
        nreads = n
        for _ in range(r.randrange(1, max(2, n // 3))):
            v = r.randrange(n)
            if r.random() < 0.75:
                xs.append(["tx", v])
            else:
                xs.append(["ts", v])
                nreads += 1
            if r.random() < 0.3:
                m = r.randrange(1, 4000)
                xs.append(["tr", 0, m // 1000, (m % 1000) * 1000, v, 0])
                nreads += 1
        xs += [["run"]] * (n + 6)
        polls = [["r", 0]] * (3 * (n + 6))
        clocks = [(0, 0)] * nreads + [(10, 0)] * (8 * (n + 6))
        return render([[([], 0)]], xs, polls, clocks)

    def case_struct(self):
        r = self.r
        pname = r.choices(["mixed", "net", "imm", "timer", "status", "spin"], [30, 30, 12, 15, 8, 5])[0]
        self.ctx.count("events.profile." + pname)
        base = {"ir": 10, "ic": 5, "nr": 14, "nc": 10, "tr": 8, "tx": 4, "ts": 4, "in": 0.5, "dn": 0}
        if pname == "net":
            base.update({"nr": 30, "nc": 25, "ir": 3, "tr": 3})
        elif pname == "imm":
            base.update({"ir": 35, "ic": 18, "nr": 3, "nc": 2})
        elif pname == "timer":
            base.update({"tr": 28, "tx": 10, "ts": 12, "nr": 4, "ir": 3})
        elif pname == "status":
            base.update({"in": 6})
        elif pname == "spin":
            base.update({"dn": 6, "in": 2})
        ncb = r.randrange(1, 13)
        prog = []
        for cb in range(ncb):
            home = cb % 6
            scripts = []
            for _ in range(r.choice([1, 1, 2, 3])):
                ops = [self.op(base, ncb, home) for _ in range(r.choice([0, 1, 1, 2, 2, 3, 4]))]
                rc = 0
                if r.random() < (0.25 if pname == "status" else 0.03):
                    rc = r.choice([1, -1, 7, 255, -1000])
                scripts.append((ops, rc))
            prog.append(scripts)
        # external sequence: set-up registrations, then runs interleaved with further calls
        xs = []
        for _ in range(r.randrange(2, 12)):
            xs.append(self.op(base, ncb, None))
        nruns = r.choice([1, 2, 2, 3, 3, 4, 6])
        for i in range(nruns):
            if pname == "spin" and r.random() < 0.6:
                xs.append(["spin"])
            else:
                xs.append(["run"])
            for _ in range(r.choice([0, 0, 1, 2, 3])):
                xs.append(self.op(base, ncb, None))
        if r.random() < 0.05:
            xs.insert(r.randrange(len(xs)), ["in"])      # interrupt requested before a run starts
        # schedule
        polls = []
        for _ in range(nruns * 3 + r.randrange(0, 8) + (6 if pname == "spin" else 0)):
            x = r.random()
            if x < 0.06:
                polls.append(["e0"])
            elif x < 0.09:
                polls.append(["e1"])
            else:
                dens = r.choice([0.0, 0.15, 0.4, 0.4, 0.8])
                ans = []
                for f in [0, 1, 2, 3, 4, 5, 9, 23, 40]:
                    if r.random() < dens:
                        y = r.random()
                        if y < 0.72:
                            b = r.choice([1, 2, 3])
                        elif y < 0.9:
                            b = r.choice([4, 8, 12, 5, 9, 6, 10])
                        else:
                            b = r.randrange(1, 16)
                        ans += [f, b]
                polls.append(["r", len(ans) // 2] + ans)
        clocks = []
        t = 1000000 * r.choice([0, 1, 1, 7]) + r.choice([0, 0, 999999, 500])
        for _ in range(8 + 4 * nruns + len(xs)):
            t += r.choice(STEPS)
            clocks.append((t // 1000000, t % 1000000))
        return prog, xs, polls, clocks


def manyfd_struct(r, ctx):
    """C14: 2^k distinct descriptors are registered (the pollfd array is exactly full), then the
    registration of one more NEW descriptor has one of its allocations refused - the growth of
    the pollfd array among them.  Afterwards all the earlier registrations must still work."""
    nfd = r.choice([16, 16, 32])
    ctx.count("events.allocfail.manyfd.%d" % nfd)
    ncb = 4
    prog = [[([], 0)], [([["nc", r.randrange(nfd), r.randrange(2)]], 0)],
            [([["nr", 0, r.randrange(nfd), r.randrange(2), 0]], 0)], [([], 0), ([], 0)]]
    xs = []
    for fd in range(nfd):
        d = r.randrange(2)
        xs.append(["nr", fd % ncb, fd, d, 0])
        if r.random() < 0.25:
            xs.append(["nr", (fd + 1) % ncb, fd, 1 - d, 0])
    if r.random() < 0.3:
        xs.append(["run"])
    k = r.choice([1, 2, 3, 4, -1, -2, -3, -4, 2, 3, -2, -3])
    failing = ["nr", r.randrange(ncb), nfd, r.randrange(2), 0]
    xs.append(failing)
    between = r.random() < 0.5        # a run between the refused call and its retry
    if between:
        xs.append(["run"])
    xs.append(list(failing))
    xs.append(["run"])
    for _ in range(r.randrange(0, 6)):
        xs.append(["nc", r.randrange(nfd + 1), r.randrange(2)])
    xs.append(["run"])
    polls = []
    for _ in range(10):
        fds = r.sample(range(nfd + 1), r.randrange(0, 9))
        ans = []
        for f in sorted(fds):
            ans += [f, r.choice([1, 2, 3, 3, 8])]
        polls.append(["r", len(ans) // 2] + ans)
    clocks = [(1, 0)]
    return (prog, xs, polls, clocks, 0), failing, k, between


def render(prog, xs, polls, clocks):
    out = ["ev", len(prog)]
    for scripts in prog:
        out.append(len(scripts))
        for ops, rc in scripts:
            out.append(len(ops))
            for o in ops:
                out += o
            out.append(rc)
    out += ["x", len(xs)]
    for o in xs:
        out += o
    out += ["p", len(polls)]
    for p in polls:
        out += p
    out += ["c", len(clocks)]
    for c in clocks:
        out += [c[0], c[1]]
    return " ".join(str(x) for x in out)


def corpus_cases():
    d = os.path.join(vlib.VERIF, "corpus", "events")
    out = []
    if os.path.isdir(d):
        for fn in sorted(os.listdir(d)):
            if fn.endswith(".txt"):
                for line in open(os.path.join(d, fn)):
                    line = line.strip()
                    if line.startswith("ev "):
                        out.append(line)
    return out


# ----------------------------------------------------------------------------------------------
# building and running

def _sha(paths):
    h = hashlib.sha256()
    for p in paths:
        h.update(p.encode())
        if os.path.exists(p):
            h.update(open(p, "rb").read())
    return h.hexdigest()


def build(ctx, sub):
    exe, err = vlib.build_c("drv_events_asan", "drv_events.c", SRC, extra_sources=["wrap_events.c"],
                            wraps=WRAPS, asan=True)
    if not exe:
        ctx.fail(sub, "build", "", "C driver does not build: " + str(err)[-1500:], property_fails=False)
        return None, None
    mexe, err = vlib.build_model("events")
    if not mexe:
        ctx.fail(sub, "tie", "", str(err)[-1500:])
        return None, None
    return exe, mexe


def run_all(ctx, sub):
    """-> dict(cases, impl, model, c04, c05, status) ; cached per (seed, tier, inputs)"""
    exe, mexe = build(ctx, sub)
    if not exe:
        return None
    # the cache key is the freshly built driver BINARY (so every source and header that went into it
    # counts, whatever file it lives in), the model's stamp and this file
    key = _sha([exe, os.path.join(vlib.BUILD, "model", "events", "stamp"), os.path.abspath(__file__)])
    cdir = vlib.ensure_dir(os.path.join(vlib.BUILD, "events"))
    cfile = os.path.join(cdir, "run-%d-%s.json" % (ctx.seed, ctx.tier))
    if os.path.exists(cfile):
        try:
            d = json.load(open(cfile))
            if d.get("key") == key:
                for k, v in d.get("dist", {}).items():
                    ctx.count(k, v)
                return d
        except Exception:
            pass
    r = random.Random("events-%d-%s" % (ctx.seed, ctx.tier))
    g = Gen(r, ctx)
    before = dict(ctx.dist)
    cases = corpus_cases()
    ctx.count("events.corpus", len(cases))
    n = ctx.n(4000, 200000)
    cases += [(g.far_case() if i % 25 == 7 else g.many_timers_case() if i % 25 == 13 else
               g.far_double_case() if i % 25 == 19 else g.case()) for i in range(n)]
    impl, st = vlib.run_sharded(exe, cases, env=ASAN_ENV, timeout=5400)
    model, _ = vlib.run_sharded(mexe, cases, timeout=5400)
    traces = [l[3:] if l.startswith("ok ") else "" for l in impl]
    c04, _ = vlib.run_sharded(mexe, ["chk04 " + t for t in traces], timeout=5400)
    c05, _ = vlib.run_sharded(mexe, ["chk05 " + t for t in traces], timeout=5400)
    dist = {k: v - before.get(k, 0) for k, v in ctx.dist.items() if v != before.get(k, 0)}
    d = {"key": key, "cases": cases, "impl": impl, "model": model, "c04": c04, "c05": c05,
         "status": [[rc, err[-2000:]] for rc, err in st], "dist": dist}
    tmp = cfile + ".tmp%d" % os.getpid()
    with open(tmp, "w") as f:
        json.dump(d, f)
    os.replace(tmp, cfile)
    return d


def trace_stats(ctx, impl):
    """input/behaviour classes actually reached (printed into the evidence)"""
    for l in impl[:20000]:
        t = l.split()
        ninv = t.count("I")
        ctx.count("events.trace.invokes>=5" if ninv >= 5 else "events.trace.invokes<5")
        if "E1" in t:
            ctx.count("events.trace.eintr+interrupt")
        if "E0" in t:
            ctx.count("events.trace.eintr")
        if "XF" in t:
            ctx.count("events.trace.cancel-enoent")
        if "EEXIST" in t:
            ctx.count("events.trace.eexist")
        if "Z" in t:
            ctx.count("events.trace.reset")
        if "SS" in t:
            ctx.count("events.trace.spin")


def sanitizer_summary(ctx, sub, status):
    """one failure for all shards (the per-case lines above carry the replayable inputs)"""
    import re
    for rc, err in status:
        m = re.search(r"(ERROR: AddressSanitizer[^\n]*|[^\n]*runtime error:[^\n]*|ERROR: LeakSanitizer[^\n]*)", err)
        if rc != 0 or m:
            ctx.fail(sub, "sanitizer" if m else "crash", "",
                     (m.group(1) if m else "driver exit rc=%d: %s" % (rc, err[-300:])), property_fails=True)
            return


def judge(ctx, sub, d, which):
    """which = 'c04' | 'c05': the property predicate on the implementation's trace + the diff."""
    cases, impl, model, verdict = d["cases"], d["impl"], d["model"], d[which]
    nprop = ndiff = 0
    for i, c in enumerate(cases):
        a, m, v = impl[i], model[i], verdict[i]
        crashed = (not a.startswith("ok")) or "!" in a
        if crashed:
            nprop += 1
            if nprop <= 3:
                ctx.fail(sub, "crash", c, "implementation: " + a[-300:], property_fails=True)
            continue
        if v != "true":
            nprop += 1
            if nprop <= 3:
                ctx.fail(sub, "property", c, "check_%s rejects the implementation's trace: %s" % (which, a[:600]),
                         property_fails=True)
            continue
        if a != m:
            ndiff += 1
            if ndiff <= 3:
                k = 0
                at, mt = a.split(), m.split()
                while k < min(len(at), len(mt)) and at[k] == mt[k]:
                    k += 1
                ctx.fail(sub, "diff", c, "traces differ at token %d: impl=...%s model=...%s" % (
                    k, " ".join(at[max(0, k - 12):k + 8]), " ".join(mt[max(0, k - 12):k + 8])),
                    property_fails=False)
    ctx.count(sub + ".property-failures", nprop)
    ctx.count(sub + ".disagreements", ndiff)
    sanitizer_summary(ctx, sub, [(rc, err) for rc, err in d["status"]])
    trace_stats(ctx, impl)
    ctx.record(sub, cases, set(impl),
               "programs of 1-12 callbacks (scripts of register/cancel/reset/interrupt calls per invocation, "
               "return codes) + external call sequences with events_run/events_spin, against schedules of poll "
               "answers (ready sets with ERR/HUP, EINTR with and without interrupt) and non-decreasing clock "
               "readings; compared: full client-visible trace (register/cancel results, clock readings, poll "
               "timeout + fd set + answer, callback entries and results, run results) of the C vs the extracted "
               "model; property predicate = extracted check_%s on the implementation's trace; "
               "non-trivial = distinct implementation traces" % which,
               samples=[cases[0][:300], impl[0][:300]])


def check_events_c04(ctx):
    d = run_all(ctx, "events.c04")
    if d:
        judge(ctx, "events.c04", d, "c04")


def check_events_c05(ctx):
    d = run_all(ctx, "events.c05")
    if d:
        judge(ctx, "events.c05", d, "c05")


def check_events_allocfail(ctx):
    """C14 for event registrations: the k-th allocation made by library code during one register
    call is refused (k > 0: only that one; k < 0: it and every later one of the call); the
    program retries the same call at once.  Pass 1 runs the implementation; what it reports for
    the injected call (ENOMEM or success; for a timer whether the clock had been read) selects the
    model's oracle value for that call (0 / 1 / 2), then the traces are compared and the SPEC's
    check_c14_events / check_c05 are evaluated on the implementation's trace.  Every case runs in
    its own process: blocks the library still owns after its atexit handlers are reported by the
    allocator interposer and by LeakSanitizer (exit status)."""
    sub = "events.allocfail"
    exe, mexe = build(ctx, sub)
    if not exe:
        return
    r = random.Random("events-c14-%d-%s" % (ctx.seed, ctx.tier))
    g = Gen(r, ctx)
    structs, inj, immediate = [], [], []
    for _ in range(ctx.n(250, 6000)):
        st, o, k, between = manyfd_struct(r, ctx)
        structs.append(st)
        inj.append((o, k))
        immediate.append(not between)
    n = ctx.n(1500, 40000) + len(structs)
    while len(structs) < n:
        prog, xs, polls, clocks = g.case_struct()
        sites = [(xs, i) for i, o in enumerate(xs) if o[0] in ("ir", "nr", "tr", "td")]
        inner = [(ops, i) for scripts in prog for ops, _ in scripts for i, o in enumerate(ops) if o[0] in ("ir", "nr", "tr", "td")]
        if not sites and not inner:
            continue
        lst, i = r.choice(sites) if (sites and (not inner or r.random() < 0.6)) else r.choice(inner)
        o = lst[i]
        k = r.choice([1, 1, 1, 2, 2, 3, 3, 4, 5, 6, 7, 8])
        if r.random() < 0.25:
            k = -k
        retry = list(o)
        lst.insert(i + 1, retry)
        refuse_cancels = 1 if r.random() < 0.3 else 0
        structs.append((prog, xs, polls, clocks, refuse_cancels))
        inj.append((o, k))
        immediate.append(True)
        ctx.count("events.allocfail.site." + o[0])
        ctx.count("events.allocfail.persistent" if k < 0 else "events.allocfail.single")

    def line(st, o, af):
        o[-1] = af
        s = render(*st[:4])
        o[-1] = 0
        return s + (" k 1" if st[4] else "")
    ccases = [line(st, o, k) for st, (o, k) in zip(structs, inj)]
    impl, stt = vlib.run_sharded(exe, ccases, env=ASAN_ENV, timeout=5400)
    mcases = []
    for st, (o, k), a in zip(structs, inj, impl):
        t = a.split()
        stage = 0
        hits = [j for j, x in enumerate(t) if x == "ENOMEM" and
                ((j >= 2 and t[j - 2] == "FI") or (j >= 3 and t[j - 3] in ("FN", "FT")))]
        if hits:
            j = hits[0]
            # FI p ENOMEM | FN fd op ENOMEM | FT sec usec ENOMEM ; a clock reading right before FT
            # belongs to the failed call
            stage = 1
            if j >= 3 and t[j - 3] == "FT" and j >= 6 and t[j - 6] == "C":
                stage = 2
            ctx.count("events.allocfail.hit.stage%d" % stage)
        else:
            ctx.count("events.allocfail.not-reached")
        mcases.append(line(st, o, stage))
    model, _ = vlib.run_sharded(mexe, mcases, timeout=5400)
    traces = [l[3:] if l.startswith("ok ") else "" for l in impl]
    # the retry-at-once predicate applies where the program retries at once; elsewhere check_c04
    c14, _ = vlib.run_sharded(mexe, [("chk14 " if imm else "chk04 ") + t for t, imm in zip(traces, immediate)],
                              timeout=1500)
    c05, _ = vlib.run_sharded(mexe, ["chk05 " + t for t in traces], timeout=5400)
    nprop = ndiff = 0
    for i, c in enumerate(ccases):
        a, m = impl[i], model[i]
        if (not a.startswith("ok")) or "!" in a:
            nprop += 1
            if nprop <= 3:
                what = "leak (exit-time accounting)" if ("!exit=23" in a or "!exit=25" in a) else "crash"
                ctx.fail(sub, "crash", c, "implementation: %s: %s" % (what, a[-200:]), property_fails=True)
        elif c14[i] != "true" or c05[i] != "true":
            nprop += 1
            if nprop <= 3:
                ctx.fail(sub, "property", c, "check_c14_events=%s check_c05=%s on the implementation's trace: %s" % (
                    c14[i], c05[i], a[:600]), property_fails=True)
        elif a != m:
            ndiff += 1
            if ndiff <= 3:
                k = 0
                at, mt = a.split(), m.split()
                while k < min(len(at), len(mt)) and at[k] == mt[k]:
                    k += 1
                ctx.fail(sub, "diff", c, "traces differ at token %d: impl=...%s model=...%s" % (
                    k, " ".join(at[max(0, k - 12):k + 8]), " ".join(mt[max(0, k - 12):k + 8])), property_fails=False)
    ctx.count(sub + ".property-failures", nprop)
    ctx.count(sub + ".disagreements", ndiff)
    sanitizer_summary(ctx, sub, stt)
    ctx.record(sub, ccases, set(impl),
               "event-loop programs (as for C04) with the k-th / every-from-k-th library allocation of one "
               "register call refused and the call retried at once; 30% of the cases also refuse every "
               "allocation during cancel calls; compared: full trace vs the model under the matching oracle; "
               "predicates check_c14_events (failure reported as ENOMEM, never invoked, retry succeeds) and "
               "check_c05 on the implementation's trace; leak = library blocks alive after exit handlers "
               "(interposer live set + LeakSanitizer, per case process)",
               samples=[ccases[0][:300], impl[0][:300]])


SUBCHECKS = {"C04": [check_events_c04], "C05": [check_events_c05], "C14": [check_events_allocfail]}
