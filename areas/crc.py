"""alg/crc32c.c + alg/crc32c_sse42.c: correspondence of the C (portable build and SSE4.2 builds) with
the extracted model, the bit-serial reference, and the property predicate crc_spec_ok evaluated on
the implementation's own output."""
import glob
import os

import vlib

CPUCFG = os.path.join(vlib.VERIF, "harness", "cpuconfig")
SRCS = ["alg/crc32c_sse42.c", "cpusupport/cpusupport_x86_sse42.c", "util/warnp.c"]

# name -> (CPUSUPPORT_CONFIG_FILE, extra cflags, flags for crc32c_sse42.c, expected `which` line)
CONFIGS = {
    "none": (os.path.join(CPUCFG, "none.h"), [], [], "hw=software"),
    "sse42": (os.path.join(CPUCFG, "sse42.h"), [], ["-msse4.2"], "hw=x86_crc32"),
    # SSE4.2 without the 64-bit instruction (what a 32-bit x86 build gets): two _mm_crc32_u32 per block
    "sse42_32": (os.path.join(CPUCFG, "none.h"), ["-DCPUSUPPORT_X86_CPUID=1", "-DCPUSUPPORT_X86_SSE42=1"],
                 ["-msse4.2"], "hw=x86_crc32_32"),
}
ENV = {"ASAN_OPTIONS": "detect_leaks=1:abort_on_error=0:handle_abort=0"}


def hx(bs):
    bs = bytes(bs)
    return bs.hex() if bs else "-"


def build(cfg):
    hdr, cflags, sflags, _ = CONFIGS[cfg]
    return vlib.build_c("drv_crc_%s_asan" % cfg, "drv_crc.c", SRCS, asan=True, cpuconfig=hdr, cflags=cflags,
                        per_file_flags={"crc32c_sse42.c": sflags} if sflags else None)


def rand_bytes(r, n):
    return bytes(r.getrandbits(8) for _ in range(n))


def alt_cuts(r, length, start_small):
    """Partition alternating calls of < 8 bytes (portable loops) and >= 8 bytes (accelerated path)."""
    cuts, left, small = [], length, start_small
    while left > 0:
        k = r.randrange(0, 8) if small else r.randrange(8, 25)
        k = min(k, left)
        cuts.append(k)
        left -= k
        small = not small
    if r.randrange(4) == 0:
        cuts.insert(r.randrange(len(cuts) + 1), 0)
    return cuts


def rand_cuts(r, length):
    style = r.randrange(5)
    if style == 0:
        return [length]
    if style == 1:
        return [1] * length if length <= 64 else [length]
    if style == 2:
        return alt_cuts(r, length, True)
    if style == 3:
        return alt_cuts(r, length, False)
    cuts, left = [], length
    while left > 0:
        k = min(left, r.choice([1, 2, 3, 4, 5, 7, 8, 9, 12, 15, 16, 17, 31, 33, 64, 100]))
        cuts.append(k)
        left -= k
    return cuts


def cuts_s(cuts):
    return ",".join(str(c) for c in cuts) if cuts else "-"


def corpus_cases():
    out = []
    for p in sorted(glob.glob(os.path.join(vlib.VERIF, "corpus", "crc", "*.txt"))):
        for line in open(p):
            line = line.strip()
            if line and not line.startswith("#"):
                out.append(line)
    return out


def gen_stream_cases(ctx, heavy_partitions):
    """crc / upd / tables cases valid for every build."""
    r = ctx.rng
    cases = ["tables"] + [c for c in corpus_cases() if not c.startswith("sse42 ")]
    # every length 0..40 at every alignment 0..15: one single-call case and alternating partitions
    for ln in range(0, 41):
        for off in range(16):
            d = rand_bytes(r, ln)
            cases.append("crc %d %s %s" % (off, hx(d), cuts_s([ln] if ln else [])))
            ctx.count("crc.len0-40.single")
            for k in range(heavy_partitions):
                cases.append("crc %d %s %s" % (off, hx(d), cuts_s(alt_cuts(r, ln, (ln + off + k) % 2 == 0))))
                ctx.count("crc.len0-40.alternating")
    # an Update call from an arbitrary state: single bytes, one slice, 8-byte blocks, ...
    for _ in range(ctx.n(300, 6000)):
        ln = r.choice([0, 1, 1, 2, 3, 4, 4, 5, 7, 8, 8, 9, 11, 12, 15, 16, 17, 23, 24, 25, r.randrange(0, 70)])
        st = r.choice([0, 0xffffffff, 1, 0x80000000, r.getrandbits(32), r.getrandbits(32), r.getrandbits(32)])
        cases.append("upd %d %08x %s" % (r.randrange(16), st, hx(rand_bytes(r, ln))))
        ctx.count("upd.len<8" if ln < 8 else "upd.len>=8")
    # structured data: all-zero, all-ones, single bit set at every position of a short buffer
    for ln in (1, 4, 8, 9, 16, 21):
        for bit in range(8 * ln):
            d = bytearray(ln)
            d[bit // 8] = 1 << (bit % 8)
            cases.append("crc %d %s %s" % (bit % 16, hx(d), cuts_s(rand_cuts(r, ln))))
            ctx.count("crc.single-bit")
    for ln in (0, 1, 7, 8, 31, 32, 33, 100):
        for v in (0, 255):
            cases.append("crc %d %s %s" % (ln % 16, hx(bytes([v]) * ln), cuts_s(rand_cuts(r, ln))))
    # random longer buffers
    for _ in range(ctx.n(60, 1500)):
        ln = r.choice([r.randrange(41, 200), r.randrange(41, 200), r.randrange(200, 1500)])
        cases.append("crc %d %s %s" % (r.randrange(16), hx(rand_bytes(r, ln)), cuts_s(rand_cuts(r, ln))))
        ctx.count("crc.long")
    for _ in range(ctx.n(2, 12)):
        ln = r.randrange(4000, ctx.n(9000, 40000))
        cases.append("crc %d %s %s" % (r.randrange(16), hx(rand_bytes(r, ln)), cuts_s(rand_cuts(r, ln))))
        ctx.count("crc.verylong")
    return cases


def gen_sse42_cases(ctx):
    """direct CRC32C_Update_SSE42(state, buf, len) calls (only meaningful in the SSE4.2 builds)."""
    r = ctx.rng
    cases = [c for c in corpus_cases() if c.startswith("sse42 ")]
    for ln in range(8, 41):
        for off in range(16):
            cases.append("sse42 %d %08x %s" % (off, r.getrandbits(32), hx(rand_bytes(r, ln))))
            ctx.count("sse42.len8-40")
    for ln in range(0, 8):          # below the documented minimum: assert
        cases.append("sse42 %d %08x %s" % (r.randrange(16), r.getrandbits(32), hx(rand_bytes(r, ln))))
        ctx.count("sse42.len<8")
    for _ in range(ctx.n(100, 3000)):
        ln = r.randrange(8, 300)
        cases.append("sse42 %d %08x %s" % (r.randrange(16), r.getrandbits(32), hx(rand_bytes(r, ln))))
        ctx.count("sse42.random")
    if vlib.NDEBUG_BUILD:
        # len < 8 is outside the documented contract; with assert() compiled out nothing is promised
        cases = [c for c in cases if len(c.split()[3].replace("-", "")) >= 16]
    return cases


def replay_cases(ctx):
    rep = getattr(ctx, "replay", None)
    if not rep:
        return None
    cs = [f.get("case", "") for f in rep.get("failures", [])]
    if rep.get("failing_input"):
        cs.insert(0, rep["failing_input"].get("case", ""))
    cs = [c.split("   [build")[0] for c in cs]
    cs = [c for c in cs if c.split(" ")[0] in ("crc", "upd", "sse42", "tables")]
    return list(dict.fromkeys(cs)) or None


def run_config(ctx, sub, cfg, cases, mexe):
    """Run one build against the model of that configuration, the reference and the predicate.
    Returns the implementation's output lines (None when the build is unusable)."""
    exe, err = build(cfg)
    if not exe:
        ctx.fail(sub, "build", cfg, "C driver does not build (%s): %s" % (cfg, err))
        return None
    which, st = vlib.run_sharded(exe, ["which"], shards=1, env=ENV)
    want = CONFIGS[cfg][3]
    if which != [want]:
        # a silent fallback to the portable code would make this configuration's run meaningless
        ctx.fail(sub, "tie", "which", "configuration %s selected %s, expected %s: accelerated path not covered"
                 % (cfg, which, want))
        # If the CPU has SSE4.2 the fallback was caused by the library's own self-test failing: go on, the
        # direct CRC32C_Update_SSE42 calls among the cases then exhibit the wrong function concretely.
        try:
            has = "sse4_2" in open("/proc/cpuinfo").read()
        except OSError:
            has = False
        if not has:
            return None
    ctx.count("%s.config.%s" % (sub, cfg))
    impl, st = vlib.run_sharded(exe, cases, env=ENV)
    vlib.sanitizer_reports(ctx, sub, st, cases_desc="build " + cfg)
    model, _ = vlib.run_sharded(mexe, cases, args=(cfg,))
    spec, _ = vlib.run_sharded(mexe, ["spec " + c for c in cases])
    vlib.tri_compare(ctx, sub, cases, impl, model, spec, describe=lambda c: c + "   [build %s]" % cfg)
    # the property predicate itself on the implementation's output
    pc, idx = [], []
    for i, (c, a) in enumerate(zip(cases, impl)):
        t = c.split(" ")
        if t[0] == "crc" and a.startswith("ok "):
            pc.append("specok %s %s" % (t[2], a[3:]))
            idx.append(i)
    verdict, _ = vlib.run_sharded(mexe, pc)
    nbad = 0
    for i, v in zip(idx, verdict):
        if v != "true":
            nbad += 1
            if nbad <= 3:
                ctx.fail(sub, "property", cases[i] + "   [build %s]" % cfg,
                         "1 || data || crc is not a multiple of the Castagnoli polynomial: impl=%s predicate=%s"
                         % (impl[i], v), property_fails=True)
    ctx.count("%s.predicate-evaluations" % sub, len(pc))
    return impl


def check_crc(ctx):
    """C01, CRC32C clause: the value returned by Init/Update*/Final has the algebraic meaning."""
    sub = "crc"
    mexe, err = vlib.build_model("crc")
    if not mexe:
        ctx.fail(sub, "tie", "", err)
        return
    cases = replay_cases(ctx) or gen_stream_cases(ctx, ctx.n(1, 6))
    cases = [c for c in cases if not c.startswith("sse42 ")]
    seen = set()
    for cfg in ("none", "sse42"):
        impl = run_config(ctx, sub, cfg, cases, mexe)
        if impl:
            seen |= set(zip(cases, impl))
    ctx.record(sub, cases, seen,
               "CRC32C Init/Update*/Final in the portable and the SSE4.2 build: every length 0..40 x alignment 0..15 "
               "(single call + partitions alternating <8 / >=8 byte calls), single Update calls from arbitrary states, "
               "single-bit buffers, random buffers up to 40 KB; compared with the extracted model, the bit-serial "
               "reference, the generated tables, and crc_spec_ok evaluated on the implementation's output; "
               "non-trivial = distinct (case, result)",
               samples=[cases[1][:120] if len(cases) > 1 else cases[0], cases[-1][:120]])


def check_crc_configs(ctx):
    """C03, CRC32C part: every configuration returns the same bits for every partition/alignment."""
    sub = "crc-configs"
    mexe, err = vlib.build_model("crc")
    if not mexe:
        ctx.fail(sub, "tie", "", err)
        return
    rc = replay_cases(ctx)
    common = [c for c in rc if not c.startswith("sse42 ")] if rc else gen_stream_cases(ctx, ctx.n(2, 10))
    direct = [c for c in rc if c.startswith("sse42 ")] if rc else gen_sse42_cases(ctx)
    outs, seen = {}, set()
    for cfg in ("none", "sse42", "sse42_32"):
        cases = common + (direct if cfg != "none" else [])
        impl = run_config(ctx, sub, cfg, cases, mexe)
        if impl:
            outs[cfg] = impl
            seen |= set(zip(cases, impl))
    # the property itself: identical output in every configuration
    ref = outs.get("none")
    for cfg in ("sse42", "sse42_32"):
        if ref is None or cfg not in outs:
            continue
        nbad = 0
        for c, a, b in zip(common, ref, outs[cfg]):
            if a != b:
                nbad += 1
                if nbad <= 3:
                    ctx.fail(sub, "property", c, "portable build=%s %s build=%s" % (a, cfg, b), property_fails=True)
        ctx.count("%s.cross-config-comparisons" % sub, len(common))
    ctx.record(sub, common + direct, seen,
               "builds none / sse42 (64-bit CRC32) / sse42 without SSE42_64 (two 32-bit CRC32 per block), each required "
               "to report the expected hwaccel; lengths 0..40 x alignments 0..15 x partitions alternating <8 and >=8 "
               "byte calls; direct CRC32C_Update_SSE42 calls for lengths 8..40 x alignments 0..15 from random states "
               "and below the minimum length; outputs compared across builds, with the model of each configuration "
               "and with the bit-serial reference; non-trivial = distinct (case, result)",
               samples=[common[1][:120] if len(common) > 1 else common[0], (direct or common)[-1][:120]])


SUBCHECKS = {"C01": [check_crc], "C03": [check_crc_configs]}
