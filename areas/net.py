"""network/network_{read,write,accept,connect}.c and netbuf/netbuf_{read,write}.c.

Three things happen to every case line (grammar: model/net_main.ml):
  1. harness/drv_net.c runs it on the real events*.c + network_*.c + netbuf_*.c with the scripted
     kernel of harness/wrap_net.c (ASan/UBSan build, one forked child per case);
  2. the extracted model (coq/Net/NetWorld.v, NetConnect.v) runs it; the two logs are diffed;
  3. an independent checker (this file; it shares no code with the model) evaluates the property
     predicates of C06 / C07 directly on the IMPLEMENTATION's log: exactly-once, byte-exactness
     against the peer stream, min <= n <= buflen, every recv/send asked for exactly the rest of the
     buffer at the current offset, no transfer after completion / cancel / failure, prefix
     property of the writer, window bounds of the reader, first-success for connect.
"""
import re
import vlib

ERRNO = ["EAGAIN", "EWOULDBLOCK", "EINTR", "ECONNABORTED", "ECONNRESET", "EPIPE", "ECONNREFUSED",
         "ETIMEDOUT", "EMFILE", "ENOMEM", "EBADF", "EIO", "ENFILE", "EPROTO", "ENOBUFS",
         "EHOSTUNREACH", "ENETUNREACH", "EINPROGRESS", "EPERM", "ENOTCONN"]
RETRY_RW = {"EAGAIN", "EWOULDBLOCK", "EINTR"}
RETRY_ACC = RETRY_RW | {"ECONNABORTED"}
HARD_RW = ["ECONNRESET", "EPIPE", "ETIMEDOUT", "EIO", "ENOTCONN", "ENOBUFS"]
HARD_ACC = ["EMFILE", "ENFILE", "ENOMEM", "EPROTO", "ENOBUFS", "EPERM"]
RBUF = 4096          # initial reader buffer / WBUFLEN as the property text names them
SIZES = [0, 1, 4095, 4096, 4097, 8192, 100000]

SRC = ["events/events.c", "events/events_immediate.c", "events/events_network.c",
       "events/events_network_selectstats.c", "events/events_timer.c",
       "network/network_read.c", "network/network_write.c", "network/network_accept.c",
       "network/network_connect.c", "netbuf/netbuf_read.c", "netbuf/netbuf_write.c",
       "util/sock.c", "util/sock_util.c", "util/asprintf.c", "util/warnp.c",
       "datastruct/elasticarray.c", "datastruct/ptrheap.c", "datastruct/timerqueue.c"]
WRAPS = ["recv", "send", "accept", "connect", "socket", "close", "poll", "getsockopt", "setsockopt",
         "fcntl", "fcntl64", "malloc", "calloc", "realloc", "free"]
ASAN_ENV = {"ASAN_OPTIONS": "detect_leaks=1:abort_on_error=0:exitcode=1", "LSAN_OPTIONS": "exitcode=23",
            "UBSAN_OPTIONS": "halt_on_error=1:exitcode=1"}


# ------------------------------------------------------------------ byte patterns and rendering
def pat(salt, p):
    return (p * 131 + (p >> 8) * 17 + salt * 29 + 7) & 255


def pat_bytes(salt, pos, n):
    return bytes(pat(salt, pos + i) for i in range(n))


def fnv(b):
    h = 0xcbf29ce484222325
    for x in b:
        h = ((h ^ x) * 0x100000001b3) & 0xFFFFFFFFFFFFFFFF
    return "%016x" % h


def show(b):
    if len(b) == 0:
        return "-"
    return b.hex() if len(b) <= 16 else "#" + fnv(b)


def lshow(b):
    return "%d:%s" % (len(b), show(b))


class Stream:
    """Lazily rendered pattern stream with cached prefix hashes would be overkill: slices are
    rendered on demand (cases are small except a few 100 kB ones)."""

    def __init__(self, salt):
        self.salt = salt

    def get(self, a, b):
        return pat_bytes(self.salt, a, b - a)


# ------------------------------------------------------------------ build / run
def build(ctx, sub):
    exe, err = vlib.build_c("drv_net_asan", "drv_net.c", SRC, extra_sources=["wrap_net.c"], wraps=WRAPS, asan=True)
    if not exe:
        ctx.fail(sub, "build", "", "C driver does not build: " + (err or "")[-1500:])
        return None, None
    mexe, err = vlib.build_model("net")
    if not mexe:
        ctx.fail(sub, "tie", "", err)
        return exe, None
    return exe, mexe


def split_impl(line):
    """-> (core text up to and including 'end', extra tokens after it, status tokens !SIG.. etc)."""
    toks = line.split()
    status = [t for t in toks if t.startswith("!")]
    toks = [t for t in toks if not t.startswith("!")]
    if "end" in toks:
        i = toks.index("end")
        return " ".join(toks[:i + 1]), toks[i + 1:], status
    return " ".join(toks), [], status


# ------------------------------------------------------------------ script parser (independent of the OCaml one)
class Op:
    def __init__(self, kind, **kw):
        self.kind = kind
        self.cont = []
        self.__dict__.update(kw)


def parse_sc(toks):
    """-> (ops tree, info) where info has requests by id, feeds per (fd, dir) in textual order and
    the writer ops with their pattern positions (clamped like the drivers do)."""
    info = {"req": {}, "feeds": {}, "feedorder": [], "wops": [], "nr_fd": None, "nw_fd": None}
    pos = [0]
    app = {"pos": 0, "res": None, "nw": False}
    peer = {}

    def block(top):
        ops = []
        while pos[0] < len(toks):
            t = toks[pos[0]]
            if t == "}":
                if top:
                    raise ValueError("stray }")
                pos[0] += 1
                return ops
            pos[0] += 1
            f = t.split(":")
            o = None
            if f[0] == "r" and len(f) == 5:
                o = Op("r", id=int(f[1]), fd=int(f[2]), buflen=int(f[3]), min=int(f[4]))
                info["req"][o.id] = o
            elif f[0] == "w" and len(f) == 5:
                o = Op("w", id=int(f[1]), fd=int(f[2]), buflen=int(f[3]), min=int(f[4]))
                info["req"][o.id] = o
            elif f[0] == "a" and len(f) == 3:
                o = Op("a", id=int(f[1]), fd=int(f[2]))
                info["req"][o.id] = o
            elif f[0] == "x" and len(f) == 2:
                o = Op("x", id=int(f[1]))
            elif f[0] == "k" and len(f) == 4 and top:
                fd, wr = int(f[1]), f[2] == "w"
                evs = []
                for e in f[3].split(","):
                    if e[0] == "d":
                        n = int(e[1:])
                        p = peer.get(fd, 0)
                        peer[fd] = p + n
                        evs.append(["d", p, n])
                    elif e[0] == "z":
                        evs.append(["d", 0, 0])
                    elif e[0] == "n":
                        evs.append(["n", int(e[1:])])
                    elif e[0] == "c":
                        evs.append(["c"])
                    elif e[0] == "e":
                        evs.append(["e", e[1:]])
                    else:
                        raise ValueError(e)
                if (fd, wr) not in info["feeds"]:
                    info["feeds"][(fd, wr)] = []
                    info["feedorder"].append((fd, wr))
                info["feeds"][(fd, wr)] += evs
                o = Op("k", fd=fd, wr=wr, evs=evs)
            elif t == "run":
                o = Op("run")
            elif f[0] == "nri" and len(f) == 2:
                o = Op("nri", fd=int(f[1]))
                if info["nr_fd"] is None:
                    info["nr_fd"] = o.fd
            elif f[0] == "nrw" and len(f) == 2:
                o = Op("nrw", k=int(f[1]))
            elif f[0] == "nrc" and len(f) == 2:
                o = Op("nrc", j=int(f[1]))
            elif t == "nrx":
                o = Op("nrx")
            elif t == "nrp":
                o = Op("nrp")
            elif f[0] == "nwi" and len(f) == 2 and top:
                o = Op("nwi", fd=int(f[1]))
                if info["nw_fd"] is None:
                    info["nw_fd"] = o.fd
                app["nw"] = True
            elif f[0] == "nww" and len(f) == 2 and top:
                o = Op("nww", n=int(f[1]), pos=app["pos"])
                app["pos"] += o.n
                info["wops"].append(o)
            elif f[0] == "nwr" and len(f) == 2 and top:
                o = Op("nwr", n=int(f[1]))
                if app["nw"] and app["res"] is None:
                    app["res"] = o.n
                info["wops"].append(o)
            elif f[0] == "nwc" and len(f) == 2 and top:
                j = int(f[1])
                if app["res"] is not None and j > app["res"]:
                    j = app["res"]
                o = Op("nwc", j=j, pos=app["pos"])
                app["pos"] += j
                app["res"] = None
                info["wops"].append(o)
            else:
                raise ValueError("bad token " + t)
            if o.kind in ("r", "w", "a", "nrw") and pos[0] < len(toks) and toks[pos[0]] == "{":
                pos[0] += 1
                o.cont = block(False)
            ops.append(o)
        if not top:
            raise ValueError("unterminated block")
        return ops

    ops = block(True)
    return ops, info


# ------------------------------------------------------------------ the scripted kernel, re-implemented for the checker
class KQ:
    """Answer queue of one (fd, direction) in feed order; answer(len) gives what the scripted
    kernel returns to a recv/send/accept asking for len bytes."""

    def __init__(self, evs):
        self.q = [list(e) for e in evs]

    def empty(self):
        return not self.q

    def recv(self, ln):
        if not self.q:
            return ("E", "EAGAIN", None)
        e = self.q[0]
        if e[0] == "d":
            n = min(e[2], ln)
            a = e[1]
            if n == e[2]:
                self.q.pop(0)
            else:
                e[1] += n
                e[2] -= n
            return ("N", n, a)
        self.q.pop(0)
        if e[0] == "e":
            return ("E", e[1], None)
        return ("E", "EAGAIN", None)

    def send(self, ln):
        if not self.q:
            return ("E", "EAGAIN")
        e = self.q.pop(0)
        if e[0] == "n":
            return ("N", min(e[1], ln))
        if e[0] == "e":
            return ("E", e[1])
        return ("E", "EAGAIN")

    def accept(self):
        if not self.q:
            return ("E", "EAGAIN")
        e = self.q.pop(0)
        if e[0] == "c":
            return ("S",)
        if e[0] == "e":
            return ("E", e[1])
        return ("E", "EAGAIN")

    def data_left(self):
        return sum(e[2] for e in self.q if e[0] == "d")


